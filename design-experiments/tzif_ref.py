"""Independent TZif v1-block reader and exact interval oracle."""
import struct, bisect, datetime as D
class RefZone(object):
    def __init__(self, data):
        assert data[:4] == b'TZif'
        isutcnt, isstdcnt, leapcnt, timecnt, typecnt, charcnt = struct.unpack('>6l', data[20:44])
        p = 44
        self.trans = list(struct.unpack('>%dl' % timecnt, data[p:p+4*timecnt])); p += 4*timecnt
        self.idx = list(struct.unpack('>%dB' % timecnt, data[p:p+timecnt])); p += timecnt
        self.types = []
        raw = []
        for i in range(typecnt):
            raw.append(struct.unpack('>lBB', data[p:p+6])); p += 6
        abbr = data[p:p+charcnt]; p += charcnt
        for off, isdst, ai in raw:
            a = abbr[ai:abbr.index(b'\0', ai)].decode('ascii')
            self.types.append((off, bool(isdst), a))
        # before-first type: first standard type, else type 0
        self.before = next((t for t in self.types if not t[1]), self.types[0])
    def type_at(self, ts):
        """type in force at UTC timestamp ts (int seconds)"""
        i = bisect.bisect_right(self.trans, ts) - 1
        if i < 0: return self.before
        return self.types[self.idx[i]]
    def intervals(self):
        """list of (start_ts or None, end_ts or None, type)"""
        out = []
        if not self.trans: return [(None, None, self.before)]
        out.append((None, self.trans[0], self.before))
        for i, t in enumerate(self.trans):
            out.append((t, self.trans[i+1] if i+1 < len(self.trans) else None, self.types[self.idx[i]]))
        return out
    def preimages(self, wall_ts):
        """UTC timestamps u with u + off(u) == wall_ts; considers only intervals near"""
        res = []
        ivs = self._ivs if hasattr(self, '_ivs') else self.intervals(); self._ivs = ivs
        # search window: intervals whose range could contain wall_ts - off, off within +-26h
        lo = bisect.bisect_left(self.trans, wall_ts - 100000) ; hi = bisect.bisect_right(self.trans, wall_ts + 100000) + 1
        for (s, e, t) in ivs[max(0, lo-1):hi+1]:
            u = wall_ts - t[0]
            if (s is None or s <= u) and (e is None or u < e): res.append(u)
        return sorted(set(res))
