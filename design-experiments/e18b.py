import sys, threading, time, collections, random, weakref
from dateutil import tz
from dateutil.tz import _factories
sys.setswitchinterval(1e-6)
mon = sys.monitoring; TOOL = 4
inject = '--inject' in sys.argv
if inject:
    mon.use_tool_id(TOOL, 'y')
    rng = random.Random(1)
    def on_line(code, line):
        if rng.random() < 0.2: time.sleep(0)
    mon.register_callback(TOOL, mon.events.LINE, on_line)
    for c in (_factories._TzOffsetFactory.__call__.__code__, weakref.WeakValueDictionary.setdefault.__code__):
        mon.set_local_events(TOOL, c, mon.events.LINE)
N = 8; ROUNDS = int(sys.argv[1])
bad = 0; t0 = time.time()
for r in range(ROUNDS):
    key = ('K%d' % r, r + 1)
    barrier = threading.Barrier(N); out = [None] * N
    def w(i):
        barrier.wait()
        out[i] = tz.tzoffset(*key)
    ths = [threading.Thread(target=w, args=(i,)) for i in range(N)]
    [t.start() for t in ths]; [t.join() for t in ths]
    if len({id(o) for o in out}) != 1: bad += 1
print('inject' if inject else 'plain', 'rounds', ROUNDS, 'rounds with two live objects', bad, 'time', round(time.time() - t0, 2))
