import re, random, collections, datetime as D, sys
from dateutil.parser import isoparser
from dateutil import tz
# strict reference grammar
DATE = r'(?:(?P<y>\d{4})(?:-(?P<m>\d{2})(?:-(?P<d>\d{2}))?|(?P<bm>\d{2})(?P<bd>\d{2})|-?W(?P<w>\d{2})(?:(?P<wsep>-?)(?P<wd>\d))?|-?(?P<o>\d{3}))?)'
def ref_isoparse(s, sep=None):
    """returns ('ok', value) or ('err',)"""
    # date part: try all splits
    res = set()
    for cut in range(4, len(s) + 1):
        dpart, rest = s[:cut], s[cut:]
        dv = ref_date(dpart)
        if dv is None: continue
        if not rest:
            res.add(('ok', D.datetime(dv.year, dv.month, dv.day), len(dpart))); continue
        if sep is not None and rest[0] != sep: continue
        if len(dpart) in (4, 7) and re.fullmatch(r'\d{4}(-\d{2})?', dpart): pass
        tv = ref_time(rest[1:])
        if tv is None: continue
        h, mi, se, us, tzv = tv
        add = 0
        if h == 24: h = 0; add = 1
        try:
            res.add(('ok', D.datetime(dv.year, dv.month, dv.day, h, mi, se, us, tzv) + D.timedelta(days=add), len(dpart)))
        except (ValueError, OverflowError): pass
    return res
def ref_date(s):
    m = re.fullmatch(r'(\d{4})', s)
    try:
        if m: return D.date(int(s), 1, 1)
        m = re.fullmatch(r'(\d{4})-(\d{2})', s)
        if m: return D.date(int(m[1]), int(m[2]), 1)
        m = re.fullmatch(r'(\d{4})-(\d{2})-(\d{2})', s) or re.fullmatch(r'(\d{4})(\d{2})(\d{2})', s)
        if m: return D.date(int(m[1]), int(m[2]), int(m[3]))
        m = re.fullmatch(r'(\d{4})-W(\d{2})(?:-(\d))?', s) or re.fullmatch(r'(\d{4})W(\d{2})(\d)?', s)
        if m:
            y, w, d = int(m[1]), int(m[2]), int(m[3] or 1)
            if not (1 <= w <= 53 and 1 <= d <= 7): return None
            return D.date.fromisocalendar(y, w, d) if w <= D.date(y, 12, 28).isocalendar()[1] else (D.date.fromisocalendar(y, 1, 1) + D.timedelta(days=(w-1)*7 + d-1))
        m = re.fullmatch(r'(\d{4})-?(\d{3})', s)
        if m:
            y, o = int(m[1]), int(m[2])
            if not 1 <= o <= (366 if (y%4==0 and (y%100 or y%400==0)) else 365): return None
            return D.date(y, 1, 1) + D.timedelta(days=o-1)
    except ValueError: return None
    return None
def ref_time(s):
    m = re.fullmatch(r'(\d{2})(?:(:?)(\d{2})(?:(:?)(\d{2})(?:[.,](\d+))?)?)?(Z|z|[+-]\d{2}(?::?\d{2})?)?', s)
    if not m: return None
    h = int(m[1]); mi = int(m[3] or 0); se = int(m[5] or 0)
    if m[5] is not None and m[2] != m[4]: return None
    us = int((m[6] or '0')[:6].ljust(6, '0'))
    if h == 24:
        if mi or se or us: return None
    elif h > 23: return None
    if mi > 59 or se > 59: return None
    tzv = None
    if m[7]:
        t = m[7]
        if t in 'Zz': tzv = tz.UTC
        else:
            hh = int(t[1:3]); mm = int(t[-2:]) if len(t) > 3 else 0
            if hh > 23 or mm > 59: return None
            off = (hh*60+mm)*60 * (-1 if t[0] == '-' else 1)
            tzv = tz.UTC if off == 0 else tz.tzoffset(None, off)
    return h, mi, se, us, tzv

rng = random.Random(int(sys.argv[1]))
def valid():
    d = D.datetime(rng.randint(1, 9999), rng.randint(1, 12), rng.randint(1, 28), rng.randint(0, 23), rng.randint(0, 59), rng.randint(0, 59), rng.randint(0, 999999))
    form = rng.randrange(6)
    ic = d.isocalendar()
    ds = [d.strftime('%Y-%m-%d').zfill(10), d.strftime('%Y%m%d').zfill(8), '%04d-W%02d-%d' % tuple(ic), '%04dW%02d%d' % tuple(ic), '%04d-%03d' % (d.year, d.timetuple().tm_yday), '%04d%03d' % (d.year, d.timetuple().tm_yday)][form]
    if rng.random() < .3: return ds
    ext = rng.random() < .5; c = ':' if ext else ''
    ts = '%02d' % d.hour
    p = rng.randrange(4)
    if p >= 1: ts += c + '%02d' % d.minute
    if p >= 2: ts += c + '%02d' % d.second
    if p >= 3: ts += rng.choice('.,') + ('%06d' % d.microsecond)[:rng.randint(1, 6)]
    z = rng.choice(['', '', 'Z', '+01', '-0530', '+05:30', '+00:00', '-00', '+2359'])
    return ds + rng.choice('T T_') + ts + z
alpha = '0123456789-:+.,TWZ _zw/\t'
def mutate(s):
    k = rng.randrange(4); i = rng.randrange(len(s) + 1)
    if k == 0 and s: i = min(i, len(s)-1); return s[:i] + rng.choice(alpha) + s[i+1:]
    if k == 1: return s[:i] + rng.choice(alpha) + s[i:]
    if k == 2 and s: i = min(i, len(s)-1); return s[:i] + s[i+1:]
    if len(s) > 1: i = min(i, len(s)-2); return s[:i] + s[i+1] + s[i] + s[i+2:]
    return s
P = isoparser()
cnt = collections.Counter(); ex = collections.defaultdict(list)
for _ in range(int(sys.argv[2])):
    s = valid()
    for _ in range(rng.choice([0, 1, 1, 2])): s = mutate(s)
    try:
        got = ('ok', P.isoparse(s))
    except ValueError: got = ('err',)
    except Exception as e: got = ('EXC', type(e).__name__)
    refs = ref_isoparse(s)
    refvals = {r[1] for r in refs}
    if got[0] == 'EXC': k = 'exc:' + got[1]
    elif got[0] == 'ok' and not refs: k = 'accepts-malformed'
    elif got[0] == 'ok' and got[1] not in refvals: k = 'wrong-value'
    elif got[0] == 'err' and refs: k = 'rejects-valid'
    else: k = 'agree-' + got[0]
    cnt[k] += 1
    if not k.startswith('agree') and len(ex[k]) < 25: ex[k].append((s, got, sorted(map(str, refvals))))
print(cnt)
for k, v in ex.items():
    print(k)
    for x in v: print('   ', repr(x[0]), x[1][1:] , x[2])
