import random, datetime as D, collections, io, sys
from dateutil.parser import isoparser, isoparse
from dateutil import tz
rng = random.Random(1)
cnt = collections.Counter(); ex = collections.defaultdict(list)
for _ in range(60000):
    y = rng.choice([1, 99, 100, 999, 1000, 1999, 2000, 2004, 2020, 2021, 9999] + [rng.randint(1, 9999)] * 4)
    d = D.datetime(y, 1, 1) + D.timedelta(days=rng.randrange(366 if (y % 4 == 0 and (y % 100 or y % 400 == 0)) else 365), seconds=rng.choice([0, 86399, rng.randrange(86400)]), microseconds=rng.choice([0, 1, 999999, 500000, rng.randrange(10**6)]))
    ic = d.isocalendar(); ext = rng.random() < .5
    form = rng.randrange(3)
    if form == 0: ds = ('%04d-%02d-%02d' if ext else '%04d%02d%02d') % (d.year, d.month, d.day)
    elif form == 1:
        if ic[0] < 1 or ic[0] > 9999: continue
        ds = ('%04d-W%02d-%d' if ext else '%04dW%02d%d') % tuple(ic)
    else: ds = ('%04d-%03d' if ext else '%04d%03d') % (d.year, d.timetuple().tm_yday)
    prec = rng.randrange(5)   # 0 date only,1 h,2 hm,3 hms,4 frac
    exp = d.replace(hour=0, minute=0, second=0, microsecond=0); s = ds
    sepc = rng.choice(['T', ' ', 'T', '_', 't', 'x'])
    text = ext if rng.random() < .8 else not ext
    c = ':' if text else ''
    if prec >= 1:
        s += sepc + '%02d' % d.hour; exp = exp.replace(hour=d.hour)
    if prec >= 2: s += c + '%02d' % d.minute; exp = exp.replace(minute=d.minute)
    if prec >= 3: s += c + '%02d' % d.second; exp = exp.replace(second=d.second)
    if prec >= 4:
        nd = rng.randint(1, 9); frac = ('%06d' % d.microsecond) + '%03d' % rng.randrange(1000)
        s += rng.choice('.,') + frac[:nd]; exp = exp.replace(microsecond=int(frac[:min(nd, 6)].ljust(6, '0')))
    if prec >= 1 and rng.random() < .5:
        o = rng.choice([0, 0, 60, -60, 3600, -19800, 86340, -86340, rng.randint(-1439, 1439) * 60]); a = abs(o) // 60; sg = '-' if o < 0 else '+'
        f = rng.randrange(4)
        if f == 0 and a % 60 == 0: s += '%s%02d' % (sg, a // 60)
        elif f == 1: s += '%s%02d%02d' % (sg, a // 60, a % 60)
        elif f == 2 or f == 0: s += '%s%02d:%02d' % (sg, a // 60, a % 60)
        else: s += rng.choice('Zz'); o = 0
        exp = exp.replace(tzinfo=tz.UTC if o == 0 else tz.tzoffset(None, o))
    inp = rng.choice([s, s.encode('ascii'), io.StringIO(s)])
    try: got = isoparse(inp)
    except Exception as e: got = 'EXC:%s:%s' % (type(e).__name__, e)
    ok = not isinstance(got, str) and got == exp and (got.tzinfo is None) == (exp.tzinfo is None) and (exp.tzinfo is None or (got.utcoffset() == exp.utcoffset() and (exp.utcoffset() != D.timedelta(0) or got.tzinfo is tz.UTC)))
    k = (form, ext, prec, 'mixed' if text != ext else 'same')
    cnt[ok] += 1
    if not ok and len(ex[k]) < 3: ex[k].append((s, got, exp))
print(cnt)
for k, v in sorted(ex.items()):
    for x in v: print(k, x)
# 24:00
print(isoparse('2014-12-31T24:00'), isoparse('2014-12-31T24:00:00.000'), isoparser().parse_isotime('24:00'))
try: print(isoparse('9999-12-31T24:00'))
except Exception as e: print(type(e).__name__, e)
