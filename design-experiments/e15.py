import random, collections, warnings, datetime as D, sys
warnings.simplefilter('ignore')
from dateutil import parser
toks = ['1','2','12','31','99','2003','20030925','0','00','10','59','24','4.5','10.36.28','-','+','/',':','.',',',' ',' ','T','Z','UTC','GMT','EST','am','pm','a','p','AM','h','m','s','hour','minutes','Jan','January','Sept','of','on','at','and','th','st','Mon','Monday','+0300','-03:00','+3',"'",'a.m.','12:30','10:36:28','2003-09-25','Sep','25','1999']
rng = random.Random(1)
cnt = collections.Counter(); ex = collections.defaultdict(list)
dflt = D.datetime(2001, 1, 31)
for i in range(150000):
    s = ''.join(rng.choice(toks) for _ in range(rng.randint(1, 7)))
    try: a = parser.parse(s, default=dflt)
    except Exception: cnt['reject'] += 1; continue
    cnt['accept'] += 1
    try: b = parser.parse(s, default=dflt, fuzzy=True)
    except Exception as e: b = 'EXC:' + type(e).__name__
    try: c, toksk = parser.parse(s, default=dflt, fuzzy_with_tokens=True)
    except Exception as e: c, toksk = 'EXC:' + type(e).__name__, ()
    def same(x, y): return not isinstance(y, str) and x == y and (x.tzinfo is None) == (y.tzinfo is None) if x.tzinfo is None or not isinstance(y, str) and y.tzinfo is not None else False
    def eq(x, y):
        if isinstance(y, str): return False
        if (x.tzinfo is None) != (y.tzinfo is None): return False
        return x.replace(tzinfo=None) == y.replace(tzinfo=None) and repr(x.tzinfo) == repr(y.tzinfo)
    if not eq(a, b): cnt['fuzzy-differs'] += 1; ex['fuzzy'].append((s, a, b))
    if not eq(a, c): cnt['fwt-differs'] += 1; ex['fwt'].append((s, a, c))
    # tokens in order substrings
    pos = 0; ok = True
    for t in toksk:
        j = s.find(t, pos)
        if j < 0: ok = False; break
        pos = j + len(t)
    if not ok: cnt['tokens-not-in-order'] += 1; ex['tok'].append((s, toksk))
    # ignoretz gives same wall
    try:
        d = parser.parse(s, default=dflt, ignoretz=True)
        if d != a.replace(tzinfo=None): cnt['ignoretz-differs'] += 1; ex['ig'].append((s, a, d))
    except Exception as e: cnt['ignoretz-exc'] += 1; ex['ig'].append((s, a, repr(e)))
print(cnt)
for k, v in ex.items():
    for x in v[:6]: print(k, x)
