import sys, random, itertools, datetime as D, collections, warnings
sys.path.insert(0, '/verif/design-experiments')
warnings.simplefilter('ignore')
exec(open('d01.py').read().split("def run(seed, n):")[0])
from dateutil.rrule import rrulestr
rng = random.Random(int(sys.argv[1]))
cnt = collections.Counter(); ex = collections.defaultdict(list)
for _ in range(int(sys.argv[2])):
    kw = rnd_rule(rng)
    # keep nth in range to avoid known IndexError
    state['hz'] = (9999, 12, 31)
    try: rule = R.rrule(**kw)
    except ValueError: cnt['init-verr'] += 1; continue
    s = str(rule)
    try: r2 = rrulestr(s)
    except Exception as e:
        cnt['rrulestr-exc:' + type(e).__name__] += 1
        if len(ex['exc']) < 10: ex['exc'].append((kw, s, str(e)))
        continue
    def first(r, n=12):
        state['hz'] = (min(9999, kw['dtstart'].year + (3 if kw['freq']<4 else 0)), 12, 31)
        out = []; state['p1'] = 0
        try:
            for x in r:
                out.append(x)
                if len(out) >= n: break
        except Horizon: out.append('HZ')
        except Exception as e: out.append('EXC:' + type(e).__name__)
        return out
    a, b = first(rule), first(r2)
    if a == b: cnt['same'] += 1
    else:
        cnt['diff'] += 1
        if len(ex['diff']) < 12: ex['diff'].append((kw, s, a[:4], b[:4]))
print(cnt)
for k, v in ex.items():
    for x in v: print(k, x)
