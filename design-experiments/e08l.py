import sys, os, time, datetime as D, collections, warnings
sys.path.insert(0, '/verif/design-experiments'); warnings.simplefilter('ignore')
tzs = sys.argv[1]
os.environ['TZ'] = tzs; time.tzset()
from dateutil import tz
from posix_ref import PosixZone
import re
# hand-specified models for given strings
models = {
 'EST5EDT,M3.2.0,M11.1.0': PosixZone('EST', -18000, 'EDT', -14400, ('M', 3, 2, 0), 7200, ('M', 11, 1, 0), 7200),
 'AEST-10AEDT,M10.1.0,M4.1.0/3': PosixZone('AEST', 36000, 'AEDT', 39600, ('M', 10, 1, 0), 7200, ('M', 4, 1, 0), 10800),
 'NST3:30NDT,M3.2.0/0:01,M11.1.0/0:01': PosixZone('NST', -12600, 'NDT', -9000, ('M', 3, 2, 0), 60, ('M', 11, 1, 0), 60),
 'CET-1CEST,J60/2,J300/3': PosixZone('CET', 3600, 'CEST', 7200, ('J', 60), 7200, ('J', 300), 10800),
 'AAA-5:30BBB-7:30,59/1,299/4': PosixZone('AAA', 19800, 'BBB', 27000, ('N', 59), 3600, ('N', 299), 14400),
}
pz = models[tzs]; z = tz.tzlocal()
bad = collections.Counter(); n = 0; first = None
for year in (2019, 2020, 2021):
    ts, te = pz.transitions(year)
    probes = []
    for t in (ts, te):
        for d in (-7200, -3601, -3600, -1801, -1, 0, 1, 1799, 1800, 3599, 3600, 7199, 7200, 86400, -86400): probes.append(t + D.timedelta(seconds=d))
    for k in range(0, 366 * 24, 7): probes.append(D.datetime(year, 1, 1) + D.timedelta(hours=k))
    for u in probes:
        n += 1; exp = pz.at(u)
        loc = u.replace(tzinfo=tz.UTC).astimezone(z); wall = loc.replace(tzinfo=None)
        if wall - u != D.timedelta(seconds=exp[0]): bad['fromutc'] += 1; first = first or (u, loc, exp); continue
        got = (int(loc.utcoffset().total_seconds()), loc.tzname(), bool(loc.dst()))
        if got != exp: bad['offset-of-converted'] += 1; first = first or (u, loc, loc.fold, got, exp); continue
        if loc.astimezone(tz.UTC).replace(tzinfo=None) != u: bad['roundtrip'] += 1; continue
        pre = pz.preimages(wall)
        if tz.datetime_ambiguous(wall, z) != (len(pre) == 2): bad['ambiguous'] += 1; first = first or (u, wall, pre)
        if len(pre) == 2 and loc.fold != (1 if u == pre[1] else 0): bad['fold'] += 1
    for d in (0, 1, 1800, 3599):
        w = ts + D.timedelta(seconds=pz.stdoff + d)
        if tz.datetime_exists(w, z) != (len(pz.preimages(w)) >= 1): bad['gap-exists'] += 1
print(tzs, n, dict(bad), first)
