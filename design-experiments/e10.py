import random, datetime as D, collections, sys, itertools, warnings, faulthandler
warnings.simplefilter('ignore')
faulthandler.dump_traceback_later(280, exit=True)
from dateutil.rrule import *
rng = random.Random(int(sys.argv[1]))
BASE = D.datetime(2000, 1, 1, 9)
def rnd_rule():
    freq = rng.choice([DAILY, WEEKLY, MONTHLY, HOURLY])
    st = BASE + D.timedelta(days=rng.randrange(5), hours=rng.choice([0, 0, 0, 12]))
    kw = dict(dtstart=st, interval=rng.choice([1, 1, 2, 3]))
    if rng.random() < .7: kw['count'] = rng.randint(0, 14)
    else: kw['until'] = st + D.timedelta(days=rng.randint(0, 20))
    if freq == HOURLY: kw['interval'] = rng.choice([6, 12, 24]); kw['count'] = rng.randint(0, 20); kw.pop('until', None)
    return rrule(freq, **kw)
def rnd_date(): return BASE + D.timedelta(days=rng.randrange(25), hours=rng.choice([0, 0, 12, 1]))
cnt = collections.Counter(); ex = []
def model(m): 
    inc = set(m['rdate']); 
    for r in m['rrule']: inc |= set(r)
    exc = set(m['exdate'])
    for r in m['exrule']: exc |= set(r)
    return sorted(inc - exc)
for case in range(int(sys.argv[2])):
    cache = rng.random() < .5
    rs = rruleset(cache=cache); m = {'rrule': [], 'rdate': [], 'exrule': [], 'exdate': []}
    hist = []; live = []
    for step in range(rng.randint(3, 12)):
        op = rng.choice(['rrule', 'rdate', 'exrule', 'exdate', 'iter_full', 'iter_part', 'count', 'between', 'getitem', 'contains', 'after', 'before', 'advance_live'])
        hist.append(op)
        if op in ('rrule', 'exrule'):
            r = rnd_rule(); getattr(rs, op)(r); m[op].append(list(r))
            continue
        if op in ('rdate', 'exdate'):
            d = rnd_date(); getattr(rs, op)(d); m[op].append(d); continue
        inc = set(m['rdate']) | set(itertools.chain.from_iterable(m['rrule'])); exc = set(m['exdate']) | set(itertools.chain.from_iterable(m['exrule']))
        L = sorted(inc - exc)
        try:
            if op == 'iter_full': ok = list(rs) == L
            elif op == 'iter_part':
                it = iter(rs); k = rng.randint(0, len(L) + 1); got = list(itertools.islice(it, k)); ok = got == L[:k]; live.append((it, k, len(hist)))
            elif op == 'advance_live':
                ok = True   # live iterators created before mutation: unspecified; skip
            elif op == 'count': ok = rs.count() == len(L)
            elif op == 'between':
                a, b = sorted([rnd_date(), rnd_date()]); i = rng.random() < .5
                ok = rs.between(a, b, inc=i) == [x for x in L if (a <= x <= b if i else a < x < b)]
            elif op == 'getitem':
                k = rng.randint(-len(L) - 1, len(L) + 1)
                try: e = L[k]
                except IndexError: e = 'IE'
                try: g = rs[k]
                except IndexError: g = 'IE'
                ok = g == e
            elif op == 'contains':
                d = rng.choice(L) if L and rng.random() < .5 else rnd_date(); ok = (d in rs) == (d in L)
            elif op == 'after':
                d = rnd_date(); i = rng.random() < .5; e = next((x for x in L if (x >= d if i else x > d)), None); ok = rs.after(d, inc=i) == e
            elif op == 'before':
                d = rnd_date(); i = rng.random() < .5; c = [x for x in L if (x <= d if i else x < d)]; ok = rs.before(d, inc=i) == (c[-1] if c else None)
        except Exception as e:
            ok = False; op = op + ':EXC:' + type(e).__name__
        cnt[(op, ok)] += 1
        if not ok and len(ex) < 10: ex.append((cache, hist[:], op, len(L)))
print(sorted(cnt.items()))
for e in ex: print(e)
