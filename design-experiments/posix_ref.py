"""Independent POSIX TZ rule model: yearly transitions in UTC."""
import datetime as D, calendar, bisect
EPOCH = D.datetime(1970, 1, 1)
def rule_date(year, r):
    k = r[0]
    if k == 'M':
        _, m, w, d = r   # d: 0=Sunday
        first = D.date(year, m, 1)
        pyd = (d - 1) % 7   # python weekday
        delta = (pyd - first.weekday()) % 7
        day = 1 + delta + 7 * (w - 1)
        ml = calendar.monthrange(year, m)[1]
        while day > ml: day -= 7
        return D.date(year, m, day)
    if k == 'J':
        n = r[1]   # 1..365, Feb 29 never counted
        return D.date(year if True else 0, 1, 1).replace(year=2001).__class__.fromordinal(D.date(2001, 1, 1).toordinal() + n - 1).replace(year=year)
    if k == 'N':
        return D.date(year, 1, 1) + D.timedelta(days=r[1])
class PosixZone(object):
    def __init__(self, std, stdoff, dst, dstoff, start, stime, end, etime):
        """offsets in seconds EAST of UTC. start/end rules; times seconds local (start: std time, end: dst time)"""
        self.std, self.stdoff, self.dst, self.dstoff = std, stdoff, dst, dstoff
        self.start, self.stime, self.end, self.etime = start, stime, end, etime
    def transitions(self, year):
        s = D.datetime.combine(rule_date(year, self.start), D.time()) + D.timedelta(seconds=self.stime - self.stdoff)
        e = D.datetime.combine(rule_date(year, self.end), D.time()) + D.timedelta(seconds=self.etime - self.dstoff)
        return s, e   # UTC datetimes
    def at(self, u):
        """u naive UTC datetime -> (offset, abbr, isdst)"""
        isdst = False
        for y in (u.year - 1, u.year, u.year + 1):
            if not 1 <= y <= 9999: continue
            s, e = self.transitions(y)
            if s < e:
                if s <= u < e: isdst = True
            else:
                # southern: dst from s(y) to e(y+1); and from start of year to e(y)
                pass
        # general: build sorted events
        ev = []
        for y in (u.year - 1, u.year, u.year + 1):
            if not 1 <= y <= 9999: continue
            s, e = self.transitions(y); ev.append((s, True)); ev.append((e, False))
        ev.sort()
        state = None
        for t, on in ev:
            if t <= u: state = on
        if state is None: state = not ev[0][1]
        return (self.dstoff, self.dst, True) if state else (self.stdoff, self.std, False)
    def preimages(self, w):
        out = []
        for off in {self.stdoff, self.dstoff}:
            u = w - D.timedelta(seconds=off)
            if self.at(u)[0] == off: out.append(u)
        return sorted(out)
