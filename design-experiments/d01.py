import sys, random, itertools, datetime as D, time, collections, warnings
sys.path.insert(0, '/verif/design-experiments')
from rrule_ref import Spec
from dateutil import rrule as R
warnings.simplefilter('ignore')

class Horizon(Exception): pass
code = R.rrule._iter.__code__
# find line number of 'dayset, start, end = getdayset(year, month, day)'
import inspect
src, first = inspect.getsourcelines(R.rrule._iter)
LOOPLINE = first + [i for i, l in enumerate(src) if 'dayset, start, end = getdayset' in l][0]
mon = sys.monitoring
TOOL = 3
mon.use_tool_id(TOOL, 'verif')
state = {'hz': (9999,12,31), 'periods': 0}
def on_line(c, line):
    if line == LOOPLINE:
        f = sys._getframe(1)
        state['periods'] += 1
        state['p1'] = state.get('p1', 0) + 1
        if state['p1'] > 20000: raise Horizon()
        L = f.f_locals
        if (L['year'], L['month'], L['day']) > state['hz']:
            raise Horizon()
    else:
        return mon.DISABLE
mon.register_callback(TOOL, mon.events.LINE, on_line)
mon.set_local_events(TOOL, code, mon.events.LINE)

def rnd_rule(rng):
    freq = rng.randrange(7)
    y = rng.choice([1996, 1997, 1999, 2000, 2003, 2004, 2008, 2009, 2015, 2020, 2100, 1900, 2400, 9990])
    st = D.datetime(y, rng.randint(1, 12), 1) + D.timedelta(days=rng.randrange(31), seconds=rng.randrange(86400))
    kw = dict(freq=freq, dtstart=st)
    if rng.random() < .5: kw['interval'] = rng.choice([1, 2, 3, 4, 5, 7, 12, 13, 24, 60, 90, 366])
    kw['wkst'] = rng.randrange(7)
    def some(pool, kmax=3):
        k = rng.randint(1, kmax)
        v = [rng.choice(pool) for _ in range(k)]
        return v[0] if (k == 1 and rng.random() < .3) else v
    if rng.random() < .3: kw['bymonth'] = some(range(1, 13))
    if rng.random() < .25: kw['bymonthday'] = some(list(range(1, 32)) + list(range(-31, 0)))
    if rng.random() < .15: kw['byyearday'] = some([1, 2, 59, 60, 61, 100, 200, 365, 366, -1, -2, -306, -307, -365, -366])
    if rng.random() < .15: kw['byweekno'] = some([1, 2, 20, 51, 52, 53, -1, -2, -52, -53])
    if rng.random() < .35:
        pool = [R.weekdays[i] for i in range(7)] + list(range(7)) + [R.weekdays[i](n) for i in range(7) for n in (1, 2, 3, 4, 5, -1, -2, -5, 10, 53, -53)]
        kw['byweekday'] = some(pool)
    if rng.random() < .1: kw['byeaster'] = some([0, 1, -1, -2, -46, 39, 49, 50, -100, 200])
    if rng.random() < .2: kw['byhour'] = some(range(24))
    if rng.random() < .2: kw['byminute'] = some(range(60))
    if rng.random() < .2: kw['bysecond'] = some(range(60))
    if rng.random() < .25: kw['bysetpos'] = some([1, 2, 3, -1, -2, 5, 10, -10, 366, -366])
    r = rng.random()
    if r < .3: kw['count'] = rng.randint(1, 12)
    elif r < .5: kw['until'] = st + D.timedelta(days=rng.choice([0, 1, 30, 400, 3000]), seconds=rng.randrange(3))
    return kw

def run(seed, n):
    rng = random.Random(seed)
    stats = collections.Counter(); bad = []
    for case in range(n):
        kw = rnd_rule(rng)
        st = kw['dtstart']
        P = {0: 30, 1: 80, 2: 120, 3: 800, 4: 960, 5: 4320, 6: 10800}[kw['freq']]
        spec = Spec(**kw)
        hz = None
        for i, per in enumerate(spec.periods()):
            hz = per[0][0]
            if i >= P: break
        hzd = hz - D.timedelta(days=1)   # compare only strictly before the horizon day
        N = 25
        # dateutil
        state['hz'] = (hz.year, hz.month, hz.day)
        try:
            rule = R.rrule(**kw)
        except ValueError as e:
            got = ('ValueError@init',)
        else:
            got = []
            try:
                for x in rule:
                    got.append(x)
                    if len(got) >= N: break
                got_status = 'ok'
            except Horizon:
                got_status = 'horizon'
            except ValueError:
                got = ('ValueError@iter',) if not got else got
                got_status = 'verr'
            except Exception as e:
                got = ('EXC:' + type(e).__name__,)
                got_status = 'exc'
        ref = []
        for x in spec.generate(max_periods=P):
            if x.date() > hzd: break
            ref.append(x)
            if len(ref) >= N: break
        if isinstance(got, tuple) and got[0].startswith('EXC'):
            bad.append((kw, got, ref[:3])); stats[got[0]] += 1
            continue
        if isinstance(got, tuple):
            if ref:
                # does the ValueError hide real occurrences?
                bad.append((kw, got, ref[:3])); stats['valueerror_but_ref_nonempty'] += 1
            else:
                stats['valueerror_ref_empty'] += 1
            continue
        # compare on common horizon: dateutil items with year<=hy
        g = [x for x in got if x.date() <= hzd]
        if g != ref[:len(g)] or (len(g) < len(ref) and got_status != 'ok') or (got_status == 'ok' and len(g) < len(ref) and len(got) < N):
            # difference
            bad.append((kw, g[:6], ref[:6])); stats['mismatch'] += 1
        else:
            stats['agree_nonempty' if ref else 'agree_empty'] += 1
    return stats, bad

if __name__ == '__main__':
    t = time.time()
    stats, bad = run(int(sys.argv[1]), int(sys.argv[2]))
    print(stats, 'periods', state['periods'], 'time', time.time() - t)
    def cls(kw):
        keys = sorted(k for k in kw if k.startswith('by'))
        return (R.FREQNAMES[kw['freq']], tuple(keys))
    c = collections.Counter(cls(b[0]) for b in bad)
    for k, v in c.most_common(40): print(v, k)
    for b in bad[:int(sys.argv[3]) if len(sys.argv) > 3 else 5]:
        print('----'); print(b[0]); print(' got', b[1]); print(' ref', b[2])
