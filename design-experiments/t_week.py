import datetime as D
from rrule_ref import week_info
# vs isocalendar for wkst=0
bad=0
d = D.date(1,1,8)
while d.year < 9999:
    wy, wn, nw = week_info(d, 0)
    ic = d.isocalendar()
    if (wy, wn) != (ic[0], ic[1]): bad+=1
    d += D.timedelta(days=1) if (d.month in (1,12) and (d.day<10 or d.day>20)) else D.timedelta(days=17)
print('iso mismatches', bad)
# brute force for other wkst
def brute(d, wkst):
    # start of week containing d
    s = d.toordinal() - ((d.weekday()-wkst)%7)
    days = [D.date.fromordinal(o) for o in range(s, s+7)]
    # week-year: the year having >=4 days of this week
    from collections import Counter
    c = Counter(x.year for x in days)
    wy = [y for y,n in c.items() if n>=4][0]
    # count weeks from first week with >=4 days in wy
    n = 0; o = s
    while True:
        dd = [D.date.fromordinal(x) for x in range(o, o+7)]
        if sum(1 for x in dd if x.year==wy) >= 4: n+=1; o-=7
        else: break
    return wy, n
bad=0; cnt=0
for y in list(range(1990,2030))+[1900,2100,2400,2399,2401]:
  for wk in range(7):
    for d in [D.date(y,1,i) for i in range(1,9)]+[D.date(y,12,i) for i in range(22,32)]+[D.date(y,6,15)]:
        cnt+=1
        if week_info(d,wk)[:2] != brute(d,wk): bad+=1; print(d,wk,week_info(d,wk),brute(d,wk))
print('brute mismatches', bad, 'of', cnt)
print(D.date(2101,1,1).isocalendar(), D.date(2005,12,24).isocalendar())
