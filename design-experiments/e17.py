import sys, random, datetime as D, collections, warnings, io
sys.path.insert(0, '/verif/design-experiments'); warnings.simplefilter('ignore')
from posix_ref import PosixZone, rule_date
from dateutil import tz
rng = random.Random(int(sys.argv[1]))
DAYS = ['SU', 'MO', 'TU', 'WE', 'TH', 'FR', 'SA']
def off(sec):
    s = '-' if sec < 0 else '+'; a = abs(sec); return '%s%02d%02d' % (s, a // 3600, a % 3600 // 60) + ('%02d' % (a % 60) if a % 60 else '')
cnt = collections.Counter(); ex = collections.defaultdict(list)
for case in range(int(sys.argv[2])):
    stdoff = rng.choice([0, 3600, -18000, 19800, -12600, 36000, -36000]); save = rng.choice([3600, 1800, 7200])
    north = rng.random() < .5
    def rr(lo, hi): return ('M', rng.randint(lo, hi), rng.randint(1, 5), rng.randint(0, 6))
    a, b = rr(2, 5), rr(8, 11); start, end = (a, b) if north else (b, a)
    stime = rng.choice([7200, 3600, 10800, 9000]); etime = rng.choice([7200, 10800, 7200 + save, 9000 + save])
    pz = PosixZone('AAA', stdoff, 'BBB', stdoff + save, start, stime, end, etime)
    def byday(r): return '%d%s' % (-1 if r[2] == 5 else r[2], DAYS[r[3]])
    y0 = 1990
    ds = D.datetime.combine(rule_date(y0, start), D.time()) + D.timedelta(seconds=stime)   # local std wall
    de = D.datetime.combine(rule_date(y0, end), D.time()) + D.timedelta(seconds=etime)     # local dst wall
    comps = [
      "BEGIN:DAYLIGHT\nDTSTART:%s\nRRULE:FREQ=YEARLY;BYMONTH=%d;BYDAY=%s\nTZOFFSETFROM:%s\nTZOFFSETTO:%s\nTZNAME:BBB\nEND:DAYLIGHT" % (ds.strftime('%Y%m%dT%H%M%S'), start[1], byday(start), off(stdoff), off(stdoff + save)),
      "BEGIN:STANDARD\nDTSTART:%s\nRRULE:FREQ=YEARLY;BYMONTH=%d;BYDAY=%s\nTZOFFSETFROM:%s\nTZOFFSETTO:%s\nTZNAME:AAA\nEND:STANDARD" % (de.strftime('%Y%m%dT%H%M%S'), end[1], byday(end), off(stdoff + save), off(stdoff))]
    if rng.random() < .5: comps.reverse()
    text = "BEGIN:VTIMEZONE\nTZID:Test/Zone\n" + "\n".join(comps) + "\nEND:VTIMEZONE\n"
    try: z = tz.tzical(io.StringIO(text)).get()
    except Exception as e:
        cnt['exc'] += 1; ex['exc'].append((text, repr(e))); continue
    bad = collections.Counter()
    for year in (2019, 2020):
        ts, te = pz.transitions(year)
        for t in (ts, te):
            for d in (-7200, -3601, -3600, -1801, -1, 0, 1, 1799, 1800, 3599, 3600, 7199, 7200, 86400, -86400):
                u = t + D.timedelta(seconds=d); exp = pz.at(u)
                loc = u.replace(tzinfo=tz.UTC).astimezone(z)
                wall = loc.replace(tzinfo=None)
                if wall - u != D.timedelta(seconds=exp[0]): bad['fromutc'] += 1; continue
                got = (int(loc.utcoffset().total_seconds()), loc.tzname(), bool(loc.dst()))
                if got != exp: bad['offset-of-converted'] += 1; continue
                if loc.astimezone(tz.UTC).replace(tzinfo=None) != u: bad['roundtrip'] += 1; continue
                pre = pz.preimages(wall)
                if tz.datetime_ambiguous(wall, z) != (len(pre) == 2): bad['ambiguous'] += 1
                if not tz.datetime_exists(wall, z): bad['exists'] += 1
                if len(pre) == 2 and loc.fold != (1 if u == pre[1] else 0): bad['fold'] += 1
            for d in (0, 1, 1800, 3599):
                w = ts + D.timedelta(seconds=stdoff + d)
                pre = pz.preimages(w)
                if tz.datetime_exists(w, z) != (len(pre) >= 1): bad['gap-exists'] += 1
    if bad:
        cnt['bad'] += 1
        if len(ex['bad']) < 6: ex['bad'].append((text.replace('\n', '|'), dict(bad)))
    else: cnt['ok'] += 1
print(cnt)
for k, v in ex.items():
    for x in v: print(k, x)
