import sys, random, datetime as D, collections, warnings, os, time
sys.path.insert(0, '/verif/design-experiments'); warnings.simplefilter('ignore')
from posix_ref import PosixZone, rule_date
from dateutil import tz
from dateutil.relativedelta import relativedelta, weekday
rng = random.Random(int(sys.argv[1]))
def fmt_off(sec):   # POSIX sign: positive = west
    s = -sec; sign = '-' if s < 0 else ''; s = abs(s)
    h, r = divmod(s, 3600); m, ss = divmod(r, 60)
    return sign + ('%d' % h) + (':%02d' % m if m or ss else '') + (':%02d' % ss if ss else '')
def fmt_rule(r, t):
    if r[0] == 'M': s = 'M%d.%d.%d' % r[1:]
    elif r[0] == 'J': s = 'J%d' % r[1]
    else: s = '%d' % r[1]
    if t is not None:
        h, rem = divmod(t, 3600); m, ss = divmod(rem, 60)
        s += '/%d' % h + (':%02d' % m if m or ss else '') + (':%02d' % ss if ss else '')
    return s
def rnd_rule(lo, hi):
    k = rng.random(); m = rng.randint(lo, hi)
    if k < .6: return ('M', m, rng.randint(1, 5), rng.randint(0, 6))
    yd = D.date(2001, m, rng.randint(1, 28)).timetuple().tm_yday
    if k < .8: return ('J', yd)
    return ('N', yd - 1)
cnt = collections.Counter(); ex = collections.defaultdict(list)
for case in range(int(sys.argv[2])):
    stdoff = rng.choice([0, 3600, -18000, 19800, -12600, 36000, 43200, -36000, 7200])
    save = rng.choice([3600, 3600, 1800, 7200])
    explicit = rng.random() < .5
    north = rng.random() < .5
    a, b = rnd_rule(2, 5), rnd_rule(8, 11)
    start, end = (a, b) if north else (b, a)
    stime = rng.choice([None, 7200, 3600, 0, 10800, 9000, 5400])
    etime = rng.choice([None, 7200, 10800, 3600, 0, 1800, 9000])
    s = 'AAA' + fmt_off(stdoff) + 'BBB' + (fmt_off(stdoff + save) if explicit or save != 3600 else '') + ',' + fmt_rule(start, stime) + ',' + fmt_rule(end, etime)
    st_eff = 7200 if stime is None else stime; et_eff = 7200 if etime is None else etime
    pz = PosixZone('AAA', stdoff, 'BBB', stdoff + save, start, st_eff, end, et_eff)
    spill = (et_eff - save < 0) and end[0] == 'M'
    try: z = tz.tzstr(s)
    except Exception as e:
        cnt['tzstr-exc'] += 1; ex['tzstr-exc'].append((s, str(e))); continue
    bad = collections.Counter()
    for year in (2019, 2020):
        ts, te = pz.transitions(year)
        for t in (ts, te):
            for d in (-7200, -3601, -3600, -1801, -1, 0, 1, 1799, 1800, 3599, 3600, 7199, 7200, 86400, -86400):
                u = t + D.timedelta(seconds=d)
                exp = pz.at(u)
                loc = u.replace(tzinfo=tz.UTC).astimezone(z)
                got = (int(loc.utcoffset().total_seconds()), loc.tzname(), bool(loc.dst()))
                wall = loc.replace(tzinfo=None)
                if wall - u != D.timedelta(seconds=exp[0]): bad['fromutc'] += 1; continue
                if got != exp: bad['offset-of-converted'] += 1; continue
                if loc.astimezone(tz.UTC).replace(tzinfo=None) != u: bad['roundtrip'] += 1; continue
                pre = pz.preimages(wall)
                if tz.datetime_ambiguous(wall, z) != (len(pre) == 2): bad['ambiguous'] += 1
                if not tz.datetime_exists(wall, z): bad['exists'] += 1
                if len(pre) == 2 and loc.fold != (1 if u == pre[1] else 0): bad['fold'] += 1
                # imaginary probe: wall + small shift
            # gap probe
            for d in (0, 1, 1800, 3599):
                w = ts + D.timedelta(seconds=stdoff + d)  # wall in gap start (std)
                pre = pz.preimages(w)
                if tz.datetime_exists(w, z) != (len(pre) >= 1): bad['gap-exists'] += 1
                elif not pre:
                    r = tz.resolve_imaginary(w.replace(tzinfo=z))
                    if r.replace(tzinfo=None) - w != D.timedelta(seconds=save) or not tz.datetime_exists(r): bad['resolve'] += 1
    key = 'spill' if spill else 'plain'
    if bad:
        cnt[key + '-bad'] += 1
        if len(ex[key]) < 8: ex[key].append((s, dict(bad)))
    else: cnt[key + '-ok'] += 1
print(cnt)
for k, v in ex.items():
    for x in v: print(k, x)
