import random, datetime as D, calendar, collections, sys, warnings
warnings.simplefilter('ignore')
from dateutil.relativedelta import relativedelta, weekday, MO
from dateutil import easter
rng = random.Random(1)
def rdt():
    y = rng.choice([1, 2, 4, 100, 400, 1900, 1999, 2000, 2003, 2004, 2023, 2024, 2100, 9998, 9999] + [rng.randint(1, 9999)]*6)
    m = rng.randint(1, 12); d = rng.choice([1, 28, 29, 30, 31, rng.randint(1, 31)]); d = min(d, calendar.monthrange(y, m)[1])
    if rng.random() < .3: return D.date(y, m, d)
    return D.datetime(y, m, d, rng.randint(0, 23), rng.randint(0, 59), rng.randint(0, 59), rng.choice([0, 1, 999999, rng.randint(0, 999999)]))
cnt = collections.Counter(); ex = collections.defaultdict(list)
for _ in range(100000):
    a, b = rdt(), rdt()
    if rng.random() < .3: # near pairs
        try: b = a + D.timedelta(days=rng.randint(-800, 800))
        except OverflowError: continue
    try:
        rd = relativedelta(a, b)
    except Exception as e:
        cnt['exc:' + type(e).__name__] += 1; ex['exc'].append((a, b, str(e))); continue
    try: back = b + rd
    except Exception as e:
        cnt['addexc:' + type(e).__name__] += 1; ex['addexc'].append((a, b, rd)); continue
    A = a if isinstance(a, D.datetime) or not isinstance(back, D.datetime) else D.datetime(a.year, a.month, a.day)
    ok = back == A
    norm = abs(rd.months) < 12 and abs(rd.hours) < 24 and abs(rd.minutes) < 60 and abs(rd.seconds) < 60 and abs(rd.microseconds) < 10**6
    onlyrel = all(getattr(rd, k) is None for k in ('year', 'month', 'day', 'hour', 'minute', 'second', 'microsecond', 'weekday')) and not rd.leapdays
    k = 'ok' if ok and norm and onlyrel else 'bad:%d%d%d' % (ok, norm, onlyrel)
    cnt[k] += 1
    if k != 'ok' and len(ex[k]) < 10: ex[k].append((a, b, rd, back))
print(cnt)
for k, v in ex.items():
    for x in v[:8]: print(k, x)
# hash
print(relativedelta(weekday=MO) == relativedelta(weekday=MO(1)), hash(relativedelta(weekday=MO)) == hash(relativedelta(weekday=MO(1))))
# easter exhaustive quick
def mjb(y):
    a = y % 19; b, c = divmod(y, 100); d, e = divmod(b, 4); f = (b + 8) // 25; g = (b - f + 1) // 3
    h = (19*a + b - d - g + 15) % 30; i, k = divmod(c, 4); l = (32 + 2*e + 2*i - h - k) % 7; m = (a + 11*h + 22*l) // 451
    mo, da = divmod(h + l - 7*m + 114, 31); return D.date(y, mo, da + 1)
print('easter western mismatches', sum(1 for y in range(1583, 4100) if easter.easter(y, 3) != mjb(y)))
def julian_easter(y):
    a = y % 4; b = y % 7; c = y % 19; d = (19*c + 15) % 30; e = (2*a + 4*b - d + 34) % 7
    mo, da = divmod(d + e + 114, 31); return mo, da + 1
def j2g(y, m, d):
    # julian calendar date -> gregorian date via JDN
    a = (14 - m)//12; yy = y + 4800 - a; mm = m + 12*a - 3
    jdn = d + (153*mm + 2)//5 + 365*yy + yy//4 - 32083
    return D.date.fromordinal(jdn - 1721425)
bad = 0
for y in range(326, 10000):
    mo, da = julian_easter(y)
    e1 = easter.easter(y, 1)
    if (e1.month, e1.day) != (mo, da): bad += 1
print('julian mismatches', bad)
bad = 0; nonsun = 0
for y in range(1583, 4100):
    mo, da = julian_easter(y); g = j2g(y, mo, da)
    e2 = easter.easter(y, 2)
    if e2 != g: bad += 1
    if e2.weekday() != 6: nonsun += 1
print('orthodox mismatches', bad, 'non-sunday', nonsun)
