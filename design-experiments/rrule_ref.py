"""Independent brute-force reference for dateutil-flavoured RFC 5545 rules."""
import datetime as D, calendar
YEARLY, MONTHLY, WEEKLY, DAILY, HOURLY, MINUTELY, SECONDLY = range(7)

def easter_western(y):
    # Meeus/Jones/Butcher
    a = y % 19; b, c = divmod(y, 100); d, e = divmod(b, 4)
    f = (b + 8) // 25; g = (b - f + 1) // 3
    h = (19*a + b - d - g + 15) % 30
    i, k = divmod(c, 4)
    l = (32 + 2*e + 2*i - h - k) % 7
    m = (a + 11*h + 22*l) // 451
    month, day = divmod(h + l - 7*m + 114, 31)
    return D.date(y, month, day + 1)

def week_info(d, wkst):
    """(weekyear, weekno, nweeks_in_weekyear) of date d for weeks starting on wkst,
    week 1 = first week with >= 4 days in the calendar year."""
    def week1_start(y):
        jan4 = D.date(y, 1, 4).toordinal()
        return jan4 - ((D.date.fromordinal(jan4).weekday() - wkst) % 7)
    o = d.toordinal()
    y = d.year
    # candidates y+1, y, y-1
    if y < 9999 and o >= week1_start(y + 1):
        wy = y + 1
    elif o >= week1_start(y):
        wy = y
    else:
        wy = y - 1
    s = week1_start(wy)
    n = (week1_start(wy + 1) - s) // 7 if wy < 9999 else 52 + 0
    return wy, (o - s) // 7 + 1, n

class Spec(object):
    def __init__(self, freq, dtstart, interval=1, wkst=0, count=None, until=None,
                 bysetpos=None, bymonth=None, bymonthday=None, byyearday=None,
                 byeaster=None, byweekno=None, byweekday=None, byhour=None,
                 byminute=None, bysecond=None):
        def tup(x):
            if x is None: return None
            if isinstance(x, int): return (x,)
            return tuple(x)
        self.freq = freq; self.interval = interval; self.count = count; self.until = until
        if not isinstance(dtstart, D.datetime):
            dtstart = D.datetime(dtstart.year, dtstart.month, dtstart.day)
        self.dtstart = dtstart.replace(microsecond=0)
        if until is not None and not isinstance(until, D.datetime):
            self.until = D.datetime(until.year, until.month, until.day)
        self.wkst = wkst if isinstance(wkst, int) else wkst.weekday
        self.bysetpos = tup(bysetpos)
        bymonth, bymonthday, byyearday, byeaster, byweekno = map(tup, (bymonth, bymonthday, byyearday, byeaster, byweekno))
        wds = None
        if byweekday is not None:
            if isinstance(byweekday, int) or hasattr(byweekday, 'n'):
                byweekday = (byweekday,)
            wds = []
            for w in byweekday:
                if isinstance(w, int): wds.append((w, None))
                else: wds.append((w.weekday, w.n or None))
        if (byweekno is None and byyearday is None and bymonthday is None and wds is None and byeaster is None):
            if freq == YEARLY:
                if bymonth is None: bymonth = (self.dtstart.month,)
                bymonthday = (self.dtstart.day,)
            elif freq == MONTHLY:
                bymonthday = (self.dtstart.day,)
            elif freq == WEEKLY:
                wds = [(self.dtstart.weekday(), None)]
        self.bymonth, self.bymonthday, self.byyearday, self.byeaster, self.byweekno = bymonth, bymonthday, byyearday, byeaster, byweekno
        self.wds = wds
        byhour, byminute, bysecond = map(tup, (byhour, byminute, bysecond))
        if byhour is None and freq < HOURLY: byhour = (self.dtstart.hour,)
        if byminute is None and freq < MINUTELY: byminute = (self.dtstart.minute,)
        if bysecond is None and freq < SECONDLY: bysecond = (self.dtstart.second,)
        self.byhour, self.byminute, self.bysecond = byhour, byminute, bysecond

    # ---- day predicate
    def day_ok(self, d, pmonth=None):
        """pmonth: for MONTHLY nth-weekday scoping (the period's month)."""
        s = self
        if s.bymonth is not None and d.month not in s.bymonth: return False
        ylen = 366 if calendar.isleap(d.year) else 365
        if s.byweekno is not None:
            wy, wn, nw = week_info(d, s.wkst)
            if not (wn in s.byweekno or (wn - nw - 1) in s.byweekno): return False
        if s.wds is not None:
            ok = False
            for wd, n in s.wds:
                if d.weekday() != wd: continue
                if n is None or s.freq > MONTHLY:
                    ok = True; break
                # scope
                if s.freq == MONTHLY or (s.freq == YEARLY and s.bymonth is not None):
                    first = D.date(d.year, d.month, 1); last = D.date(d.year, d.month, calendar.monthrange(d.year, d.month)[1])
                else:
                    first = D.date(d.year, 1, 1); last = D.date(d.year, 12, 31)
                if n > 0:
                    k = (d.toordinal() - first.toordinal()) // 7 + 1
                else:
                    k = -((last.toordinal() - d.toordinal()) // 7 + 1)
                if k == n: ok = True; break
            if not ok: return False
        if s.byeaster is not None:
            e = easter_western(d.year).toordinal()
            if (d.toordinal() - e) not in s.byeaster: return False
        if s.bymonthday is not None:
            ml = calendar.monthrange(d.year, d.month)[1]
            if d.day not in s.bymonthday and (d.day - ml - 1) not in s.bymonthday: return False
        if s.byyearday is not None:
            yd = d.timetuple().tm_yday
            if yd not in s.byyearday and (yd - ylen - 1) not in s.byyearday: return False
        return True

    def periods(self):
        """yield (list_of_days, hour, minute, second) periods; hour etc None when not fixed"""
        s = self; st = s.dtstart; k = 0
        f = s.freq
        MAXORD = D.date.max.toordinal()
        if f == YEARLY:
            y = st.year
            while y <= 9999:
                yield [D.date.fromordinal(o) for o in range(D.date(y,1,1).toordinal(), D.date(y,12,31).toordinal()+1)], None, None, None
                y += s.interval
        elif f == MONTHLY:
            m0 = st.year * 12 + st.month - 1
            while True:
                y, m = divmod(m0, 12); m += 1
                if y > 9999: return
                yield [D.date(y, m, dd) for dd in range(1, calendar.monthrange(y, m)[1] + 1)], None, None, None
                m0 += s.interval
        elif f == WEEKLY:
            o = st.toordinal() - ((st.weekday() - s.wkst) % 7)
            while o <= MAXORD:
                yield [D.date.fromordinal(x) for x in range(max(o,1), min(o + 7, MAXORD + 1))], None, None, None
                o += 7 * s.interval
        elif f == DAILY:
            o = st.toordinal()
            while o <= MAXORD:
                yield [D.date.fromordinal(o)], None, None, None
                o += s.interval
        else:
            unit = {HOURLY: 3600, MINUTELY: 60, SECONDLY: 1}[f]
            base = D.datetime(st.year, st.month, st.day, st.hour,
                              st.minute if f >= MINUTELY else 0, st.second if f >= SECONDLY else 0)
            step = D.timedelta(seconds=unit * s.interval)
            cur = base
            while True:
                yield [cur.date()], cur.hour, (cur.minute if f >= MINUTELY else None), (cur.second if f >= SECONDLY else None)
                try:
                    cur = cur + step
                except OverflowError:
                    return

    def generate(self, max_periods=None, horizon=None):
        """yield occurrences; stops when period start passes `horizon` (a date) or after max_periods periods."""
        s = self; tz = s.dtstart.tzinfo
        total = 0; np = 0
        for days, h, mi, se in s.periods():
            np += 1
            if max_periods is not None and np > max_periods: return
            if horizon is not None and days[0] > horizon: return
            okdays = [d for d in days if s.day_ok(d)]
            if not okdays: continue
            hours = [h] if h is not None else list(s.byhour)
            if h is not None and s.byhour is not None and h not in s.byhour: continue
            mins = [mi] if mi is not None else list(s.byminute)
            if mi is not None and s.byminute is not None and mi not in s.byminute: continue
            secs = [se] if se is not None else list(s.bysecond)
            if se is not None and s.bysecond is not None and se not in s.bysecond: continue
            times = sorted(set((a, b, c) for a in hours for b in mins for c in secs))
            cands = [D.datetime(d.year, d.month, d.day, a, b, c, tzinfo=tz) for d in okdays for (a, b, c) in times]
            if s.bysetpos is not None:
                sel = set()
                for p in s.bysetpos:
                    idx = p - 1 if p > 0 else p
                    if -len(cands) <= idx < len(cands):
                        sel.add(cands[idx])
                cands = sorted(sel)
            for c in cands:
                if s.until is not None and c > s.until: return
                if c < s.dtstart: continue
                if s.count is not None and total >= s.count: return
                total += 1
                yield c
            if s.count is not None and total >= s.count: return
