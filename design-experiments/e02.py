import random, datetime as D, calendar, collections, sys, warnings
warnings.simplefilter('ignore')
from dateutil import parser, tz
rng = random.Random(1)
MON = ['Jan','Feb','Mar','Apr','May','Jun','Jul','Aug','Sep','Oct','Nov','Dec']
MONL = ['January','February','March','April','May','June','July','August','September','October','November','December']
WD = ['Mon','Tue','Wed','Thu','Fri','Sat','Sun']
def h12(d): return (d.hour % 12) or 12
def ap(d): return 'AM' if d.hour < 12 else 'PM'
def us(d, n=6): return ('%06d' % d.microsecond)[:n]
T = {
 'iso_T': (lambda d: '%04d-%02d-%02dT%02d:%02d:%02d' % (d.year, d.month, d.day, d.hour, d.minute, d.second), 's', {}),
 'iso_sp_us': (lambda d: '%04d-%02d-%02d %02d:%02d:%02d.%s' % (d.year, d.month, d.day, d.hour, d.minute, d.second, us(d)), 'us', {}),
 'iso_comma': (lambda d: '%04d-%02d-%02d %02d:%02d:%02d,%s' % (d.year, d.month, d.day, d.hour, d.minute, d.second, us(d, 3)), 'ms', {}),
 'iso_min': (lambda d: '%04d-%02d-%02d %02d:%02d' % (d.year, d.month, d.day, d.hour, d.minute), 'm', {}),
 'compact': (lambda d: '%04d%02d%02dT%02d%02d%02d' % (d.year, d.month, d.day, d.hour, d.minute, d.second), 's', {}),
 'compact14': (lambda d: '%04d%02d%02d%02d%02d%02d' % (d.year, d.month, d.day, d.hour, d.minute, d.second), 's', {}),
 'compact12': (lambda d: '%04d%02d%02d%02d%02d' % (d.year, d.month, d.day, d.hour, d.minute), 'm', {}),
 'compact8': (lambda d: '%04d%02d%02d' % (d.year, d.month, d.day), 'd', {}),
 'ctime': (lambda d: '%s %s %2d %02d:%02d:%02d %04d' % (WD[d.weekday()], MON[d.month-1], d.day, d.hour, d.minute, d.second, d.year), 's', {}),
 'rfc2822': (lambda d: '%s, %02d %s %04d %02d:%02d:%02d' % (WD[d.weekday()], d.day, MON[d.month-1], d.year, d.hour, d.minute, d.second), 's', {}),
 'long': (lambda d: '%s %d, %04d %d:%02d:%02d %s' % (MONL[d.month-1], d.day, d.year, h12(d), d.minute, d.second, ap(d)), 's', {}),
 'dMonY': (lambda d: '%02d-%s-%04d %02d:%02d' % (d.day, MON[d.month-1], d.year, d.hour, d.minute), 'm', {}),
 'hms': (lambda d: '%04d-%02d-%02d %02dh%02dm%02ds' % (d.year, d.month, d.day, d.hour, d.minute, d.second), 's', {}),
 'us_slash': (lambda d: '%02d/%02d/%04d %02d:%02d:%02d' % (d.month, d.day, d.year, d.hour, d.minute, d.second), 's', {}),
 'eu_slash': (lambda d: '%02d/%02d/%04d %02d:%02d:%02d' % (d.day, d.month, d.year, d.hour, d.minute, d.second), 's', {'dayfirst': True}),
 'eu_dot': (lambda d: '%02d.%02d.%04d %02d:%02d' % (d.day, d.month, d.year, d.hour, d.minute), 'm', {'dayfirst': True}),
 'ymd_slash': (lambda d: '%04d/%02d/%02d %02d:%02d' % (d.year, d.month, d.day, d.hour, d.minute), 'm', {}),
 'ampm_compact': (lambda d: '%04d-%02d-%02d %d:%02d%s' % (d.year, d.month, d.day, h12(d), d.minute, ap(d).lower()), 'm', {}),
 'yy_us': (lambda d: '%02d/%02d/%02d' % (d.month, d.day, d.year % 100), 'd', {}),
 'yy_yearfirst': (lambda d: '%02d-%02d-%02d' % (d.year % 100, d.month, d.day), 'd', {'yearfirst': True}),
}
def trunc(d, p):
    if p == 'us': return d
    if p == 'ms': return d.replace(microsecond=d.microsecond // 1000 * 1000)
    if p == 's': return d.replace(microsecond=0)
    if p == 'm': return d.replace(second=0, microsecond=0)
    if p == 'd': return d.replace(hour=0, minute=0, second=0, microsecond=0)
cnt = collections.Counter(); ex = collections.defaultdict(list)
now = D.datetime.now().year
for _ in range(40000):
    name = rng.choice(list(T)); f, prec, kw = T[name]
    y = rng.choice([1, 31, 99, 100, 999, 1000, 1582, 1900, 1999, 2000, 2003, 2024, 2049, 9999] + [rng.randint(1, 9999)]*5)
    if name.startswith('yy'): y = rng.randint(now - 50, now + 49)
    m = rng.randint(1, 12); dd = min(rng.choice([1, 12, 13, 28, 29, 30, 31, rng.randint(1, 31)]), calendar.monthrange(y, m)[1])
    d = D.datetime(y, m, dd, rng.choice([0, 11, 12, 13, 23, rng.randint(0, 23)]), rng.choice([0, 59, rng.randint(0, 59)]), rng.choice([0, 59, rng.randint(0, 59)]), rng.choice([0, 1, 100, 999999, 500000, rng.randint(0, 999999)]))
    s = f(d); exp = trunc(d, prec)
    off = None
    if prec != 'd' and rng.random() < .4:
        o = rng.choice([0, 60, -60, 3600, -3600, 19800, -12600, 86340, -86340, rng.randint(-1439, 1439) * 60])
        sign = '-' if o < 0 else '+'; a = abs(o) // 60
        form = rng.randrange(4)
        if form == 0: s += ' %s%02d%02d' % (sign, a // 60, a % 60)
        elif form == 1: s += '%s%02d:%02d' % (sign, a // 60, a % 60)
        elif form == 2: s += ' Z'; o = 0
        else: s += ' UTC'; o = 0
        exp = exp.replace(tzinfo=tz.tzoffset(None, o) if o else tz.UTC)
    try:
        got = parser.parse(s, default=D.datetime(2001, 1, 1), **kw)
    except Exception as e:
        got = 'EXC:' + type(e).__name__
    ok = (got == exp and (got.tzinfo is None) == (exp.tzinfo is None) and (got.tzinfo is None or got.utcoffset() == exp.utcoffset())) if not isinstance(got, str) else False
    cnt[(name, ok)] += 1
    if not ok and len(ex[name]) < 4: ex[name].append((s, got, exp))
for k in sorted(cnt): print(k, cnt[k])
for k, v in ex.items():
    for x in v: print(k, x)
