"""Baton scheduler prototype: serialises worker threads; switches only at LINE events
of selected code objects (sys.monitoring local events) and at proxy-lock operations."""
import sys, threading, random, weakref
mon = sys.monitoring
TOOL = 4
class Deadlock(Exception): pass
class Sched(object):
    def __init__(self, rng, codes, switch_prob=0.3, max_steps=200000):
        self.rng = rng; self.codes = codes; self.p = switch_prob
        self.sems = {}; self.state = {}   # tid -> 'run'|'ready'|'blocked'|'done'
        self.current = None; self.trace = []; self.steps = 0; self.max_steps = max_steps
        self.mainsem = threading.Semaphore(0); self.deadlock = None
        self.order = []
    # -- instrumentation
    def install(self):
        mon.use_tool_id(TOOL, 'sched')
        mon.register_callback(TOOL, mon.events.LINE, self._on_line)
        for c in self.codes: mon.set_local_events(TOOL, c, mon.events.LINE)
    def uninstall(self):
        for c in self.codes: mon.set_local_events(TOOL, c, 0)
        mon.register_callback(TOOL, mon.events.LINE, None)
        mon.free_tool_id(TOOL)
    def _on_line(self, code, line):
        name = self.ident.get(threading.get_ident())
        if name is None or self.current != name: return
        self.yield_point(name, (code.co_name, line))
    # -- scheduling
    def _runnable(self): return [t for t in self.order if self.state[t] == 'ready']
    def _pass_baton(self, me, nxt):
        self.current = nxt
        self.sems[nxt].release()
    def yield_point(self, me, where):
        self.steps += 1
        if self.steps > self.max_steps: raise Deadlock('step budget')
        others = [t for t in self._runnable() if t != me]
        if others and self.rng.random() < self.p:
            nxt = self.rng.choice(others)
            self.trace.append((me, where, '->', nxt))
            self.state[me] = 'ready'
            self._pass_baton(me, nxt)
            self.sems[me].acquire()
            self.state[me] = 'run'
    def block(self, me, what):
        """called by proxy lock when it cannot acquire"""
        self.state[me] = 'blocked:' + what
        r = self._runnable()
        if not r:
            self.deadlock = dict((t, self.state[t]) for t in self.order)
            # wake everyone with deadlock flag
            for t in self.order:
                if t != me and not self.state[t].startswith('done'): self.sems[t].release()
            raise Deadlock(str(self.deadlock))
        nxt = self.rng.choice(r)
        self.trace.append((me, 'BLOCK ' + what, '->', nxt))
        self._pass_baton(me, nxt)
        self.sems[me].acquire()
        if self.deadlock: raise Deadlock(str(self.deadlock))
        self.state[me] = 'run'
    def unblock(self, what):
        for t in self.order:
            if self.state[t] == 'blocked:' + what: self.state[t] = 'ready'
    def run(self, funcs):
        self.ident = {}; results = {}; threads = []
        for i, f in enumerate(funcs):
            name = 'T%d' % i; self.order.append(name); self.state[name] = 'ready'; self.sems[name] = threading.Semaphore(0)
        def body(name, f):
            self.ident[threading.get_ident()] = name
            self.sems[name].acquire()
            self.state[name] = 'run'
            try:
                if self.deadlock: raise Deadlock(str(self.deadlock))
                results[name] = ('ok', f())
            except BaseException as e:
                results[name] = ('exc', type(e).__name__, str(e)[:200])
            self.state[name] = 'done'
            r = self._runnable()
            if r:
                nxt = self.rng.choice(r); self.trace.append((name, 'END', '->', nxt)); self._pass_baton(name, nxt)
            else:
                blocked = [t for t in self.order if self.state[t].startswith('blocked')]
                if blocked and not self.deadlock:
                    self.deadlock = dict((t, self.state[t]) for t in self.order)
                    for t in blocked: self.sems[t].release()
                self.mainsem.release()
        for name, f in zip(self.order, funcs):
            th = threading.Thread(target=body, args=(name, f), daemon=True); threads.append(th); th.start()
        first = self.rng.choice(self.order); self.current = first; self.sems[first].release()
        ok = self.mainsem.acquire(timeout=30)
        for th in threads: th.join(timeout=5)
        return results, ok
class ProxyLock(object):
    def __init__(self, sched, name='L'):
        self.s = sched; self.owner = None; self.name = name; self.events = []
    def _me(self): return self.s.ident.get(threading.get_ident())
    def acquire(self, blocking=True, timeout=-1):
        me = self._me()
        self.s.yield_point(me, ('acquire', self.name))
        while self.owner is not None:
            if not blocking: return False
            self.s.block(me, self.name)
        self.owner = me; self.events.append(('acq', me)); return True
    def release(self):
        me = self._me()
        if self.owner is None: raise RuntimeError('release unlocked lock')
        self.owner = None; self.events.append(('rel', me)); self.s.unblock(self.name)
        self.s.yield_point(me, ('release', self.name))
    def locked(self): return self.owner is not None
    __enter__ = acquire
    def __exit__(self, *a): self.release()
