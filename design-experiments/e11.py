import faulthandler, sys
faulthandler.dump_traceback_later(5, exit=True)
from dateutil.rrule import rrule, DAILY
from datetime import datetime
r = rrule(DAILY, dtstart=datetime(2000,1,1), count=15, cache=True)
a = iter(r); b = iter(r)
next(b)
print(len(list(a)))
print(len(list(b)))
