import random, collections, warnings, datetime as D, sys, signal
warnings.simplefilter('ignore')
from dateutil import parser
from dateutil.parser import ParserError
toks = ['1','2','12','31','99','2003','20030925','0','00','10','59','60','61','24','25','999999999999','1'*30, '1'*400, '4.5','1.','.5','10.36.28','1e5','inf','nan','Infinity','NaN','-','+','/',':','.',',',' ','  ','T','t','Z','z','UTC','GMT','EST','am','pm','a','p','AM','h','m','s','hour','minutes','Jan','January','Sept','of','on','at','and','th','st','Mon','Monday','\x00','٣','१२','²','½','é','ß','(',')','BRST','+0300','-03:00','+3',"'",';','am.','a.m.','٠٩','１２','Ⅷ','١٠:٣٠']
rng = random.Random(int(sys.argv[1]))
exc = collections.Counter(); ex = {}
def handler(signum, frame): raise TimeoutError('slow')
signal.signal(signal.SIGALRM, handler)
N = int(sys.argv[2])
for i in range(N):
    s = ''.join(rng.choice(toks) for _ in range(rng.randint(1, 9)))
    kw = {}
    if rng.random() < .3: kw['fuzzy'] = True
    if rng.random() < .15: kw['fuzzy_with_tokens'] = True
    if rng.random() < .3: kw['dayfirst'] = rng.random() < .5
    if rng.random() < .3: kw['yearfirst'] = rng.random() < .5
    if rng.random() < .2: kw['ignoretz'] = True
    if rng.random() < .2: kw['tzinfos'] = {'BRST': -10800, 'EST': 'EST5EDT'}
    signal.alarm(5)
    try:
        r = parser.parse(s, default=D.datetime(2003, 9, 25), **kw)
        k = 'ok'
    except ParserError: k = 'ParserError'
    except OverflowError: k = 'OverflowError'
    except BaseException as e:
        k = type(e).__module__ + '.' + type(e).__name__
        ex.setdefault(k, []).append((s, kw, str(e)[:80]))
    signal.alarm(0)
    exc[k] += 1
print(exc)
for k, v in ex.items():
    print(k, len(v))
    for x in v[:6]: print('   ', repr(x))
