import os, datetime as D, collections, sys
sys.path.insert(0, '/verif/design-experiments')
from tzif_ref import RefZone
from dateutil import tz
UTC = tz.UTC; EPOCH = D.datetime(1970,1,1)
root = '/usr/share/zoneinfo'
names = []
for dp, dn, fn in os.walk(root):
    for f in fn:
        p = os.path.join(dp, f); rel = os.path.relpath(p, root)
        if rel.startswith(('posix/', 'right/')): continue
        with open(p, 'rb') as fh:
            if fh.read(4) == b'TZif': names.append(rel)
names.sort()
seen = {}
stats = collections.Counter(); shapes = collections.Counter(); exs = {}
for n in names:
    data = open(os.path.join(root, n), 'rb').read()
    if data in seen: continue
    seen[data] = n
    rz = RefZone(data); z = tz.tzfile(os.path.join(root, n))
    tr = rz.trans
    for i, t in enumerate(tr):
        prev = rz.before if i == 0 else rz.types[rz.idx[i-1]]
        new = rz.types[rz.idx[i]]
        nxt = tr[i+1] if i + 1 < len(tr) else None
        if nxt is None: continue   # only [first,last)
        bad_fwd = bad_wall = 0
        for off in (0, 1, 59, 1799, 3599, 3600, 3601, 7199, 7200, 10800):
            ts = t + off
            if ts >= nxt: break
            u = (EPOCH + D.timedelta(seconds=ts)).replace(tzinfo=UTC)
            loc = u.astimezone(z)
            exp = rz.type_at(ts)
            got = (int(loc.utcoffset().total_seconds()), loc.tzname())
            wall = int((loc.replace(tzinfo=None) - EPOCH).total_seconds())
            if wall - ts != exp[0]: bad_fwd += 1          # fromutc wrong
            elif got != (exp[0], exp[2]): bad_wall += 1     # utcoffset/tzname of converted wrong
            elif exp[1] is False and loc.dst() != D.timedelta(0): bad_wall += 1; stats['dst-nonzero-on-std'] += 1
        # also just before
        for off in (-1, -1800, -3600, -7200):
            ts = t + off
            if i > 0 and ts < tr[i-1]: continue
            u = (EPOCH + D.timedelta(seconds=ts)).replace(tzinfo=UTC)
            loc = u.astimezone(z); exp = rz.type_at(ts)
            wall = int((loc.replace(tzinfo=None) - EPOCH).total_seconds())
            if wall - ts != exp[0]: bad_fwd += 1
            elif (int(loc.utcoffset().total_seconds()), loc.tzname()) != (exp[0], exp[2]): bad_wall += 1
        stats['transitions'] += 1
        if bad_fwd or bad_wall:
            d = new[0] - prev[0]
            shape = ('first' if i == 0 else 'mid', 'fold' if d < 0 else ('gap' if d > 0 else 'same'), 'dst%d->%d' % (prev[1], new[1]), 'fwd' if bad_fwd else 'wall')
            shapes[shape] += 1; stats['bad'] += 1
            exs.setdefault(shape, (n, i, D.datetime.utcfromtimestamp(t).isoformat(), prev, new))
print(len(seen), 'distinct files', stats)
for k, v in sorted(shapes.items(), key=lambda kv: -kv[1]): print(v, k, exs[k])
