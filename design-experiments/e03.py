import random, datetime as D, calendar, collections, sys, warnings
warnings.simplefilter('ignore')
from dateutil.relativedelta import relativedelta, weekday, MO
rng = random.Random(int(sys.argv[1]))
def rdt(aware=False):
    y = rng.choice([1, 2, 4, 100, 400, 1582, 1899, 1900, 1999, 2000, 2003, 2004, 2023, 2024, 2100, 9998, 9999] + [rng.randint(1, 9999)]*6)
    m = rng.randint(1, 12); d = rng.choice([1, 28, 29, 30, 31, rng.randint(1, 31)]); d = min(d, calendar.monthrange(y, m)[1])
    if rng.random() < .3: return D.date(y, m, d)
    return D.datetime(y, m, d, rng.randint(0, 23), rng.randint(0, 59), rng.randint(0, 59), rng.choice([0, 1, 999999, rng.randint(0, 999999)]))
def ref_add(dt, kw):
    """independent model of documented semantics. returns value or raises"""
    has_time = any(kw.get(k) for k in ('hours', 'minutes', 'seconds', 'microseconds')) or any(kw.get(k) is not None for k in ('hour', 'minute', 'second', 'microsecond'))
    # NB: normalisation may zero/create time fields: compute total relative duration
    if has_time and not isinstance(dt, D.datetime):
        dt = D.datetime(dt.year, dt.month, dt.day)
    # absolute
    year = kw.get('year') or dt.year   # note: 'or' semantics documented? year=0 invalid anyway
    month = kw.get('month') or dt.month
    day = kw.get('day') or dt.day
    # relative months/years total
    tot_m = kw.get('years', 0) * 12 + kw.get('months', 0)
    # carry from days->? no. months normalised sign-preserving: same total
    idx = year * 12 + (month - 1) + tot_m
    year, month = divmod(idx, 12); month += 1
    if not 1 <= year <= 9999: raise ValueError
    day = min(day, calendar.monthrange(year, month)[1])
    rep = dict(year=year, month=month, day=day)
    for k in ('hour', 'minute', 'second', 'microsecond'):
        if kw.get(k) is not None: rep[k] = kw[k]
    base = dt.replace(**rep)
    days = kw.get('days', 0) + 7 * kw.get('weeks', 0)
    dur = D.timedelta(days=days, hours=kw.get('hours', 0), minutes=kw.get('minutes', 0), seconds=kw.get('seconds', 0), microseconds=kw.get('microseconds', 0))
    ld = kw.get('leapdays', 0)
    if ld and month > 2 and calendar.isleap(year): dur += D.timedelta(days=ld)
    r = base + dur
    wd = kw.get('weekday')
    if wd is not None:
        if isinstance(wd, int): w, n = wd, 1
        else: w, n = wd.weekday, (wd.n or 1)
        if n > 0:
            r = r + D.timedelta(days=(w - r.weekday()) % 7 + 7 * (n - 1))
        else:
            r = r - D.timedelta(days=(r.weekday() - w) % 7 + 7 * (-n - 1))
    return r
cnt = collections.Counter(); ex = collections.defaultdict(list)
for _ in range(int(sys.argv[2])):
    dt = rdt(); kw = {}
    for k, rngv in (('years', 30), ('months', 40), ('days', 800), ('weeks', 60), ('hours', 100), ('minutes', 5000), ('seconds', 200000), ('microseconds', 5*10**6)):
        if rng.random() < .25: kw[k] = rng.randint(-rngv, rngv)
    if rng.random() < .15: kw['leapdays'] = rng.choice([-1, 1, 2])
    if rng.random() < .12: kw['year'] = rng.choice([1, 1999, 2000, 2004, 2100, 9999])
    if rng.random() < .12: kw['month'] = rng.randint(1, 12)
    if rng.random() < .12: kw['day'] = rng.choice([1, 15, 28, 29, 30, 31])
    for k, hi in (('hour', 23), ('minute', 59), ('second', 59), ('microsecond', 999999)):
        if rng.random() < .08: kw[k] = rng.choice([0, hi, rng.randint(0, hi)])
    if rng.random() < .25:
        w = rng.randrange(7); n = rng.choice([None, 0, 1, -1, 2, -2, 3, 5, -5])
        kw['weekday'] = rng.choice([w, weekday(w, n)]) if n is not None else weekday(w)
    rd = relativedelta(**kw)
    try: exp = ('ok', ref_add(dt, kw))
    except (ValueError, OverflowError): exp = ('err',)
    try: got = ('ok', dt + rd)
    except (ValueError, OverflowError): got = ('err',)
    except Exception as e: got = ('EXC', type(e).__name__)
    if got == exp and got[0] == 'ok' and type(got[1]) is not type(exp[1]): k = 'type-diff'
    elif got == exp: k = 'agree-' + got[0]
    else: k = 'diff-%s-%s' % (got[0], exp[0])
    cnt[k] += 1
    if not k.startswith('agree') and len(ex[k]) < 12: ex[k].append((dt, kw, got, exp))
print(cnt)
for k, v in ex.items():
    print(k)
    for x in v: print('   ', x)
