import sys, random, weakref, collections, gc, time
sys.path.insert(0, '/verif/design-experiments')
from sched import *
from dateutil import tz
from dateutil.tz import _factories
import datetime as D
codes = [_factories._TzOffsetFactory.__call__.__code__, weakref.WeakValueDictionary.setdefault.__code__, weakref.WeakValueDictionary.get.__code__]
seen = collections.Counter(); interleavings = set()
t0 = time.time()
viol = None
for run in range(400):
    rng = random.Random(run)
    s = Sched(rng, codes, switch_prob=0.25)
    s.install()
    tz.tzoffset._cache_lock = ProxyLock(s, 'off')
    key = ('X%d' % run, 3600 + run)
    def w(): return tz.tzoffset(*key)
    try:
        res, ok = s.run([w, w, w])
    finally:
        s.uninstall()
    objs = [r[1] for r in res.values() if r[0] == 'ok']
    interleavings.add(tuple((a, c) for a, b, c, *_ in [(t[0], t[1], t[3]) for t in s.trace]))
    if any(r[0] != 'ok' for r in res.values()) or not ok: seen['exc/deadlock'] += 1; viol = viol or (run, res, s.trace[:10])
    elif len({id(o) for o in objs}) != 1: seen['two-live-objects'] += 1; viol = viol or (run, [id(o) for o in objs], s.trace)
    else: seen['ok'] += 1
print(seen, 'distinct interleavings', len(interleavings), 'time', round(time.time() - t0, 2))
print(viol)
