import os, time, datetime as D, sys, warnings
warnings.simplefilter('ignore')
from dateutil import tz
def libc(tzs, ts):
    os.environ['TZ'] = tzs; time.tzset()
    lt = time.localtime(ts)
    return lt.tm_gmtoff, lt.tm_zone, lt.tm_isdst
EPOCH = D.datetime(1970,1,1, tzinfo=tz.UTC)
forms = ['EST5EDT,M3.2.0,M11.1.0', 'EST5EDT,M3.2.0/2,M11.1.0/2', 'AEST-10AEDT,M10.1.0,M4.1.0/3', 'CET-1CEST,M3.5.0,M10.5.0/3',
         'EST5EDT,J60,J300', 'EST5EDT,J60/2,J300/2', 'EST5EDT,59,299', 'EST5EDT,59/2,299/2', 'EST5EDT,J1/0,J365/0'[:0] or 'EST5EDT,J100/0,J300/0',
         'EST5EDT4,M3.2.0/02:00:00,M11.1.0/02:00:00', 'AAA3BBB1,M3.2.0,M11.1.0', 'NST3:30NDT2:30,M3.2.0/0:01,M11.1.0/0:01', 'EST5EDT,M3.2.0/24,M11.1.0/24',
         'EST5EDT,M3.2.0/0,M11.1.0/0', 'EST5EDT,M3.2.0/1,M11.1.0/1', 'EST5EDT,M4.5.6/2:30,M9.5.1/3:15:30', '<+03>-3<+04>,M3.5.0,M10.5.0', 'IST-2IDT,M3.4.4/26,M10.5.0',
         'EST5EDT', 'EST5', 'WET0WEST,M3.5.0/1,M10.5.0']
for f in forms:
    try:
        z = tz.tzstr(f)
    except Exception as e:
        print(f, 'tzstr raises', type(e).__name__, e); continue
    bad = 0; first = None; n = 0
    for year in (2019, 2020, 2021):
        t0 = int((D.datetime(year,1,1,tzinfo=tz.UTC)-EPOCH).total_seconds())
        for ts in range(t0, t0 + 366*86400, 1800):
            n += 1
            u = EPOCH + D.timedelta(seconds=ts)
            l = u.astimezone(z)
            got = (int(l.utcoffset().total_seconds()), l.tzname(), int(bool(l.dst())))
            exp = libc(f, ts)
            if got != exp:
                bad += 1
                if first is None: first = (u.replace(tzinfo=None).isoformat(), got, exp)
    print(f, 'bad', bad, '/', n, first)
