import os, datetime as D, collections, sys
sys.path.insert(0, '/verif/design-experiments')
from tzif_ref import RefZone
from dateutil import tz
import dateutil; print(dateutil.__file__)
UTC = tz.UTC; EPOCH = D.datetime(1970,1,1)
root = '/usr/share/zoneinfo'
names = []
for dp, dn, fn in os.walk(root):
    for f in fn:
        p = os.path.join(dp, f); rel = os.path.relpath(p, root)
        if rel.startswith(('posix/', 'right/')): continue
        with open(p, 'rb') as fh:
            if fh.read(4) == b'TZif': names.append(rel)
names.sort(); seen = {}
bad = collections.Counter(); ex = {}; stats = collections.Counter()
def ts_of(dt): return int((dt - EPOCH).total_seconds())
for n in names:
    data = open(os.path.join(root, n), 'rb').read()
    if data in seen: continue
    seen[data] = n
    rz = RefZone(data); z = tz.tzfile(os.path.join(root, n)); tr = rz.trans
    for i, t in enumerate(tr[:-1]):
        prev = rz.before if i == 0 else rz.types[rz.idx[i-1]]; new = rz.types[rz.idx[i]]
        d = new[0] - prev[0]
        lo = t + min(prev[0], new[0]); hi = t + max(prev[0], new[0])
        walls = {lo - 1, lo, lo + 1, (lo + hi) // 2, hi - 1, hi, hi + 1, lo - 3600, hi + 3600}
        for wts in walls:
            try: w = EPOCH + D.timedelta(seconds=wts)
            except OverflowError: continue
            pre = rz.preimages(wts)
            # restrict to preimages inside [first-?, last)
            if any(u >= tr[-1] for u in pre) or len(pre) > 2: stats['skipped'] += 1; continue
            stats['walls'] += 1
            key = None
            if tz.datetime_exists(w, z) != (len(pre) >= 1): key = 'exists'
            elif tz.datetime_ambiguous(w, z) != (len(pre) == 2): key = 'ambiguous'
            elif len(pre) == 2:
                o0 = w.replace(tzinfo=z, fold=0).utcoffset().total_seconds(); o1 = w.replace(tzinfo=z, fold=1).utcoffset().total_seconds()
                if (wts - o0, wts - o1) != (pre[0], pre[1]): key = 'fold-select'
                else:
                    for k, u in enumerate(pre):
                        loc = (EPOCH + D.timedelta(seconds=u)).replace(tzinfo=UTC).astimezone(z)
                        if loc.fold != k or ts_of(loc.replace(tzinfo=None)) != wts: key = 'fromutc-fold'
            elif len(pre) == 1:
                o0 = w.replace(tzinfo=z, fold=0).utcoffset(); o1 = w.replace(tzinfo=z, fold=1).utcoffset()
                if o0 != o1 or wts - o0.total_seconds() != pre[0]: key = 'single-offset'
                r = tz.resolve_imaginary(w.replace(tzinfo=z))
                if r.replace(tzinfo=None) != w: key = 'resolve-changed-existing'
            else:
                r = tz.resolve_imaginary(w.replace(tzinfo=z)); rw = ts_of(r.replace(tzinfo=None))
                if rw - wts != hi - lo or not tz.datetime_exists(r): key = 'resolve-gap'
            if key:
                bad[key] += 1; ex.setdefault(key, (n, i, D.datetime.utcfromtimestamp(t).isoformat(), prev, new, w.isoformat(), pre))
print(len(seen), stats, dict(bad))
for k, v in ex.items(): print(k, v)
