import sys; sys.argv = sys.argv
exec(open('d01.py').read().split("if __name__ == '__main__':")[0])
def mech(kw, got, ref):
    wd = kw.get('byweekday')
    if wd is not None:
        if isinstance(wd, int) or hasattr(wd, 'n'): wd = [wd]
        plain = [w for w in wd if isinstance(w, int) or not w.n]
        nth = [w for w in wd if not isinstance(w, int) and w.n]
        if kw['freq'] <= 1 and plain and nth: return 'plain+nth'
        if kw['freq'] <= 1 and any(abs(w.n) > 5 for w in nth) and got and isinstance(got, tuple) and 'IndexError' in got[0]: return 'nth-index'
    if kw.get('byweekno') is not None: return 'weekno'
    return 'other'
import collections
tot = collections.Counter(); ex = collections.defaultdict(list)
for seed in range(10, 14):
    stats, bad = run(seed, 1500)
    for b in bad:
        m = mech(*b); tot[m] += 1
        if len(ex[m]) < 40: ex[m].append(b)
print(tot)
for b in ex['other']:
    print('----'); print(b[0]); print(' got', b[1]); print(' ref', b[2])
import pickle; pickle.dump(dict(ex), open('ex.pkl', 'wb'))
