"""Runs the repository's own test suite as one more workload under the monitors (thorough tiers)."""
import json
import os
import subprocess
import tempfile

from vf import core


def run_under_monitors(ctx, monitors, label):
    """-> events dict; oracle failures are reported as violations of the calling check"""
    repo = core.repo_root()
    fd, out = tempfile.mkstemp(prefix='vfpt', suffix='.json')
    os.close(fd)
    env = dict(os.environ, VF_MONITORS=','.join(monitors), VF_PYTEST_OUT=out,
               PYTHONPATH=os.path.join(repo, 'src') + os.pathsep + core.VERIF, TZ='UTC')
    try:
        p = subprocess.run([core.PY, '-B', '-m', 'pytest', '-q', '-p', 'no:cacheprovider', '-p', 'vf.pytest_plugin', '-x', '--co', '-q'],
                           cwd=repo, env=env, stdout=subprocess.PIPE, stderr=subprocess.STDOUT, timeout=300)
        p = subprocess.run([core.PY, '-B', '-m', 'pytest', '-q', '-p', 'no:cacheprovider', '-p', 'vf.pytest_plugin',
                            '-W', 'ignore::pytest.PytestRemovedIn10Warning', 'tests', 'docs'],
                           cwd=repo, env=env, stdout=subprocess.PIPE, stderr=subprocess.STDOUT, timeout=1200)
        with open(out) as f:
            data = json.load(f)
    except Exception as e:
        ctx.inconclusive_because('repository tests under the monitors could not be run: %r' % (e,))
        return {}
    finally:
        try:
            os.remove(out)
        except OSError:
            pass
    ev = data.get('events', {})
    for k, v in ev.items():
        ctx.count('repo_tests_%s' % k, v)
    for m in monitors:
        ctx.ev(ev.get(m, 0))
    for f in data.get('fails', []):
        if f['monitor'] in monitors:
            ctx.violation('repo-test-%s-%s' % (f['monitor'], f['kind']), {'test': f['test'], 'case': f['case']}, f['detail'])
    ctx.note('repo_tests_under_monitors_' + label, {'events': ev, 'oracle_failures': len(data.get('fails', []))})
    return ev
