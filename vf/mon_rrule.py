"""Runtime differential machinery for recurrence rules (C01, reused by C10-C13).

* gen_rule(): stratified seeded generator of rrule keyword arguments (client form).
* PeriodProbe: sys.monitoring LINE hook on the real rrule._iter generator code.  It fires once per period
  (loop header), reads the period cursor and aborts the iteration with `Horizon` once the cursor passes the
  comparison horizon or the period budget is used up - this is what keeps never-matching rules (which legitimately
  grind to year 9999) from stalling a run.  All other lines are DISABLEd after their first event.
* run_real() / compare(): execute the real rule and compare it with the brute-force reference.
"""
import calendar
import datetime as D
import inspect
import sys

from vf.oracles import rrule_ref as RR

TOOL_ID = 3
P_PERIODS = {0: 30, 1: 80, 2: 120, 3: 800, 4: 480, 5: 1500, 6: 3000}
MAX_ITEMS = 25


class Horizon(BaseException):
    pass


class PeriodProbe(object):
    def __init__(self, R):
        self.mon = sys.monitoring
        self.code = R.rrule._iter.__code__
        self.loopline = None
        try:
            src, first = inspect.getsourcelines(R.rrule._iter)
            hits = [i for i, l in enumerate(src) if 'getdayset(year, month, day)' in l.replace(' ', '').replace(',', ', ')
                    or 'getdayset(year,month,day)' in l.replace(' ', '')]
            if len(hits) == 1:
                self.loopline = first + hits[0]
        except (OSError, TypeError):
            pass
        self.horizon = None          # (y, m, d) or None
        self.budget = 0
        self.periods = 0
        self.periods_total = 0
        self.cursor = None
        self.cursor_ok = True
        self.lines_total = 0
        self.armed = False
        self.monotone_violation = None
        self.last_cursor = None

    def start(self):
        mon = self.mon
        mon.use_tool_id(TOOL_ID, 'vf-rrule')
        mon.register_callback(TOOL_ID, mon.events.LINE, self._on_line)
        mon.set_local_events(TOOL_ID, self.code, mon.events.LINE)

    def stop(self):
        mon = self.mon
        mon.set_local_events(TOOL_ID, self.code, 0)
        mon.register_callback(TOOL_ID, mon.events.LINE, None)
        mon.free_tool_id(TOOL_ID)

    def arm(self, horizon_ord, budget):
        if horizon_ord is None or horizon_ord > RR.MAXORD:
            self.horizon = None
        else:
            d = D.date.fromordinal(horizon_ord)
            self.horizon = (d.year, d.month, d.day)
        self.budget = budget
        self.periods = 0
        self.cursor = None
        self.last_cursor = None
        self.armed = True

    def disarm(self):
        self.armed = False

    def _on_line(self, code, line):
        if self.loopline is not None and line != self.loopline:
            return self.mon.DISABLE
        self.lines_total += 1
        if not self.armed:
            return None
        if self.loopline is None:
            # fallback: no loop header identified - plain line budget
            self.periods += 1
            if self.periods > self.budget * 3000:
                raise Horizon('line-budget')
            return None
        self.periods += 1
        self.periods_total += 1
        try:
            loc = sys._getframe(1).f_locals
            cur = (loc['year'], loc['month'], loc['day'], loc.get('hour', 0), loc.get('minute', 0), loc.get('second', 0))
        except (KeyError, ValueError):
            self.cursor_ok = False
            cur = None
        if cur is not None:
            if self.last_cursor is not None and cur <= self.last_cursor and self.monotone_violation is None:
                self.monotone_violation = (self.last_cursor, cur)
            self.last_cursor = cur
            self.cursor = cur
            if self.horizon is not None and cur[:3] >= self.horizon:
                raise Horizon('horizon')
        if self.periods > self.budget:
            raise Horizon('period-budget')
        return None


# ---------------------------------------------------------------------------------------------
# generator
# ---------------------------------------------------------------------------------------------
START_YEARS = [1996, 1997, 1999, 2000, 2003, 2004, 2008, 2009, 2015, 2020, 2100, 1900, 2400, 9990, 1, 2, 1582]
INTERVALS = [1, 2, 3, 4, 5, 7, 12, 13, 24, 60, 90, 366]


def some(rng, pool, kmax=3, single_ok=True):
    k = rng.randint(1, kmax)
    v = [rng.choice(pool) for _ in range(k)]
    return v[0] if (k == 1 and single_ok and rng.random() < .3) else v


def gen_start(rng, zones):
    y = rng.choice(START_YEARS) if rng.random() < .8 else rng.randint(1, 9990)
    m = rng.randint(1, 12)
    d = min(rng.choice([1, 15, 28, 29, 30, 31, rng.randint(1, 31)]), calendar.monthrange(y, m)[1])
    r = rng.random()
    if r < .12:
        return D.date(y, m, d), 'date'
    dt = D.datetime(y, m, d, rng.choice([0, 9, 23, rng.randint(0, 23)]), rng.choice([0, 30, 59, rng.randint(0, 59)]),
                    rng.choice([0, 0, 59, rng.randint(0, 59)]), rng.choice([0, 0, 123456]))
    if r < .3 and zones and y > 1:
        z = rng.choice(zones)
        return dt.replace(tzinfo=z), 'aware'
    return dt, 'naive'


def nth_in_scope(t, scope_month, negative):
    if scope_month:
        first = D.date(t.year, t.month, 1)
        last = D.date(t.year, t.month, calendar.monthrange(t.year, t.month)[1])
    else:
        first, last = D.date(t.year, 1, 1), D.date(t.year, 12, 31)
    if negative:
        return -((last.toordinal() - t.toordinal()) // 7 + 1)
    return (t.toordinal() - first.toordinal()) // 7 + 1


def gen_rule(rng, R, zones, finite=False):
    """-> (kw, meta) ; kw are rrule() keyword arguments in client form."""
    freq = rng.randrange(7)
    st, skind = gen_start(rng, zones)
    kw = {'freq': freq, 'dtstart': st}
    if rng.random() < .5:
        kw['interval'] = rng.choice(INTERVALS)
    wk = rng.randrange(7)
    r = rng.random()
    if r < .4:
        kw['wkst'] = wk
    elif r < .6:
        kw['wkst'] = R.weekdays[wk]
    else:
        wk = 0
    seeded = rng.random() < .55
    std = st if isinstance(st, D.datetime) else D.datetime(st.year, st.month, st.day)
    target = None
    if seeded:
        # a target day in one of the first periods, so that the drawn BY-values can be satisfied there
        interval = kw.get('interval', 1)
        k = rng.randint(0, 3)
        try:
            if freq == 0:
                ty = std.year + k * interval
                target = D.date(ty, rng.randint(1, 12), 1) + D.timedelta(days=rng.randrange(28))
            elif freq == 1:
                idx = std.year * 12 + std.month - 1 + k * interval
                ty, tm = divmod(idx, 12)
                target = D.date(ty, tm + 1, rng.randint(1, calendar.monthrange(ty, tm + 1)[1]))
            elif freq == 2:
                wstart = std.toordinal() - ((std.weekday() - wk) % 7) + 7 * k * interval
                target = D.date.fromordinal(wstart + rng.randrange(7))
            elif freq == 3:
                target = std.date() + D.timedelta(days=k * interval)
            else:
                target = std.date() + D.timedelta(days=rng.choice([0, 0, 1]))
            if target.year > 9999 or target < std.date():
                target = None
        except (ValueError, OverflowError):
            target = None
    t = target
    if rng.random() < .3:
        kw['bymonth'] = some(rng, list(range(1, 13)))
        if t is not None:
            kw['bymonth'] = add_member(kw['bymonth'], t.month)
    if rng.random() < .25:
        pool = list(range(1, 32)) + list(range(-31, 0))
        kw['bymonthday'] = some(rng, pool)
        if t is not None:
            ml = calendar.monthrange(t.year, t.month)[1]
            kw['bymonthday'] = add_member(kw['bymonthday'], rng.choice([t.day, t.day - ml - 1]))
    if rng.random() < .15:
        kw['byyearday'] = some(rng, [1, 2, 59, 60, 61, 100, 200, 365, 366, -1, -2, -306, -307, -365, -366])
        if t is not None:
            yl = 366 if calendar.isleap(t.year) else 365
            yd = t.timetuple().tm_yday
            kw['byyearday'] = add_member(kw['byyearday'], rng.choice([yd, yd - yl - 1]))
    if rng.random() < .15:
        kw['byweekno'] = some(rng, [1, 2, 20, 51, 52, 53, -1, -2, -52, -53])
        if t is not None:
            wy, wn, nw = RR.week_info(t, wk)
            kw['byweekno'] = add_member(kw['byweekno'], rng.choice([wn, wn - nw - 1]))
    if rng.random() < .35:
        pool = ([R.weekdays[i] for i in range(7)] + list(range(7)) +
                [R.weekdays[i](n) for i in range(7) for n in (1, 2, 3, 4, 5, -1, -2, -5, 10, 53, -53)])
        v = some(rng, pool)
        if t is not None:
            w = t.weekday()
            if freq <= 1 and rng.random() < .5:
                scope_month = (freq == 1) or ('bymonth' in kw)
                mem = R.weekdays[w](nth_in_scope(t, scope_month, rng.random() < .4))
            else:
                mem = rng.choice([w, R.weekdays[w]])
            v = add_member(v, mem)
        kw['byweekday'] = v
    if rng.random() < .1:
        kw['byeaster'] = some(rng, [0, 1, -1, -2, -46, 39, 49, 50, -80, 200, 249])
        if t is not None:
            kw['byeaster'] = add_member(kw['byeaster'], t.toordinal() - RR.easter_western(t.year).toordinal())
    if rng.random() < .2:
        kw['byhour'] = some(rng, list(range(24)))
        if t is not None and freq >= 4:
            kw['byhour'] = add_member(kw['byhour'], std.hour)
    if rng.random() < .2:
        kw['byminute'] = some(rng, list(range(60)))
        if t is not None and freq >= 5:
            kw['byminute'] = add_member(kw['byminute'], std.minute)
    if rng.random() < .2:
        kw['bysecond'] = some(rng, list(range(60)))
        if t is not None and freq >= 6:
            kw['bysecond'] = add_member(kw['bysecond'], std.second)
    if rng.random() < .25:
        kw['bysetpos'] = some(rng, [1, 2, 3, -1, -2, 5, 10, -10, 366, -366])
    r = rng.random()
    if finite:
        r = r * .5
    if r < .3:
        kw['count'] = rng.randint(0, 12) if rng.random() < .9 else rng.randint(13, 40)
    elif r < .5:
        span = {0: 3000, 1: 400, 2: 120, 3: 30, 4: 3, 5: 1, 6: 1}[freq] * kw.get('interval', 1)
        try:
            u = std + D.timedelta(days=rng.choice([0, 1, span // 3, span]), seconds=rng.randrange(3))
        except OverflowError:
            u = D.datetime(9999, 12, 31, 23, 59, 59, tzinfo=std.tzinfo)
        if std.tzinfo is not None and rng.random() < .3 and zones:
            try:
                u = u.astimezone(rng.choice(zones))
            except (OverflowError, ValueError):
                pass
        if rng.random() < .15 and std.tzinfo is None:
            u = u.date()
        kw['until'] = u
    meta = {'seeded': target is not None, 'start_kind': skind}
    return kw, meta


def add_member(v, x):
    if isinstance(v, list):
        return v + [x]
    return [v, x]


def weak_easter(kw):
    """BYEASTER offsets that can leave Easter's calendar year have no documented meaning."""
    be = kw.get('byeaster')
    if be is None:
        return False
    be = [be] if isinstance(be, int) else be
    return any(not (-80 <= x <= 249) for x in be)


def kw_to_ref(kw):
    out = dict(kw)
    if 'wkst' in out and not isinstance(out['wkst'], int):
        out['wkst'] = out['wkst'].weekday
    bw = out.get('byweekday')
    if bw is not None:
        if isinstance(bw, int) or hasattr(bw, 'n'):
            bw = [bw]
        out['byweekday'] = [w if isinstance(w, int) else (w.weekday, w.n) for w in bw]
    out.pop('cache', None)
    return out


def kw_json(kw):
    out = {}
    for k, v in kw.items():
        if k == 'dtstart' or k == 'until':
            out[k] = dt_json(v)
        elif k == 'wkst':
            out[k] = v if isinstance(v, int) else v.weekday
        elif k == 'byweekday':
            vv = [v] if (isinstance(v, int) or hasattr(v, 'n')) else list(v)
            out[k] = [w if isinstance(w, int) else [w.weekday, w.n] for w in vv]
            if isinstance(v, int) or hasattr(v, 'n'):
                out['byweekday_single'] = True
        else:
            out[k] = v
    return out


def dt_json(v):
    if isinstance(v, D.datetime):
        return {'dt': [v.year, v.month, v.day, v.hour, v.minute, v.second, v.microsecond], 'tz': None if v.tzinfo is None else repr(v.tzinfo)}
    return {'date': [v.year, v.month, v.day]}


def kw_from_json(j, R, zones):
    zmap = {repr(z): z for z in zones}
    kw = {}
    for k, v in j.items():
        if k in ('dtstart', 'until'):
            if 'date' in v:
                kw[k] = D.date(*v['date'])
            else:
                kw[k] = D.datetime(*v['dt'], tzinfo=zmap.get(v['tz']) if v.get('tz') else None)
        elif k == 'byweekday':
            vv = [w if isinstance(w, int) else R.weekdays[w[0]](w[1]) if w[1] else R.weekdays[w[0]] for w in v]
            kw[k] = vv[0] if j.get('byweekday_single') else vv
        elif k == 'byweekday_single':
            continue
        else:
            kw[k] = v
    return kw


# ---------------------------------------------------------------------------------------------
# execution and comparison
# ---------------------------------------------------------------------------------------------

def naive(x):
    return x.replace(tzinfo=None, fold=0)


def run_real(R, probe, kw, horizon_ord, budget, max_items):
    """-> dict(status, items, error, rule)"""
    try:
        rule = R.rrule(**kw)
    except ValueError as e:
        return {'status': 'valueerror-init', 'items': [], 'error': str(e), 'rule': None}
    except Exception as e:
        return {'status': 'exc-init', 'items': [], 'error': '%s: %s' % (type(e).__name__, e), 'rule': None}
    items = []
    status = 'exhausted'
    probe.arm(horizon_ord, budget)
    try:
        for x in rule:
            items.append(x)
            if len(items) >= max_items:
                status = 'cut'
                break
    except Horizon as h:
        status = str(h)
    except ValueError as e:
        status = 'valueerror-iter'
        err = str(e)
    except Exception as e:
        status = 'exc-iter'
        err = '%s: %s' % (type(e).__name__, e)
    finally:
        probe.disarm()
    return {'status': status, 'items': items, 'error': locals().get('err'), 'rule': rule}


def shape_errors(kw, items):
    """every yielded value: datetime, whole seconds, the start's tzinfo, strictly increasing"""
    st = kw['dtstart']
    tz = st.tzinfo if isinstance(st, D.datetime) else None
    prev = None
    for x in items:
        if type(x) is not D.datetime:
            return 'yielded %r' % (x,)
        if x.microsecond:
            return 'yielded sub-second value %r' % (x,)
        if x.tzinfo is not tz:
            return 'yielded tzinfo %r, start has %r' % (x.tzinfo, tz)
        if prev is not None and not naive(x) > naive(prev):
            return 'not strictly increasing: %r then %r' % (prev, x)
        prev = x
    return None


def compare(kw, real, ref_items, hz):
    """-> None or (kind, detail).  ref_items: reference occurrences (naive) of the first P periods; hz: ordinal of
    the first day not covered (None = the reference list is final)."""
    st = real['status']
    got = [naive(x) for x in real['items']]
    if st.startswith('exc'):
        return ('unexpected-exception', real['error'])
    se = shape_errors(kw, real['items'])
    if se:
        return ('yield-shape', se)

    def below(seq):
        return [x for x in seq if hz is None or x.toordinal() < hz]
    g, r = below(got), below(ref_items)
    if st in ('valueerror-init', 'valueerror-iter'):
        if g != r[:len(g)]:
            return ('wrong-instant-before-valueerror', 'got %r, reference %r' % (g[:6], r[:6]))
        if len(r) > len(g):
            missing = r[len(g):]
            if 'out of range' in str(real.get('error', '')) and all(x.year == 9999 and x.month == 12 and x.day >= 25 for x in missing):
                # the period being built reaches into year 10000: its days are not representable, and what happens to the
                # last few days of 9999 in that period is outside the property (no instant past datetime.max exists)
                return None
            return ('valueerror-hides-occurrences', '%s (%s) but the rule has occurrences, e.g. %r' % (st, real['error'], r[len(g):len(g) + 3]))
        return None
    if st == 'cut':
        # the implementation was stopped after max_items: compare the common prefix
        if g != r[:len(g)]:
            return ('mismatch', diff_detail(g, r))
        if len(g) < len(got):
            return None          # its later items lie beyond the horizon
        return None
    if st in ('horizon', 'period-budget', 'line-budget'):
        if st == 'horizon':
            if g != r:
                return ('mismatch', diff_detail(g, r))
        elif g != r[:len(g)]:
            return ('mismatch', diff_detail(g, r))
        return None
    # exhausted: COUNT / UNTIL reached or MAXYEAR passed
    if g != r:
        return ('mismatch', diff_detail(g, r))
    return None


def diff_detail(g, r):
    i = 0
    while i < len(g) and i < len(r) and g[i] == r[i]:
        i += 1
    return 'first difference at index %d: library %r..., reference %r... (library %d items, reference %d below the horizon)' % (
        i, [x.isoformat() for x in g[i:i + 3]], [x.isoformat() for x in r[i:i + 3]], len(g), len(r))
