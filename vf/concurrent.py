"""Free-running threads over pure library calls.

The input-quantified properties are statements about values: what a call returns must not depend on what other threads
of the process compute at the same time.  `concurrent_pure` evaluates a pool of calls single-threaded (the expected
outcome - already judged by the check's own oracle elsewhere), then from several free-running threads with the GIL given
up at random statement boundaries of every function of the given modules (sched.YieldInjector on code objects collected
at run time, so helpers added to the module later are covered too), and reports every call whose concurrent outcome
differs from its single-threaded one.  No verdict comes from a timer: a round that does not finish is inconclusive.
"""
import random
import sys
import threading

from vf import sched as S


def module_codes(*mods):
    """code objects of every function defined in the modules (module level and in their classes)"""
    out = []

    def add(f):
        # decorated functions: the wrapper and everything it wraps
        for _ in range(8):
            if f is None:
                return
            if hasattr(f, '__code__') and f.__code__ not in out:
                out.append(f.__code__)
            f = getattr(f, '__wrapped__', None)
    for mod in mods:
        if isinstance(mod, str):
            mod = sys.modules[mod]
        for v in list(vars(mod).values()):
            if getattr(v, '__module__', None) != mod.__name__:
                continue
            if isinstance(v, type):
                for m in list(vars(v).values()):
                    f = getattr(m, '__func__', m)
                    f = getattr(f, 'fget', f)
                    add(f)
            else:
                add(v)
    return out


def outcome(f, arg):
    try:
        return ('ok', f(arg))
    except Exception as e:
        return ('exc', type(e).__name__)


def concurrent_pure(ctx, label, mods, f, pool, rounds, nthreads=4, per_thread=40, prob=.3, render=repr):
    """-> list of (arg, concurrent outcome, single-threaded outcome); also counts `concurrent_<label>` / `_yields`"""
    expected = [outcome(f, a) for a in pool]
    bad = []
    sys.setswitchinterval(1e-5)
    try:
        with S.YieldInjector(module_codes(*mods), prob=prob, seed=ctx.seed) as inj:
            for r in range(rounds):
                barrier = threading.Barrier(nthreads)

                def w(i):
                    rr = random.Random(ctx.seed * 1000 + r * 16 + i)
                    barrier.wait()
                    for _ in range(per_thread):
                        k = rr.randrange(len(pool))
                        got = outcome(f, pool[k])
                        if got != expected[k]:
                            bad.append((pool[k], got, expected[k]))
                ths = [threading.Thread(target=w, args=(i,), daemon=True) for i in range(nthreads)]
                [t.start() for t in ths]
                [t.join(300) for t in ths]
                ctx.ev(nthreads * per_thread)
                ctx.count('concurrent_' + label, nthreads * per_thread)
                if any(t.is_alive() for t in ths):
                    ctx.inconclusive_because('concurrent round (%s) did not finish' % label)
                    break
                if bad:
                    break
            ctx.count('concurrent_%s_yields' % label, inj.yields)
    finally:
        sys.setswitchinterval(0.005)
    for arg, got, exp in bad[:3]:
        ctx.violation('concurrent-result-differs', {'workload': 'concurrent-' + label, 'argument': render(arg), 'threads': nthreads},
                      'while other threads make the same kind of call: %s gave %r, alone it gives %r' % (render(arg), got, exp))
    return bad


def floor(c, label, calls, yields, out):
    if c.get('concurrent_' + label, 0) < calls or c.get('concurrent_%s_yields' % label, 0) < yields:
        out.append('concurrent %s: only %d calls with %d injected yields' % (label, c.get('concurrent_' + label, 0),
                                                                             c.get('concurrent_%s_yields' % label, 0)))
