"""Truth models for zone objects, in one vocabulary (UTC seconds since 1970 <-> wall seconds):

model.at(ts)            -> (utc offset seconds, abbreviation, is_dst) in force at UTC second ts, or None if not claimed
model.preimages(wall)   -> sorted list of UTC seconds whose wall reading is `wall`
model.transitions()     -> UTC seconds of the offset changes to probe
model.claimed(ts)       -> whether truth is claimed at ts (tzfile: up to the last transition of the data)

and `iter_zones()` which yields (label, kind, zone object, model) for every zone kind the library can produce.
"""
import datetime as D
import io
import os
import time

from vf import tzzoo
from vf.oracles import posix_tz_ref as PZ
from vf.oracles import tzif_ref

EPOCH = D.datetime(1970, 1, 1)


def to_dt(ts):
    return EPOCH + D.timedelta(seconds=ts)


def to_ts(dt):
    return int((dt - EPOCH).total_seconds())


class FixedModel(object):
    def __init__(self, off, name):
        self.off, self.name = off, name

    def at(self, ts):
        return (self.off, self.name, False)

    raw_at = at

    def preimages(self, wall):
        return [wall - self.off]

    def transitions(self):
        return []

    def claimed(self, ts):
        return True

    def probe_range(self):
        return (to_ts(D.datetime(1950, 1, 1)), to_ts(D.datetime(2040, 1, 1)))


class TzifModel(object):
    def __init__(self, rz):
        self.rz = rz

    def at(self, ts):
        return self.rz.type_at(ts) if self.claimed(ts) else None

    def raw_at(self, ts):
        t = self.rz.type_at(ts)
        return (t[0], t[2], t[1])

    def preimages(self, wall):
        return self.rz.preimages(wall)

    def transitions(self):
        return list(self.rz.trans)

    claim_after_last = False      # synthetic version-1 data without a footer: the last type stays in force

    def claimed(self, ts):
        tr = self.rz.trans
        if not tr:
            return len(self.rz.types) == 1
        return ts < tr[-1] or self.claim_after_last

    def wall_claimed(self, wall):
        """all pre-images (real or would-be) of the wall time lie in the claimed range"""
        tr = self.rz.trans
        if not tr:
            return len(self.rz.types) == 1
        return self.claim_after_last or wall + 100000 < tr[-1] + min(t[0] for t in self.rz.types)


class PosixModel(object):
    def __init__(self, pz, years):
        self.pz, self.years = pz, years

    def at(self, ts):
        return self.pz.at(to_dt(ts))

    raw_at = at

    def preimages(self, wall):
        return [to_ts(u) for u in self.pz.preimages(to_dt(wall))]

    def transitions(self):
        out = []
        for y in self.years:
            s, e = self.pz.transitions(y)
            out += [to_ts(s), to_ts(e)]
        return sorted(out)

    def claimed(self, ts):
        return True


class FirstOnsetModel(PosixModel):
    """a VTIMEZONE whose components start in `first_year`: from the first onset on the yearly rules apply, before it the first
    STANDARD component (the property's wording) - also inside the hours just before the first onset"""
    def __init__(self, pz, years, first_year):
        PosixModel.__init__(self, pz, years)
        self.first = min(pz.transitions(first_year))            # naive UTC datetime of the first onset
        self.first_ts = to_ts(self.first)

    def at(self, ts):
        if ts < self.first_ts:
            return (self.pz.stdoff, self.pz.std, False)
        return self.pz.at(to_dt(ts))

    raw_at = at

    def preimages(self, wall):
        out = set()
        for off in {self.pz.stdoff, self.pz.dstoff}:
            u = wall - off
            if self.at(u)[0] == off:
                out.add(u)
        return sorted(out)

    def transitions(self):
        return sorted(set(PosixModel.transitions(self) + [self.first_ts]))


class NamelessModel(PosixModel):
    """the same rules, but one observance has no abbreviation (its VTIMEZONE component carries no TZNAME)"""
    def __init__(self, pz, years, nameless):
        PosixModel.__init__(self, pz, years)
        self.nameless = nameless

    def at(self, ts):
        off, name, isdst = self.pz.at(to_dt(ts))
        return (off, None if name == self.nameless else name, isdst)

    raw_at = at


def norm_type(t):
    """tzif types are (off, isdst, abbr); posix at() gives (off, abbr, isdst) -> (off, abbr, isdst)"""
    if isinstance(t[1], bool):
        return (t[0], t[2], t[1])
    return t


# ---------------------------------------------------------------------------------------------

def set_process_tz(value):
    if value is None:
        os.environ.pop('TZ', None)
    else:
        os.environ['TZ'] = value
    time.tzset()


def vtimezone_zone(tz, pz, **kw):
    text = tzzoo.vtimezone_text(pz, **kw)
    return tz.tzical(io.StringIO(text)).get()


def iter_zones(ctx, tz, relativedelta, rng, tier, with_real=True, n_posix=None, kinds=None):
    """yield (label, kind, zone, model, cleanup) - cleanup() must be called after the zone has been used
    (tzlocal zones keep the process TZ set while they are probed)."""
    want = lambda k: kinds is None or k in kinds
    nothing = lambda: None
    if want('fixed'):
        yield 'tzutc', 'fixed', tz.UTC, FixedModel(0, 'UTC'), nothing
        for name, off in (('X', 19800), (None, -37), ('SUB', 23 * 3600 + 59 * 60 + 59), ('NEG', -(23 * 3600 + 59 * 60 + 59)), ('Z0', 0),
                          ('LMT', 1172), ('Q', -16200)):
            yield 'tzoffset(%r,%d)' % (name, off), 'fixed', tz.tzoffset(name, off), FixedModel(off, name), nothing
        yield 'tzoffset-timedelta', 'fixed', tz.tzoffset('TD', D.timedelta(hours=-3, minutes=-30)), FixedModel(-12600, 'TD'), nothing
    if want('tzfile'):
        files = tzzoo.real_files() if with_real else []
        import random
        if tier == 'quick':
            sample = tzzoo.stratified_sample(files, random.Random(ctx.seed), 160)
        else:
            sample = tzzoo.stratified_sample(files, rng, len(files))
        mine = [s for k, s in enumerate(sample) if k % ctx.nshards == ctx.shard]
        for name, path, data, rz, sh in mine:
            try:
                z = tz.tzfile(path)
            except Exception as e:
                ctx.violation('load-raised', {'zone': name}, repr(e))
                continue
            for s in sh:
                ctx.count('shape_' + s)
            yield name, 'tzfile', z, TzifModel(rz), nothing
        for k, (label, data) in enumerate(tzzoo.synthetic(rng, wild=False)):
            if k % ctx.nshards != ctx.shard:
                continue
            rz = tzif_ref.RefZone(data)
            m = TzifModel(rz)
            m.data = data
            m.claim_after_last = not label.startswith('wild')
            yield 'synthetic:' + label, 'tzfile-synthetic', tz.tzfile(io.BytesIO(data), filename='synthetic-' + label), m, nothing
    n = n_posix if n_posix is not None else (16 if tier == 'quick' else 150)
    years = [2019, 2020, 2021]
    for i in range(n):
        pz = tzzoo.gen_posix(rng)
        s = PZ.render(pz, with_times=(rng.random() < .7, rng.random() < .7))
        model = PosixModel(pz, years)
        if want('tzstr'):
            try:
                yield 'tzstr(%s)' % s, 'tzstr', tz.tzstr(s), model, nothing
            except Exception as e:
                if tzzoo.subminute(pz) and isinstance(e, ValueError):
                    ctx.count('tzstr_subminute_rejected')
                else:
                    ctx.violation('tzstr-rejected', {'zone': s}, '%s: %s' % (type(e).__name__, e))
        if want('tzrange'):
            yield 'tzrange(%s)' % s, 'tzrange', tzzoo.tzrange_equivalent(tz, relativedelta, pz), model, nothing
        if want('tzical') and pz.start[0] == 'M' and pz.end[0] == 'M':
            try:
                order = rng.choice(['SD', 'DS'])
                z = vtimezone_zone(tz, pz, first_year=2000, order=order, fold_at=rng.choice([None, None, 30, 60]))
                yield 'tzical(%s)[%s]' % (s, order), 'tzical', z, FirstOnsetModel(pz, years, 2000), nothing
            except Exception as e:
                ctx.violation('tzical-rejected', {'zone': s}, '%s: %s' % (type(e).__name__, e))
        if want('tzlocal'):
            old = os.environ.get('TZ')
            set_process_tz(s)
            try:
                z = tz.tzlocal()
            except Exception as e:
                set_process_tz(old)
                ctx.violation('tzlocal-raised', {'zone': s}, repr(e))
                continue
            yield 'tzlocal(TZ=%s)' % s, 'tzlocal', z, model, (lambda old=old: set_process_tz(old))
    if want('tzical'):
        # a zone with a single observance (one STANDARD component): a fixed offset whatever the instant
        for off, name, extra in ((19800, 'IST', ''), (-12600, 'NST', 'RRULE:FREQ=YEARLY;BYMONTH=1;BYMONTHDAY=1\r\n'), (3600, 'CET', 'RDATE:19800101T000000\r\n')):
            text = ('BEGIN:VTIMEZONE\r\nTZID:Single\r\nBEGIN:STANDARD\r\nDTSTART:19700101T000000\r\n%sTZOFFSETFROM:%s\r\nTZOFFSETTO:%s\r\nTZNAME:%s\r\n'
                    'END:STANDARD\r\nEND:VTIMEZONE\r\n' % (extra, tzzoo.fmt_ical_offset(off), tzzoo.fmt_ical_offset(off), name))
            try:
                yield 'tzical(single %s)' % name, 'tzical-fixed', tz.tzical(io.StringIO(text)).get(), FixedModel(off, name), nothing
            except Exception as e:
                ctx.violation('tzical-rejected', {'zone': 'single ' + name}, '%s: %s' % (type(e).__name__, e))
        # offsets with a seconds part (+-hhmmss), both signs, always present whatever the seed draws
        for stdoff, save in ((-17762, 3600), (1172, 3600), (-(3 * 3600 + 30 * 60 + 52), 1800)):
            pz = PZ.PosixZone('LST', stdoff, 'LDT', stdoff + save, ('M', 3, 2, 0), 7200, ('M', 11, 1, 0), 7200)
            for order in ('SD', 'DS'):
                try:
                    yield ('tzical(sub-minute %d,%s)' % (stdoff, order), 'tzical', vtimezone_zone(tz, pz, first_year=2000, order=order),
                           PosixModel(pz, years), nothing)
                except Exception as e:
                    ctx.violation('tzical-rejected', {'zone': 'sub-minute %d' % stdoff}, '%s: %s' % (type(e).__name__, e))
            if want('tzrange'):
                yield 'tzrange(sub-minute %d)' % stdoff, 'tzrange', tzzoo.tzrange_equivalent(tz, relativedelta, pz), PosixModel(pz, years), nothing
        # one-off STANDARD components that move the clock forward (a gap made by a STANDARD component: Europe/Moscow 2011)
        # and back (2014); the truth model is the equivalent TZif data
        t1, t2 = to_ts(D.datetime(2011, 3, 26, 23)), to_ts(D.datetime(2014, 10, 25, 22))
        data = tzif_ref.write_tzif([t1, t2, to_ts(D.datetime(2037, 1, 1))], [1, 2, 2], [(10800, False, 'MSK'), (14400, False, 'MSK4'), (10800, False, 'MSK3')])
        text = ('BEGIN:VTIMEZONE\r\nTZID:Moscow/Like\r\n'
                'BEGIN:STANDARD\r\nDTSTART:19900101T000000\r\nTZOFFSETFROM:+0300\r\nTZOFFSETTO:+0300\r\nTZNAME:MSK\r\nEND:STANDARD\r\n'
                'BEGIN:STANDARD\r\nDTSTART:20110327T020000\r\nTZOFFSETFROM:+0300\r\nTZOFFSETTO:+0400\r\nTZNAME:MSK4\r\nEND:STANDARD\r\n'
                'BEGIN:STANDARD\r\nDTSTART:20141026T020000\r\nTZOFFSETFROM:+0400\r\nTZOFFSETTO:+0300\r\nTZNAME:MSK3\r\nEND:STANDARD\r\nEND:VTIMEZONE\r\n')
        for variant, txt in (('STANDARD', text), ('mixed', text.replace('BEGIN:STANDARD\r\nDTSTART:20141026', 'BEGIN:DAYLIGHT\r\nDTSTART:20141026')
                                                               .replace('TZNAME:MSK3\r\nEND:STANDARD', 'TZNAME:MSK3\r\nEND:DAYLIGHT'))):
            try:
                m = TzifModel(tzif_ref.RefZone(data))
                m.data = data
                if variant == 'mixed':
                    m.ignore_isdst = True
                yield 'tzical(one-off %s components)' % variant, 'tzical', tz.tzical(io.StringIO(txt)).get(), m, nothing
            except Exception as e:
                ctx.violation('tzical-rejected', {'zone': 'one-off ' + variant}, '%s: %s' % (type(e).__name__, e))
        # two set-backs in a row (daylight time ends, then the standard time itself moves west; and a standard offset
        # lowered twice): the first pass before the second onset is not a second pass of anything
        u1, u2, u3 = to_ts(D.datetime(2010, 3, 14, 7)), to_ts(D.datetime(2010, 11, 7, 6)), to_ts(D.datetime(2011, 1, 15, 7))
        data2 = tzif_ref.write_tzif([u1, u2, u3, to_ts(D.datetime(2037, 1, 1))], [1, 0, 2, 2], [(-18000, False, 'EST'), (-14400, True, 'EDT'), (-21600, False, 'CST')])
        text2 = ('BEGIN:VTIMEZONE\r\nTZID:Two/Setbacks\r\n'
                 'BEGIN:STANDARD\r\nDTSTART:19900101T000000\r\nTZOFFSETFROM:-0500\r\nTZOFFSETTO:-0500\r\nTZNAME:EST\r\nEND:STANDARD\r\n'
                 'BEGIN:DAYLIGHT\r\nDTSTART:20100314T020000\r\nTZOFFSETFROM:-0500\r\nTZOFFSETTO:-0400\r\nTZNAME:EDT\r\nEND:DAYLIGHT\r\n'
                 'BEGIN:STANDARD\r\nDTSTART:20101107T020000\r\nTZOFFSETFROM:-0400\r\nTZOFFSETTO:-0500\r\nTZNAME:EST\r\nEND:STANDARD\r\n'
                 'BEGIN:STANDARD\r\nDTSTART:20110115T020000\r\nTZOFFSETFROM:-0500\r\nTZOFFSETTO:-0600\r\nTZNAME:CST\r\nEND:STANDARD\r\nEND:VTIMEZONE\r\n')
        v1, v2 = to_ts(D.datetime(2005, 6, 1, 0)), to_ts(D.datetime(2005, 9, 1, 1))
        data3 = tzif_ref.write_tzif([v1, v2, to_ts(D.datetime(2037, 1, 1))], [1, 2, 2], [(7200, False, 'AAA'), (3600, False, 'BBB'), (0, False, 'CCC')])
        text3 = ('BEGIN:VTIMEZONE\r\nTZID:Lowered/Twice\r\n'
                 'BEGIN:STANDARD\r\nDTSTART:19900101T000000\r\nTZOFFSETFROM:+0200\r\nTZOFFSETTO:+0200\r\nTZNAME:AAA\r\nEND:STANDARD\r\n'
                 'BEGIN:STANDARD\r\nDTSTART:20050601T020000\r\nTZOFFSETFROM:+0200\r\nTZOFFSETTO:+0100\r\nTZNAME:BBB\r\nEND:STANDARD\r\n'
                 'BEGIN:STANDARD\r\nDTSTART:20050901T020000\r\nTZOFFSETFROM:+0100\r\nTZOFFSETTO:+0000\r\nTZNAME:CCC\r\nEND:STANDARD\r\nEND:VTIMEZONE\r\n')
        for label, txt, dat in (('two set-backs', text2, data2), ('offset lowered twice', text3, data3)):
            try:
                m = TzifModel(tzif_ref.RefZone(dat))
                m.data = dat
                yield 'tzical(%s)' % label, 'tzical', tz.tzical(io.StringIO(txt)).get(), m, nothing
            except Exception as e:
                ctx.violation('tzical-rejected', {'zone': label}, '%s: %s' % (type(e).__name__, e))
        # TZNAME is optional per component: a component without it has no abbreviation (and must not inherit one)
        for nameless in ('EST', 'EDT'):
            for order in ('SD', 'DS'):
                pz = PZ.PosixZone('EST', -18000, 'EDT', -14400, ('M', 3, 2, 0), 7200, ('M', 11, 1, 0), 7200)
                try:
                    text = tzzoo.vtimezone_text(pz, first_year=2000, order=order).replace('TZNAME:%s\r\n' % nameless, '')
                    z = tz.tzical(io.StringIO(text)).get()
                    yield 'tzical(no TZNAME for %s,%s)' % (nameless, order), 'tzical', z, NamelessModel(pz, years, nameless), nothing
                except Exception as e:
                    ctx.violation('tzical-rejected', {'zone': 'no TZNAME for %s' % nameless}, '%s: %s' % (type(e).__name__, e))
    if want('tzlocal'):
        for s, off, name in (('UTC', 0, 'UTC'), ('XYZ-5:30', 19800, 'XYZ'), ('EST5', -18000, 'EST')):
            old = os.environ.get('TZ')
            set_process_tz(s)
            yield 'tzlocal(TZ=%s)' % s, 'tzlocal-fixed', tz.tzlocal(), FixedModel(off, name), (lambda old=old: set_process_tz(old))
    if want('tzstr'):
        for s, off, name in (('EST5', -18000, 'EST'), ('XYZ-5:30', 19800, 'XYZ'), ('UTC0', 0, 'UTC'), ('GMT+3', 10800, 'GMT'), ('UTC-3', -10800, 'UTC')):
            yield 'tzstr(%s)' % s, 'tzstr-fixed', tz.tzstr(s), FixedModel(off, name), nothing
