"""C08 - tzstr, tzrange and tzlocal implement POSIX TZ rule semantics."""
import datetime as D
import os
import time

from vf import tzmodels as TM, tzzoo
from vf.oracles import posix_tz_ref as PZ

PROPERTY = 'C08'
LEVEL = 'exploration'
RULE = ('Random POSIX rule triples: start / end in {Mm.w.d (w 1..5, d 0..6), Jn, n} at least a month apart and away from the year '
        'boundary, either hemisphere order, standard offsets incl. :30 / :45 and +-12 h, savings 30 m / 1 h / 2 h, explicit or '
        'default daylight offset, transition times 0:00 .. 24:00 incl. 0:01 and 2:01:01, optional "/time".  For each triple the '
        'tzstr built from the rendered string, the tzrange built from the documented relativedelta recipe and tzlocal under '
        'TZ=<string> (tzset around the probes) are compared with the independent POSIX evaluator at every transition of three '
        'years (incl. a leap year) +- {1 s, 30 m, 1 h, 2 h, 1 d} and on a 7-hour grid: offset, abbreviation, DST flag, and the '
        'UTC <-> wall conversion.  The evaluator itself is compared with glibc (time.localtime under the same TZ) on the same '
        'instants; a disagreement between the two oracles makes the run inconclusive.  Also: rule-less strings are fixed '
        'offsets; "GMT+h" / "UTC-h" mean h hours ahead / behind unless posix_offset=True; malformed strings (unknown '
        'characters, missing or surplus rule fields) must raise ValueError and nothing else.  Non-trivial = instant within 2 h '
        'of a transition; distinct = (zone kind, rule-form pair, hemisphere, saving, time class, probe offset).'
        ' Directed triples every run: day numbers around 29 February and the month ends in J / n form, week 5, daylight time exactly UTC, 30 m / 2 h savings with hh:mm:ss rule times; strings with hh:mm:ss offsets may be rejected by tzstr with ValueError (outside the quantifier) but never misread.')
ASSUMPTIONS = ['vf/oracles/posix_tz_ref.py is POSIX.1 TZ semantics; glibc is the second opinion',
               'a string without rule ("EST5EDT") uses dateutil\'s documented default rule and is not compared with glibc',
               'known finding K3: M-form rules whose standard-time-of-day falls outside [0, 24 h) (classified on the rule triple)']
MANIFEST = {
    'technique': 'runtime differential monitor: tzstr / tzrange / tzlocal vs an independent POSIX TZ evaluator cross-checked against glibc, probing every yearly transition; malformed-string fuzzing for the ValueError contract; plus the same conversions through shared tzstr / tzrange / tzlocal objects from four free-running threads with injected yields (sys.monitoring), compared with the single-threaded outcomes',
    'level_text': 'Hundreds of random rule triples per run, each evaluated by the three real zone classes on every transition '
                  'neighbourhood of three years, against a POSIX evaluator that is itself validated against the C library in '
                  'the same run.  Exploration level; K3 classified by mechanism.',
    'level_note': 'Trusts the POSIX evaluator + glibc agreement, CPython datetime; tzlocal is driven through tzset in-process.',
}
PLAN = {'quick': {'shards': 4, 'timeout': 1800, 'budget': 900},
        'thorough': {'shards': 16, 'timeout': 7200, 'budget': 2400}}
N_TRIPLES = {'quick': 40, 'thorough': 600}
YEARS = (2019, 2020, 2021)
DELTAS = (-86400, -7200, -3600, -1800, -1, 0, 1, 1799, 1800, 3599, 3600, 7199, 7200, 86400)


def instants(pz):
    out = []
    for y in YEARS:
        s, e = pz.transitions(y)
        for t in (s, e):
            for d in DELTAS:
                out.append((t + D.timedelta(seconds=d), d))
        u = D.datetime(y, 1, 1)
        while u.year == y:
            out.append((u, 'grid'))
            u += D.timedelta(hours=7 * 24 + 7)
    return out


def glibc_at(u):
    ts = int((u - TM.EPOCH).total_seconds())
    lt = time.localtime(ts)
    return (lt.tm_gmtoff, lt.tm_zone, bool(lt.tm_isdst))


def check_zone(ctx, tz, label, kind, z, pz, classify_k3):
    UTC = tz.UTC
    nbad = 0
    for u, d in instants(pz):
        exp = pz.at(u)
        ctx.ev()
        case = {'zone': label, 'kind': kind, 'utc': u.isoformat(), 'delta': d}
        try:
            l = u.replace(tzinfo=UTC).astimezone(z)
            got = (int((l.replace(tzinfo=None) - u).total_seconds()), int(l.utcoffset().total_seconds()), l.tzname(), bool(l.dst()))
            back = l.astimezone(UTC).replace(tzinfo=None)
        except Exception as e:
            ctx.violation('conversion-raised', case, '%s: %s' % (type(e).__name__, e))
            continue
        bad = []
        if got[0] != exp[0]:
            bad.append('converted with %d s, POSIX says %d s' % (got[0], exp[0]))
        elif got[1] != exp[0] or got[2] != exp[1] or got[3] != exp[2]:
            bad.append('reports (%d, %r, dst=%r), POSIX says %r' % (got[1], got[2], got[3], exp))
        elif back != u:
            bad.append('back-conversion gives %s' % back.isoformat())
        if bad:
            if classify_k3 and tzzoo.k3_explains(pz, u) and got[1] in (pz.stdoff, pz.dstoff):
                ctx.known_finding('K3', '%s at %s: %s' % (label, u.isoformat(), bad[0]), case)
                continue
            nbad += 1
            if nbad <= 2:
                ctx.violation('posix-semantics', case, '; '.join(bad))
        if d != 'grid' and abs(d) <= 7200:
            ctx.distinct('%s|%s%s|%s|%d|%s|%s' % (kind, pz.start[0], pz.end[0], 'N' if pz.transitions(2020)[0] < pz.transitions(2020)[1] else 'S',
                                                 pz.dstoff - pz.stdoff, (pz.stime, pz.etime), d))
    ctx.count('zones_' + kind)


def oracle_vs_glibc(ctx, s, pz):
    """the POSIX evaluator against the C library under TZ=s; -> True when they agree on every probed instant"""
    ok = True
    for u, d in instants(pz):
        g = glibc_at(u)
        e = pz.at(u)
        ctx.count('oracle_vs_glibc_comparisons')
        if g != e:
            ok = False
            ctx.count('oracle_vs_glibc_disagreements')
            ctx.note('oracle_disagreement_example', {'tz': s, 'utc': u.isoformat(), 'glibc': list(g), 'model': list(e)})
    return ok


def directed_triples():
    """day numbers around 29 February and the month ends in both numbering forms, week 5 = last, daylight time exactly
    UTC, half-hour and two-hour savings, rule times with minutes and seconds, both hemisphere orders"""
    out = []
    autumn = ('M', 10, 5, 0)
    for form, n in (('N', 58), ('N', 59), ('N', 60), ('J', 59), ('J', 60), ('J', 61), ('N', 89), ('J', 90), ('J', 120), ('N', 119)):
        out.append(PZ.PosixZone('EST', -18000, 'EDT', -14400, (form, n), 7200, autumn, 7200))
        out.append(PZ.PosixZone('AEST', 36000, 'AEDT', 39600, autumn, 7200, (form, n), 10800))
    for save, stdoff in ((1800, 37800), (7200, 0), (3600, -3600), (7200, -7200), (1800, -1800)):
        out.append(PZ.PosixZone('XST', stdoff, 'XDT', stdoff + save, ('M', 3, 5, 0), 9015, ('M', 10, 5, 6), 11159))
        out.append(PZ.PosixZone('XST', stdoff, 'XDT', stdoff + save, ('M', 9, 1, 3), 60, ('M', 4, 1, 0), 10800))
    return out


MALFORMED_EDITS = [
    lambda s: s + ':00:00:00' if '/' in s.rsplit(',', 1)[-1] else s + '/2:00:00:00', lambda s: s + 'x', lambda s: s + ',', lambda s: s + ',M1.1.1', lambda s: s.rsplit(',', 1)[0] if ',' in s else s + ',,',
    lambda s: s.replace(',M', ',Q', 1), lambda s: s.replace('.', ';', 1), lambda s: s + '/2/3', lambda s: s.replace(',', ',,', 1),
    lambda s: s + ' ', lambda s: '5' + s if False else s + '!', lambda s: s.replace('/', '//', 1) if '/' in s else s + '/',
    lambda s: s.rsplit('.', 1)[0] if '.' in s.rsplit(',', 1)[-1] else s + ',M3', lambda s: s + ',M11.1.0,M3.2.0', lambda s: s.replace(',', ',#', 1),
]
MALFORMED_FIXED = [
                   # rule times that are digit runs of a width no form has (h, hh, hhmm are the only ones), for every rule kind
                   'EST5EDT,M3.2.0/200,M11.1.0', 'EST5EDT,M3.2.0/2,M11.1.0/12345', 'AEST-10AEDT,J280/2,J95/030000', 'EST5EDT,60/020,300', 'EST5EDT,M3.2.0/2,M11.1.0/0200000',
                   # rule fields written with decimal digits that are not ASCII
                   u'EST5EDT,M\u0663.2.0,M11.1.0', u'EST5EDT,M3.\uff12.0/2,M11.1.0/2', u'AEST-10AEDT,J\u0662\u0668\u0660,J95', u'EST5EDT,M3.2.0/\u0662,M11.1.0',
                   u'EST5EDT,M3.2.\u0660,M11.1.0', u'EST5EDT,\u0666\u0660,300',
                   ',', 'EST5EDT,', 'EST5EDT,M3.2.0', 'EST5EDT,M3', 'EST5EDT,M3.2', 'EST5EDT,M3.2.0,', 'EST5EDT,M3.2.0,M11', 'EST5EDT,J,J',
                   'EST5EDT,M3.2.0/2,M11.1.0/2,M1.1.1', 'EST5EDT,3,4,5', 'EST5EDT,Mx.y.z,M11.1.0', '5EST', '5', ':5', 'EST5EDT,M3.2.0/2;M11.1.0/2x',
                   'EST5EDT,M3.2.0/2,M11.1.0/2 trailing', 'EST5EDT4,M3.2.0/,M11.1.0', 'EST+', 'EST5EDT,M3.2.0/2,M11.1.0/2,',
                   # the comma-separated numeric form with a field missing / in surplus
                   'EST5EDT,4,1,0,7200,10,-1,0', 'EST5EDT,4,1,0,7200,10,-1', 'EST5EDT,4,1,0,7200,10', 'EST5EDT,4,1,0,7200,10,-1,0,7200,3600,5',
                   'EST5EDT,M3.2.0/2:00:00:00,M11.1.0', 'EST5EDT4,J60/2:30:15:45,J300', 'EST5EDT,M3.2.0/2:00:00:00:00,M11.1.0/2', 'EST5:00:00:00EDT,M3.2.0,M11.1.0',
                   'EST5EDT,M3.2.0/2:,M11.1.0', 'EST5EDT,M3.2.0/:30,M11.1.0', 'EST5EDT,M3.2.0/2:30:,M11.1.0', 'EST5EDT,M3.2.0/2::30,M11.1.0',
                   'EST5EDT,4,1,0,7200,10,-1,0,7200,3600,', 'EST5EDT,J60,J300,J310', 'EST5EDT,60,300,7200', 'EST5EDT,M3.2.0.1,M11.1.0', 'EST5EDT,M3.2.0,M11.1']


def check_malformed(ctx, tz, rng, valid):
    texts = list(MALFORMED_FIXED)
    for s in valid:
        for _ in range(3):
            texts.append(rng.choice(MALFORMED_EDITS)(s))
    for t in texts:
        if t in valid:
            continue
        ctx.ev()
        ctx.count('malformed_strings')
        ctx.distinct('malformed|' + t[:50])
        try:
            z = tz.tzstr(t)
        except ValueError:
            ctx.count('malformed_rejected_valueerror')
            continue
        except Exception as e:
            ctx.violation('malformed-wrong-exception', {'string': t}, '%s: %s' % (type(e).__name__, e))
            continue
        # accepted: only a violation when the string is unmistakably malformed (edits of a valid rule string always are)
        ctx.violation('malformed-accepted', {'string': t}, 'tzstr(%r) accepted -> %r (offsets %r / %r)' % (t, z, z.utcoffset(D.datetime(2020, 1, 1)), z.utcoffset(D.datetime(2020, 7, 1))))


def check_fixed(ctx, tz):
    cases = [('EST5', -18000, 'EST', {}), ('XYZ-5:30', 19800, 'XYZ', {}), ('AAA-0545', 20700, 'AAA', {}), ('ABC12', -43200, 'ABC', {}),
             ('GMT+3', 10800, 'GMT', {}), ('GMT-3', -10800, 'GMT', {}), ('UTC+5:30', 19800, 'UTC', {}), ('UTC-1', -3600, 'UTC', {}),
             ('GMT+3', -10800, 'GMT', {'posix_offset': True}), ('UTC-5:30', 19800, 'UTC', {'posix_offset': True}),
             ('EST+5', -18000, 'EST', {}), ('EST-5', 18000, 'EST', {}), ('UTC0', 0, 'UTC', {}), ('GMT0', 0, 'GMT', {})]
    for s, off, name, kw in cases:
        ctx.ev()
        ctx.count('fixed_offset_strings')
        ctx.distinct('fixed|%s|%s' % (s, sorted(kw)))
        case = {'string': s, 'options': kw}
        try:
            z = tz.tzstr(s, **kw)
            answers = set()
            for m in (1, 4, 7, 10):
                dt = D.datetime(2020, m, 15, 12, tzinfo=z)
                answers.add((int(dt.utcoffset().total_seconds()), dt.tzname(), bool(dt.dst())))
        except Exception as e:
            ctx.violation('fixed-offset-raised', case, '%s: %s' % (type(e).__name__, e))
            continue
        if answers != {(off, name, False)}:
            ctx.violation('fixed-offset', case, 'answers %r, expected always (%d, %r, False)' % (sorted(answers), off, name))
    # bare designators and the empty string (GNU: "UTC"): a zone at offset zero or ValueError, never another exception type
    for s in ('UTC', 'GMT', 'EST', ''):
        ctx.ev()
        try:
            z = tz.tzstr(s)
            if z.utcoffset(D.datetime(2020, 1, 1)) != D.timedelta(0):
                ctx.violation('bare-designator', {'string': s}, 'offset %r' % z.utcoffset(D.datetime(2020, 1, 1)))
        except ValueError:
            pass
        except Exception as e:
            ctx.violation('malformed-wrong-exception', {'string': s}, '%s: %s' % (type(e).__name__, e))


def check_gmt_named_rule_zones(ctx, tz):
    """'GMT+h' / 'UTC-h' followed by a daylight part: the h hours ahead / behind reading applies to the whole zone
    (standard offset, default daylight offset = standard + 1 h, rule times), and posix_offset=True flips all of it"""
    for s, std, stdoff, dst, dstoff, kw in (('UTC+3XDT,M3.2.0,M11.1.0', 'UTC', 10800, 'XDT', 14400, {}),
                                            ('GMT-5EDT,M3.2.0/2,M11.1.0/2', 'GMT', -18000, 'EDT', -14400, {}),
                                            ('UTC+3XDT,M3.2.0,M11.1.0', 'UTC', -10800, 'XDT', -7200, {'posix_offset': True}),
                                            ('GMT+1BST,M10.1.0,M3.5.0/3', 'GMT', 3600, 'BST', 7200, {})):
        pz = PZ.PosixZone(std, stdoff, dst, dstoff, ('M', 3, 2, 0) if 'M3.2.0' in s and 'M10' not in s else ('M', 10, 1, 0), 7200,
                          ('M', 11, 1, 0) if 'M11' in s else ('M', 3, 5, 0), 7200 if 'M11' in s else 10800)
        ctx.count('gmt_named_rule_zones')
        try:
            z = tz.tzstr(s, **kw)
        except Exception as e:
            ctx.violation('tzstr-rejected', {'zone': s, 'options': kw}, '%s: %s' % (type(e).__name__, e))
            continue
        check_zone(ctx, tz, 'tzstr(%s%s)' % (s, ', posix_offset=True' if kw else ''), 'tzstr', z, pz, classify_k3=False)


def check_tzrange_offset_types(ctx, tz, relativedelta):
    """tzrange takes its offsets as seconds or as timedeltas, in any mixture: the zone is the same"""
    pz = PZ.PosixZone('AAA', 10800, 'BBB', 18000, ('M', 3, 2, 0), 7200, ('M', 11, 1, 0), 7200)
    ref = tzzoo.tzrange_equivalent(tz, relativedelta, pz)
    td = D.timedelta
    for label, so, do in (('int,timedelta', 10800, td(hours=5)), ('timedelta,int', td(hours=3), 18000), ('timedelta,timedelta', td(hours=3), td(hours=5)),
                          ('float,float', 10800.0, 18000.0), ('int,int', 10800, 18000)):
        ctx.ev()
        ctx.count('tzrange_offset_type_mixes')
        ctx.distinct('tzrange-types|' + label)
        try:
            z = tz.tzrange('AAA', so, 'BBB', do, start=ref._start_delta, end=ref._end_delta)
        except Exception as e:
            ctx.violation('tzrange-rejected', {'offset_types': label}, '%s: %s' % (type(e).__name__, e))
            continue
        check_zone(ctx, tz, 'tzrange(offsets as %s)' % label, 'tzrange', z, pz, classify_k3=False)


def run(ctx):
    from dateutil import relativedelta, tz
    if not PZ.selftest():
        ctx.inconclusive_because('POSIX evaluator self-test failed')
        return
    hits = {}
    unhook = tzzoo.install_hit_counters(hits)
    rng = ctx.rng
    valid = []
    old = os.environ.get('TZ')
    try:
        directed = directed_triples()
        for i in range(-len(directed), N_TRIPLES[ctx.tier]):
            if i % 5 == 0 and not ctx.time_left():
                ctx.count('stopped_by_time_budget')
                break
            if i < 0:
                # boundary rules that every run must see, whatever the seed draws (sharded)
                if (-i) % ctx.nshards != ctx.shard:
                    continue
                pz = directed[-i - 1]
                s = PZ.render(pz, with_times=(True, True))
                ctx.count('directed_triples')
            else:
                k3dom = 'force' if i % 8 == 5 else rng.random() < .25
                pz = tzzoo.gen_posix(rng, k3_domain=k3dom)
                s = PZ.render(pz, with_times=(rng.random() < .7, rng.random() < .7))
            valid.append(s)
            # oracle validation first
            TM.set_process_tz(s)
            try:
                agree = oracle_vs_glibc(ctx, s, pz)
                if not agree:
                    ctx.inconclusive_because('POSIX evaluator and glibc disagree for TZ=%s' % s)
                    continue
                zl = tz.tzlocal()
                check_zone(ctx, tz, 'tzlocal(TZ=%s)' % s, 'tzlocal', zl, pz, classify_k3=False)
            finally:
                TM.set_process_tz(old)
            try:
                zs = tz.tzstr(s)
            except Exception as e:
                if tzzoo.subminute(pz) and isinstance(e, ValueError):
                    ctx.count('tzstr_subminute_rejected')
                    zs = None
                else:
                    ctx.violation('tzstr-rejected', {'zone': s}, '%s: %s' % (type(e).__name__, e))
                    continue
            if zs is not None:
                check_zone(ctx, tz, 'tzstr(%s)' % s, 'tzstr', zs, pz, classify_k3=True)
            if tzzoo.k3_applies(pz):
                ctx.count('k3_domain_triples')
            else:
                check_zone(ctx, tz, 'tzrange(%s)' % s, 'tzrange', tzzoo.tzrange_equivalent(tz, relativedelta, pz), pz, classify_k3=False)
                g = tz.gettz(s) if zs is not None else None
                ctx.ev()
                if zs is not None and not (isinstance(g, tz.tzstr) and g == zs):
                    ctx.violation('gettz-tzstr', {'zone': s}, 'gettz(%r) gave %r' % (s, g))
            if i % 10 == 0:
                ctx.sample({'tz_string': s, 'transitions_2020_utc': [t.isoformat() for t in pz.transitions(2020)]})
        check_fixed(ctx, tz)
        check_gmt_named_rule_zones(ctx, tz)
        check_tzrange_offset_types(ctx, tz, relativedelta)
        check_malformed(ctx, tz, rng, valid[:40])
        for k, v in hits.items():
            ctx.hit(k, v)
    finally:
        TM.set_process_tz(old)
        unhook()
    if ctx.shard == 0:
        # the shared zone objects the factories hand out are used by every thread of a process: conversions in different
        # years through one tzstr / tzrange / tzlocal object, from four free-running threads (outcomes compared with the
        # single-threaded ones, judged against the POSIX evaluator above)
        from vf import concurrent as CC
        TM.set_process_tz('EST5EDT,M3.2.0,M11.1.0')
        try:
            shared = [tz.tzstr('EST5EDT,M3.2.0,M11.1.0'), tz.tzstr('AEST-10AEDT,M10.1.0,M4.1.0/3'), tz.tzstr('CET-1CEST,M3.5.0,M10.5.0/3'),
                      tz.tzrange('EST', -18000, 'EDT'), tz.tzrange('AAA', 3600, 'BBB', 9000), tz.tzlocal()]
            pool = []
            for zi in range(len(shared)):
                for y in range(1990, 2030, 3):
                    for mth, day, h in ((1, 15, 12), (7, 1, 12), (3, 12, 7), (3, 29, 1), (10, 5, 16), (11, 2, 6), (4, 4, 16)):
                        pool.append((zi, D.datetime(y, mth, day, h, 30, tzinfo=tz.UTC)))

            def conv(a):
                loc = a[1].astimezone(shared[a[0]])
                return (loc.replace(tzinfo=None), loc.fold, loc.utcoffset(), loc.tzname(), loc.dst())
            # ... and TZ strings parsed from several threads at once (the fresh-instance constructor takes no lock): a valid
            # string gives its zone, a malformed one its ValueError, whatever other strings are being parsed
            specs = ['EST5EDT,M3.2.0/2,M11.1.0/2', 'UTC', 'EST5EDT,M3.2.0', 'AEST-10AEDT,M10.1.0,M4.1.0/3', 'CET-1CEST,M3.5.0,M10.5.0/3', 'EST5EDT,M3.2.0/2,M11.1.0/2,M1.1.1',
                     'XYZ-5:30', 'GMT+3', 'EST5EDT4,J60/2,J300', 'EST5EDT,', 'LHST-10:30LHDT-11,M10.1.0,M4.1.0', 'EST5EDT,4,1,0,7200,10,-1,0,7200,3600']

            def build(sp):
                z = tz.tzstr.instance(sp)
                return (z._std_abbr, z._std_offset, z._dst_abbr, z._dst_offset, z.hasdst, repr(getattr(z, '_start_delta', None)), repr(getattr(z, '_end_delta', None)))
            CC.concurrent_pure(ctx, 'tzstr_parses', ['dateutil.parser._parser'], build, specs, 10 if ctx.tier == 'quick' else 100, per_thread=25, prob=.25)
            CC.concurrent_pure(ctx, 'conversions', ['dateutil.tz.tz', 'dateutil.tz._common', 'dateutil.relativedelta'], conv, pool,
                               10 if ctx.tier == 'quick' else 150, per_thread=40, prob=.2,
                               render=lambda a: '%r -> zone %r' % (a[1].isoformat(), shared[a[0]]))
        finally:
            TM.set_process_tz(old)


def floors(agg, tier):
    c, h, out = agg['counters'], agg['hits'], []
    from vf import concurrent as CC
    CC.floor(c, 'conversions', 1200, 1000, out)
    CC.floor(c, 'tzstr_parses', 800, 1000, out)
    n = 100 if tier == 'quick' else 1500
    for k, m in (('zones_tzstr', n), ('zones_tzlocal', n), ('zones_tzrange', n // 2), ('k3_domain_triples', 3), ('fixed_offset_strings', 40),
                 ('malformed_strings', 200), ('malformed_rejected_valueerror', 150), ('oracle_vs_glibc_comparisons', 30000)):
        if c.get(k, 0) < m:
            out.append('%s only %d (< %d)' % (k, c.get(k, 0), m))
    if c.get('oracle_vs_glibc_disagreements', 0):
        out.append('POSIX evaluator and glibc disagreed %d times' % c['oracle_vs_glibc_disagreements'])
    for k in ('tzrangebase.utcoffset', 'tzrangebase.fromutc', 'tzlocal.utcoffset', 'tzlocal.tzname'):
        if h.get(k, 0) < 1000:
            out.append('monitored %s reached only %d times' % (k, h.get(k, 0)))
    return out


def replay(ctx, case):
    from dateutil import tz
    if 'string' in case:
        try:
            z = tz.tzstr(case['string'], **case.get('options', {}))
            ctx.note('result', repr(z))
        except ValueError:
            ctx.note('result', 'ValueError')
        except Exception as e:
            ctx.violation('malformed-wrong-exception', case, repr(e))
    else:
        ctx.note('replay', 're-run the check with the recorded seed; zone %r' % case.get('zone'))
