"""C19 - easter() returns the canonical Easter Sunday for each method (exhaustive sweep)."""
import datetime

from vf.oracles import easter_ref as E

PROPERTY = 'C19'
LEVEL = 'exploration'
EXHAUSTIVE = True
RULE = ('Every (year, method) pair of the documented validity range is executed: years 1583..4099 for '
        'methods 2 (orthodox) and 3 (western), 326..9999 for method 1 (julian); every call is compared '
        'with an independent oracle (Meeus/Jones/Butcher, Meeus Julian + Julian-day-number conversion), '
        'plus weekday / 22 Mar..25 Apr window checks, positional/keyword/default-method call forms, and a '
        'sweep of invalid method values that must raise ValueError.  Distinct non-trivial case = one '
        '(year, method) pair whose oracle value was computed and compared (each is a different input).')
ASSUMPTIONS = ['datetime.date arithmetic of CPython', 'the two independent oracle pairs in vf/oracles/easter_ref.py '
               '(checked against each other in the same run)']
MANIFEST = {
    'technique': 'runtime differential monitor: exhaustive sweep of easter() against independent computus oracles; plus the same easter() calls from four free-running threads with injected yields (sys.monitoring), compared with the single-threaded outcomes',
    'level_text': 'Exhaustive execution of the real easter() over the whole documented domain (every year x method) '
                  'with an independent oracle comparing every result; the domain is finite and small, so the sweep '
                  'is complete on every run (exhaustive: true) rather than sampled.',
    'level_note': 'Trusts CPython date arithmetic and the oracle pairs (Butcher vs Knuth, Meeus-Julian vs tabular '
                  'definition) which are cross-checked in every run; an oracle disagreement makes the run inconclusive.',
}
PLAN = {'quick': {'shards': 1, 'timeout': 1800}, 'thorough': {'shards': 1, 'timeout': 7200}}

INVALID_METHODS = [0, 4, -1, -3, 5, 7, 100, -100, 2 ** 31, 2 ** 64]


def check_one(ctx, easter, y, method):
    case = {'year': y, 'method': method}
    try:
        got = easter(y, method)
    except Exception as e:  # any exception inside the validity range is a violation
        ctx.violation('raised', case, '%s: %s' % (type(e).__name__, e))
        return
    ctx.ev()
    ctx.distinct('%d/%d' % (y, method))
    if type(got) is not datetime.date:
        ctx.violation('type', case, 'returned %r' % (got,))
        return
    if method == 3:
        m, d = E.western(y)
        exp = datetime.date(y, m, d)
        if got != exp:
            ctx.violation('western-mismatch', case, 'got %s expected %s' % (got, exp))
        elif got.weekday() != 6 or not (datetime.date(y, 3, 22) <= got <= datetime.date(y, 4, 25)):
            ctx.violation('western-not-sunday-in-window', case, str(got))
    elif method == 1:
        m, d = E.julian(y)
        exp = datetime.date(y, m, d)      # same (y, m, d) numbers, read in the Julian calendar
        if got != exp:
            ctx.violation('julian-mismatch', case, 'got %s expected %s' % (got, exp))
        else:
            j = E.jdn_from_julian(y, got.month, got.day)
            if E.weekday_from_jdn(j) != 6 or not ((3, 22) <= (got.month, got.day) <= (4, 25)):
                ctx.violation('julian-not-sunday-in-window', case, str(got))
    else:
        exp = datetime.date(*E.orthodox_gregorian(y))
        if got != exp:
            ctx.violation('orthodox-mismatch', case, 'got %s expected %s' % (got, exp))
        elif got.weekday() != 6:
            ctx.violation('orthodox-not-sunday', case, str(got))


def run(ctx):
    from dateutil import easter as mod
    easter = mod.easter
    if not E.selftest():
        ctx.inconclusive_because('oracle self-test failed')
        return
    ctx.count('oracle_selftest_ok')
    if (mod.EASTER_JULIAN, mod.EASTER_ORTHODOX, mod.EASTER_WESTERN) != (1, 2, 3):
        ctx.violation('constants', {'constants': [mod.EASTER_JULIAN, mod.EASTER_ORTHODOX, mod.EASTER_WESTERN]},
                      'method constants are not 1, 2, 3')
    for y in range(1583, 4100):
        check_one(ctx, easter, y, 3)
        check_one(ctx, easter, y, 2)
        ctx.count('years_method3')
        ctx.count('years_method2')
    for y in range(326, 10000):
        check_one(ctx, easter, y, 1)
        ctx.count('years_method1')
    # call forms: default method is western; keyword and constant spellings agree
    for y in range(1583, 4100):
        ctx.ev()
        a = easter(y)
        b = easter(y, method=mod.EASTER_WESTERN)
        c = easter(year=y, method=3)
        if not (a == b == c == datetime.date(y, *E.western(y))):
            ctx.violation('call-form', {'year': y}, 'default/keyword forms disagree: %s %s %s' % (a, b, c))
        ctx.count('call_forms')
    # invalid methods
    for meth in INVALID_METHODS:
        for y in (326, 1583, 2000, 2024, 4099, 9999):
            ctx.ev()
            ctx.count('invalid_method_calls')
            case = {'year': y, 'method': meth}
            try:
                r = easter(y, meth)
            except ValueError:
                continue
            except Exception as e:
                ctx.violation('invalid-method-wrong-exception', case, '%s: %s' % (type(e).__name__, e))
            else:
                ctx.violation('invalid-method-accepted', case, 'returned %r' % (r,))
    # the same values from four threads at once
    from vf import concurrent as CC
    pool = [(y, m) for y in range(1583, 4100, 7) for m in (1, 2, 3)] + [(y, 0) for y in (1999, 2000)]
    CC.concurrent_pure(ctx, 'easter', [mod], lambda a: easter(a[0], a[1]), pool, 12 if ctx.tier == 'quick' else 100)
    ctx.sample({'year': 2024, 'method': 3, 'result': str(easter(2024, 3))})
    ctx.sample({'year': 2024, 'method': 2, 'result': str(easter(2024, 2))})
    ctx.sample({'year': 326, 'method': 1, 'result': str(easter(326, 1))})
    ctx.sample({'year': 4099, 'method': 2, 'result': str(easter(4099, 2))})
    ctx.sample({'year': 2000, 'method': 0, 'result': 'ValueError expected'})


def floors(agg, tier):
    c = agg['counters']
    out = []
    if c.get('years_method3') != 2517 or c.get('years_method2') != 2517 or c.get('years_method1') != 9674:
        out.append('sweep incomplete: %r' % dict(c))
    if len(agg['distinct']) != 2517 * 2 + 9674:
        out.append('distinct pairs %d != %d' % (len(agg['distinct']), 2517 * 2 + 9674))
    if c.get('invalid_method_calls', 0) < len(INVALID_METHODS) * 6:
        out.append('invalid-method sweep incomplete')
    from vf import concurrent as CC
    CC.floor(c, 'easter', 1500, 1000, out)
    return out


def replay(ctx, case):
    from dateutil import easter as mod
    if 'method' in case and 1 <= case['method'] <= 3:
        check_one(ctx, mod.easter, case['year'], case['method'])
    else:
        try:
            r = mod.easter(case['year'], case.get('method', 3))
        except ValueError:
            return
        except Exception as e:
            ctx.violation('invalid-method-wrong-exception', case, repr(e))
        else:
            ctx.violation('invalid-method-accepted', case, repr(r))
