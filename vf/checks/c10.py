"""C10 - rruleset is the ordered set (rrules U rdates) minus (exrules U exdates), for any add/iterate history."""
import datetime as D
import itertools

from vf import rr_util as U

PROPERTY = 'C10'
LEVEL = 'exploration'
RULE = ('Seeded histories of 3-14 operations on one rruleset (cache on/off): member additions rrule / rdate / exrule / exdate '
        '(0-4 finite rules and 0-6 dates per role, drawn from a shared start grid so that occurrences of different members '
        'coincide, exclusions exhaust early or never match, three or more sources end in every order), full iteration, '
        'partial iteration (islice), resuming a live iterator created before a later addition, and the queries count / [] / in / '
        'after / before / between.  Model = four Python lists updated at each addition; expected sequence = sorted((U list(rule) '
        'of inclusion rules U rdates) - (U list(rule) of exclusion rules U exdates)) of the members present at that moment.  '
        'After EVERY operation the model is compared with a fresh full iteration and the operation\'s own answer; outputs must be '
        'strictly increasing.  The output of an iterator that was created before a later addition is not judged (unspecified), '
        'only its effect on later iterations and queries is.  Non-trivial = the history has an addition after a partial/full '
        'iteration, or >= 2 members with coinciding instants; distinct = (cache flag, operation-kind sequence).'
        ' Stale-iterator sweep: lengths 9/10/11/20 x position of an iterator opened before a modification x kind of modification x position of a newer iterator, then the old one is drained.')
ASSUMPTIONS = ['member rules are finite and listed through their own iteration (C01)', 'Python set/sorted as the set-algebra model']
MANIFEST = {
    'technique': 'runtime history checker: random add/iterate/query histories on the real rruleset vs an executable set-algebra model updated per event',
    'level_text': 'Thousands of seeded operation histories per run against a four-list model, with colliding members and live '
                  'iterators across mutations, cache on and off.  Exploration: held on the histories observed.',
    'level_note': 'Trusts Python sets/sorting as the model and the member rules\' own listing.',
}
PLAN = {'quick': {'shards': 4, 'timeout': 1800, 'budget': 900},
        'thorough': {'shards': 16, 'timeout': 7200, 'budget': 2400}}
N_CASES = {'quick': 700, 'thorough': 9000}
MUTATORS = ('rrule', 'rdate', 'exrule', 'exdate')


def rnd_date(rng):
    # explicit dates may carry a fraction of a second (rule occurrences never do): 9:00:00.25 is neither 9:00:00 nor excluded by it
    return U.BASE + D.timedelta(days=rng.randrange(25), hours=rng.choice([0, 0, 12, 1]), microseconds=rng.choice([0, 0, 0, 250000, 999999]))


def model_list(m):
    inc = set(m['rdate'])
    for r in m['rrule']:
        inc |= set(r)
    exc = set(m['exdate'])
    for r in m['exrule']:
        exc |= set(r)
    return sorted(inc - exc)


def strictly_increasing(seq):
    return all(a < b for a, b in zip(seq, seq[1:]))


def outcome(f):
    try:
        return ('ok', f())
    except IndexError:
        return ('IndexError',)
    except Exception as e:
        return ('exc', '%s: %s' % (type(e).__name__, e))


def run_history(ctx, R, rng, cache, nops, script=None):
    """Executes one history; returns the recorded script (for replay)."""
    rs = R.rruleset(cache=cache)
    m = {'rrule': [], 'rdate': [], 'exrule': [], 'exdate': []}
    hist = []
    live = []            # iterators created earlier
    live_info = {}       # id(iterator) -> [mutation count at creation, items consumed, model list at creation]
    mut_count = 0
    mutated_after_iter = False
    iterated = False
    steps = script if script is not None else [None] * nops
    for si, step in enumerate(steps):
        last = si == len(steps) - 1
        if step is None:
            r = rng.random()
            if r < .45:
                op = rng.choice(MUTATORS)
            else:
                op = rng.choice(['iter_full', 'iter_part', 'iter_part', 'resume_live', 'resume_live', 'resume_old', 'count', 'getitem', 'contains', 'after',
                                 'before', 'between', 'check', 'check'])
            if op in ('rrule', 'exrule'):
                arg = U.kw_json(U.finite_rule_kw(rng, R, grid=True, maxlen=21))
            elif op in ('rdate', 'exdate'):
                L0 = model_list(m)
                arg = U.iso(rng.choice(L0) if (L0 and rng.random() < .5) else rnd_date(rng))
            elif op == 'iter_part':
                arg = rng.randint(0, 12)
            elif op == 'getitem':
                arg = rng.randint(-8, 25)
                if rng.random() < .3:
                    # slices, written as [start, stop, step]; a stop of 0 is an empty slice, not "no upper bound"
                    arg = rng.choice([[None, 0, None], [0, 0, None], [2, 0, None], [None, rng.randint(0, 12), None], [rng.randint(0, 5), None, rng.choice([None, 2, 3])],
                                      [-3, None, None], [1, -1, 2]])
            elif op in ('contains', 'after', 'before'):
                L0 = model_list(m)
                # members, explicit dates (listed or excluded) and instants of the exclusion rules are the interesting arguments
                pool = list(m['rdate']) + list(m['exdate']) + [x for l in m['exrule'] for x in l[:6]]
                r_ = rng.random()
                pick = rng.choice(L0) if (L0 and r_ < .4) else (rng.choice(pool) if (pool and r_ < .7) else rnd_date(rng))
                arg = [U.iso(pick), rng.random() < .5]
            elif op == 'between':
                L0 = model_list(m)
                cands = [rnd_date(rng), rnd_date(rng)] if (not L0 or rng.random() < .4) else [rng.choice(L0), rng.choice(L0 + [rnd_date(rng)])]
                a, b = sorted(cands)
                arg = [U.iso(a), U.iso(b), rng.random() < .5]
            elif op in ('resume_live', 'resume_old'):
                arg = rng.randint(1, 40)
            else:
                arg = None
            step = [op, arg]
        op, arg = step
        hist.append(step)
        case = {'cache': cache, 'history': hist}
        f = D.datetime.fromisoformat
        if op in ('rrule', 'exrule'):
            rule = R.rrule(**U.kw_from_json(arg, R))
            getattr(rs, op)(rule)
            m[op].append(list(R.rrule(**U.kw_from_json(arg, R))))
            mut_count += 1
            if iterated:
                mutated_after_iter = True
        elif op in ('rdate', 'exdate'):
            getattr(rs, op)(f(arg))
            m[op].append(f(arg))
            mut_count += 1
            if iterated:
                mutated_after_iter = True
        else:
            L = model_list(m)
            if op == 'check':
                got = exp = None
            elif op == 'iter_full':
                got, exp = outcome(lambda: list(rs)), ('ok', L)
                iterated = True
            elif op == 'iter_part':
                it = iter(rs)
                got, exp = outcome(lambda: list(itertools.islice(it, arg))), ('ok', L[:arg])
                live.append(it)
                live_info[id(it)] = [mut_count, min(arg, len(L)), L]
                iterated = True
            elif op in ('resume_live', 'resume_old'):
                if not live:
                    if not last:
                        continue
                    it = iter(())
                else:
                    it = None
                if it is None:
                    it = live[rng.randrange(len(live))] if script is None else live[-1]
                if op == 'resume_old' and live:
                    it = live[0]
                # the output of an iterator created before a later addition is not judged (unspecified); it must not raise
                # and must not damage later iterations / queries, which the post-check below verifies.  When NO member was
                # added since it was created - only other iterations and queries ran in between - it must simply continue
                # the sequence it started.
                info = live_info.get(id(it))
                if info is not None and info[0] == mut_count:
                    got = outcome(lambda: list(itertools.islice(it, arg)))
                    exp = ('ok', info[2][info[1]:info[1] + arg])
                    info[1] = min(info[1] + arg, len(info[2]))
                    ctx.count('resumed_live_iterators_judged')
                else:
                    got = outcome(lambda: len(list(itertools.islice(it, arg))) >= 0)
                    exp = ('ok', True)
                ctx.count('resumed_live_iterators')
            elif op == 'count':
                got, exp = outcome(rs.count), ('ok', len(L))
            elif op == 'getitem':
                idx = slice(*arg) if isinstance(arg, list) else arg
                got, exp = outcome(lambda: rs[idx]), U.m_getitem(L, idx)
                if isinstance(arg, list):
                    ctx.count('slice_queries')
            elif op == 'contains':
                got, exp = outcome(lambda: f(arg[0]) in rs), ('ok', f(arg[0]) in L)
            elif op == 'after':
                got, exp = outcome(lambda: rs.after(f(arg[0]), inc=arg[1])), ('ok', U.m_after(L, f(arg[0]), arg[1]))
            elif op == 'before':
                got, exp = outcome(lambda: rs.before(f(arg[0]), inc=arg[1])), ('ok', U.m_before(L, f(arg[0]), arg[1]))
            elif op == 'between':
                got, exp = outcome(lambda: rs.between(f(arg[0]), f(arg[1]), inc=arg[2])), ('ok', U.m_between(L, f(arg[0]), f(arg[1]), arg[2]))
            ctx.ev()
            ctx.count('op_' + op)
            if got is not None and got != exp:
                ctx.violation('operation-disagrees-with-model', case, '%s -> library %s, model %s' % (op, brief(got), brief(exp)))
                return hist
        # the full post-check is itself an operation (it fills caches and records the length), so it is only run
        # when the history says so - after the last step, and where the generator put a 'check' step
        if op != 'check' and not last:
            continue
        L = model_list(m)
        got = outcome(lambda: list(rs))
        ctx.ev()
        if got[0] != 'ok' or got[1] != L:
            ctx.violation('set-algebra', dict(case, after=op), 'iteration after %s: library %s, model %s' % (op, brief(got), brief(('ok', L))))
            return hist
        if not strictly_increasing(got[1]):
            ctx.violation('not-strictly-increasing', dict(case, after=op), brief(got))
            return hist
        c2 = outcome(rs.count)
        if c2 != ('ok', len(L)):
            ctx.violation('count-after-history', dict(case, after=op), 'count() %r, model %d' % (c2, len(L)))
            return hist
    nmem = len(m['rrule']) + len(m['exrule'])
    coincide = sum(len(x) for x in m['rrule']) + len(m['rdate']) > len(set(itertools.chain(m['rdate'], *m['rrule'])))
    if mutated_after_iter or coincide:
        ctx.distinct('%s|%s' % ('c' if cache else 'u', ','.join(s[0][:5] for s in hist)))
        ctx.count('nontrivial_histories')
    if mutated_after_iter:
        ctx.count('histories_with_mutation_after_iteration')
    if coincide:
        ctx.count('histories_with_coinciding_instants')
    if nmem >= 3:
        ctx.count('histories_with_3plus_rules')
    ctx.count('histories')
    return hist


def brief(o):
    if o[0] == 'ok' and isinstance(o[1], list):
        return '[%d items: %s%s]' % (len(o[1]), ', '.join(U.iso(x) for x in o[1][:5]), ' ...' if len(o[1]) > 5 else '')
    if o[0] == 'ok' and isinstance(o[1], D.datetime):
        return U.iso(o[1])
    return repr(o)


def directed(ctx, R):
    """three or more sources ending in every order; dense exclusions between inclusions"""
    import random
    st = U.BASE
    for perm in itertools.permutations([(R.DAILY, 1, 0), (R.DAILY, 3, 2), (R.DAILY, 6, 1), (R.HOURLY, 2, 0)], 3):
        for role in ('rrule', 'exrule'):
            for cache in (False, True):
                script = []
                if role == 'exrule':
                    script.append(['rrule', U.kw_json({'freq': R.HOURLY, 'dtstart': st, 'interval': 12, 'count': 20})])
                for freq, cnt, off in perm:
                    script.append([role, U.kw_json({'freq': freq, 'dtstart': st + D.timedelta(days=off), 'count': cnt})])
                script.append(['iter_full', None])
                run_history(ctx, R, random.Random(0), cache, 0, script)
                ctx.count('directed_histories')
    for cache in (False, True):
        for full_first in (False, True):
            x = st + D.timedelta(days=4)
            script = [['rrule', U.kw_json({'freq': R.DAILY, 'dtstart': st, 'count': 12})], ['rdate', U.iso(x + D.timedelta(hours=1))],
                      ['exrule', U.kw_json({'freq': R.DAILY, 'dtstart': st + D.timedelta(hours=1), 'count': 8})], ['rdate', U.iso(st + D.timedelta(days=30))]] + \
                     ([['iter_full', None]] if full_first else []) + \
                     [['contains', [U.iso(x + D.timedelta(hours=1)), False]], ['contains', [U.iso(x), False]], ['contains', [U.iso(st + D.timedelta(days=30)), False]],
                      ['between', [U.iso(x), U.iso(x), True]], ['between', [U.iso(st), U.iso(st + D.timedelta(days=30)), True]],
                      ['between', [U.iso(st), U.iso(st + D.timedelta(days=30)), False]], ['between', [U.iso(x), U.iso(st + D.timedelta(days=11)), True]],
                      ['after', [U.iso(st + D.timedelta(days=30)), True]], ['before', [U.iso(st), True]], ['check', None]]
            run_history(ctx, R, random.Random(0), cache, 0, script)
            ctx.count('directed_histories')
    for cache in (False, True):
        script = [['rrule', U.kw_json({'freq': R.WEEKLY, 'dtstart': st, 'count': 5})],
                  ['exrule', U.kw_json({'freq': R.DAILY, 'dtstart': st + D.timedelta(days=1), 'count': 20})],
                  ['exdate', U.iso(st + D.timedelta(days=14))], ['iter_part', 2], ['rdate', U.iso(st + D.timedelta(days=3, hours=1))],
                  ['resume_live', 40], ['count', None], ['iter_full', None]]
        run_history(ctx, R, random.Random(0), cache, 0, script)
        ctx.count('directed_histories')


def interleaved_iterations(ctx, R):
    """several iterations and queries over one set interleaved WITHOUT any modification: each iterator continues its own
    sequence (rules with several occurrences per period, spanning years and months)"""
    import random
    st = U.BASE
    rules = [{'freq': R.YEARLY, 'dtstart': st, 'bymonth': [3, 7, 11], 'count': 14}, {'freq': R.MONTHLY, 'dtstart': st, 'bymonthday': [1, 15, -1], 'count': 20},
             {'freq': R.WEEKLY, 'dtstart': st, 'byweekday': [R.MO, R.FR], 'count': 16}, {'freq': R.YEARLY, 'dtstart': st, 'byweekno': [1, 20, 52], 'byweekday': [R.TU], 'count': 9}]
    queries = [['count', None], ['iter_full', None], ['getitem', 12], ['contains', [U.iso(st + D.timedelta(days=400)), False]], ['iter_part', 7],
               ['after', [U.iso(st + D.timedelta(days=500)), True]]]
    for kw in rules:
        for two in (False, True):
            for k in (1, 2, 5):
                for q in queries:
                    for cache in (False, True):
                        script = [['rrule', U.kw_json(kw)]] + ([['rrule', U.kw_json(dict(kw, dtstart=st + D.timedelta(hours=3)))]] if two else []) + \
                                 [['iter_part', k], q, ['resume_old', 4], q, ['resume_old', 40], ['check', None]]
                        run_history(ctx, R, random.Random(0), cache, 0, script)
                        ctx.count('interleaved_histories')


def stale_iterator_sweep(ctx, R):
    """an iterator opened before a member is added and resumed afterwards - before, between or after newer iterations -
    must not damage what later iterations and queries see (lengths at and around the cache fill batch)"""
    import random
    st = U.BASE
    mods = [['rdate', U.iso(st + D.timedelta(days=400))], ['rdate', U.iso(st - D.timedelta(days=4))], ['rdate', U.iso(st + D.timedelta(days=2, hours=5))],
            ['exdate', U.iso(st + D.timedelta(days=3))], ['rrule', U.kw_json({'freq': R.DAILY, 'dtstart': st + D.timedelta(days=500), 'count': 3})],
            ['exrule', U.kw_json({'freq': R.DAILY, 'dtstart': st + D.timedelta(days=8), 'count': 5})]]
    for n in (9, 10, 11, 20):
        for k_old in (0, 1, 10):
            for mod in mods:
                for k_new in (0, 1, 10, 11, 40):
                    for cache in (True, False):
                        if not cache and (k_new not in (1, 40) or k_old != 1):
                            continue
                        script = [['rrule', U.kw_json({'freq': R.DAILY, 'dtstart': st, 'count': n})], ['iter_part', k_old], mod,
                                  ['iter_part', k_new], ['resume_old', 60], ['check', None], ['resume_live', 60], ['count', None], ['iter_full', None]]
                        run_history(ctx, R, random.Random(0), cache, 0, script)
                        ctx.count('stale_iterator_histories')
                        # the same, but the first thing asked after the old iterator has run out is a cheap query
                        # (no full pass in between that would repair a stale length or cache)
                        for q in (['count', None], ['getitem', -1], ['contains', [U.iso(st + D.timedelta(days=400)), False]]):
                            script = [['rrule', U.kw_json({'freq': R.DAILY, 'dtstart': st, 'count': n})], ['iter_part', k_old], mod,
                                      ['iter_part', k_new], ['resume_old', 60], q, ['count', None], ['check', None]]
                            run_history(ctx, R, random.Random(0), cache, 0, script)
                            ctx.count('stale_iterator_histories')


def run(ctx):
    from dateutil import rrule as R
    rng = ctx.rng
    for i in range(N_CASES[ctx.tier]):
        if i % 25 == 0 and not ctx.time_left():
            ctx.count('stopped_by_time_budget')
            break
        cache = rng.random() < .5
        try:
            hist = run_history(ctx, R, rng, cache, rng.randint(3, 14))
        except Exception as e:
            ctx.violation('history-raised', {'cache': cache}, '%s: %s' % (type(e).__name__, e))
            continue
        ctx.count('cache_on' if cache else 'cache_off')
        if i % 100 == 0:
            ctx.sample({'cache': cache, 'history': [[s[0], s[1] if not isinstance(s[1], dict) else '<rule %s>' % s[1].get('freq')] for s in hist]})
    if ctx.shard == 0:
        directed(ctx, R)
    if ctx.shard == 1 % ctx.nshards:
        stale_iterator_sweep(ctx, R)
    if ctx.shard == 2 % ctx.nshards:
        interleaved_iterations(ctx, R)


def floors(agg, tier):
    c, out = agg['counters'], []
    need = {'quick': 12000, 'thorough': 150000}[tier]
    if agg['evaluations'] < need:
        out.append('only %d evaluations (< %d)' % (agg['evaluations'], need))
    for k, n in (('histories_with_mutation_after_iteration', 300), ('histories_with_coinciding_instants', 300),
                 ('histories_with_3plus_rules', 100), ('resumed_live_iterators', 100), ('cache_on', 300), ('cache_off', 300),
                 ('directed_histories', 40)):
        if c.get(k, 0) < n:
            out.append('%s only %d (< %d)' % (k, c.get(k, 0), n))
    for op in ('iter_full', 'iter_part', 'count', 'getitem', 'contains', 'after', 'before', 'between'):
        if c.get('op_' + op, 0) < 100:
            out.append('operation %s only %d' % (op, c.get('op_' + op, 0)))
    if len(agg['distinct']) < 800:
        out.append('only %d distinct histories' % len(agg['distinct']))
    return out


def replay(ctx, case):
    from dateutil import rrule as R
    import random
    run_history(ctx, R, random.Random(0), case['cache'], 0, case['history'])
