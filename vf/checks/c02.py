"""C02 - parse() inverts every supported unambiguous date/time rendering."""
import datetime as D
import time

from vf import mon_parse, render_gen

PROPERTY = 'C02'
LEVEL = 'exploration'
RULE = ('~50 independent text templates (ISO-like with T/space, compact 8/12/14-digit and 8T6/8T4, ctime, RFC 2822, month-name '
        'long/short/ordinal forms, 12-hour clock incl. 12 AM / 12 PM, NNhNNmNNs, dot and comma fractions with 1-6 digits, '
        'US / European / year-first numeric dates under the matching dayfirst/yearfirst flags, two-digit years inside the '
        '-50..+49 window of the current year) x boundary datetimes (years 1, 99, 100, 999, 1000, 9999, day 31, month 12, hours '
        '0/11/12/13/23, microseconds 0/1/999999) x offset spellings (+HHMM, +HH:MM, +HH, Z, UTC, with/without a space; '
        '-23:59..+23:59 incl. negative sub-hour and half-hour offsets) x str / bytes input x process TZ (one per shard: UTC, '
        'America/New_York, Europe/London, Asia/Kolkata).  Each rendering is parsed through the public parse(); a monitor on '
        'parser.parse proves the call reached the real method.  Expected value = the datetime truncated to the rendered '
        'precision, aware with exactly the rendered offset iff one was rendered.  Non-trivial = has a time of day, an '
        'offset, a two-digit year or a boundary year; distinct = (template, fraction digits, offset form, sign class, '
        'boundary-class vector of the datetime, input type).'
        ' Also: yy-Mon-d, Mon-d-yy and year-day-month forms; the two-digit-year window is swept for all 100 values under 13 simulated clock years (the process clock is replaced while a parserinfo is built).')
ASSUMPTIONS = ['vf/render_gen.py renders the documented forms; a template\'s domain excludes datetimes for which the '
               'documented rules make the text ambiguous (two-digit years outside the pivot window)',
               'missing time fields come from the default (midnight)']
MANIFEST = {
    'technique': 'runtime round-trip monitor: independent multi-template renderer -> real parse() -> exact comparison, per process TZ; plus the same parse() calls from four free-running threads with injected yields (sys.monitoring), compared with the single-threaded outcomes',
    'level_text': 'The real generic parser is executed on tens of thousands of renderings that cover the template x boundary x '
                  'offset x flag x process-TZ product named by the property; expected values come from the renderer.  '
                  'Exploration: held on the renderings observed; one open finding (K4) is classified by mechanism.',
    'level_note': 'Trusts the renderer and CPython datetime.  Templates are the ones listed in vf/render_gen.py; text forms '
                  'outside that list are not covered.',
}
PLAN = {'quick': {'shards': 4, 'timeout': 1800, 'budget': 900},
        'thorough': {'shards': 16, 'timeout': 7200, 'budget': 2400}}
N_CASES = {'quick': 12000, 'thorough': 120000}
TZS = ['UTC', 'America/New_York', 'Europe/London', 'Asia/Kolkata']


def shard_env(shard, nshards):
    return {'TZ': TZS[shard % len(TZS)]}


def gen_dt(rng, cur):
    import calendar
    r = rng.random()
    if r < .45:
        y = rng.choice([1, 31, 99, 100, 101, 999, 1000, 1582, 1900, 1999, 2000, 2024, 9999])
    elif r < .7:
        y = rng.randint(cur - 50, cur + 49)
    else:
        y = rng.randint(1, 9999)
    m = rng.choice([1, 2, 9, 12, rng.randint(1, 12)])
    d = min(rng.choice([1, 5, 12, 13, 25, 28, 29, 30, 31, rng.randint(1, 31)]), calendar.monthrange(y, m)[1])
    return D.datetime(y, m, d, rng.choice([0, 0, 11, 12, 13, 23, rng.randint(0, 23)]), rng.choice([0, 59, rng.randint(0, 59)]),
                      rng.choice([0, 59, rng.randint(0, 59)]), rng.choice([0, 1, 999999, 500000, 502000, rng.randint(0, 999999)]))


def gen_offset(rng):
    if rng.random() < .45:
        return None
    form = rng.choice(render_gen.OFFSET_FORMS)
    secs = rng.choice([-1, 1]) * (rng.choice([0, 0, 1, 3, 5, 12, 23, rng.randint(0, 23)]) * 3600 + rng.choice([0, 0, 1, 30, 45, 59, rng.randint(0, 59)]) * 60)
    return form, secs


def dt_class(dt, cur):
    return '%s%s%s%s' % ('y<100' if dt.year < 100 else ('y<1000' if dt.year < 1000 else ('y9999' if dt.year == 9999 else 'y')),
                         '|d<=12' if dt.day <= 12 else '|d>12', '|h12' if dt.hour in (0, 12) else '',
                         '|us' if dt.microsecond else '')


def check_case(ctx, P, PP, t, dt, nfrac, fsep, offset, kind, cur, hits):
    text, exp, off = render_gen.render(t, dt, nfrac, fsep, offset)
    kw = dict(t.flags)
    case = {'template': t.name, 'text': text, 'flags': kw, 'input': kind, 'expected': [exp.isoformat(), off],
            'dt': dt.isoformat(), 'nfrac': nfrac, 'fsep': fsep, 'offset': list(offset) if offset else None}
    arg = text.encode('utf-8') if kind == 'bytes' else text
    h0 = hits[0]
    # the flags can reach the parser as keyword arguments, through a parserinfo, or as keyword arguments that must
    # override a parserinfo saying the opposite ("if None, the value is retrieved from the parserinfo")
    mode = 'kwargs'
    if t.flags:
        mode = ('kwargs', 'kwargs', 'info', 'info-function', 'override')[ctx.evaluations % 5]
    case['call'] = mode
    ctx.count('call_' + mode)
    try:
        if mode == 'kwargs':
            got = ('ok', P.parse(arg, **kw))
        elif mode == 'info':
            got = ('ok', P.parser(P.parserinfo(**kw)).parse(arg))
        elif mode == 'info-function':
            got = ('ok', P.parse(arg, parserinfo=P.parserinfo(**kw)))
        else:
            opposite = P.parserinfo(dayfirst=not kw.get('dayfirst', False), yearfirst=not kw.get('yearfirst', False))
            got = ('ok', P.parser(opposite).parse(arg, dayfirst=kw.get('dayfirst', False), yearfirst=kw.get('yearfirst', False)))
    except Exception as e:
        got = ('exc', e)
    ctx.ev()
    if hits[0] == h0:
        ctx.inconclusive_because('parse() did not pass through the monitored method')
    ctx.count('template_' + t.name)
    ctx.count('group_' + t.group)
    bad = None
    if got[0] == 'exc':
        bad = 'raised %s: %s' % (type(got[1]).__name__, str(got[1])[:200])
    else:
        v = got[1]
        if type(v) is not D.datetime:
            bad = 'returned %r' % (v,)
        elif v.replace(tzinfo=None) != exp:
            bad = 'value %s, expected %s' % (v.replace(tzinfo=None).isoformat(), exp.isoformat())
        elif off is None and v.tzinfo is not None:
            bad = 'aware (%r) although no offset was rendered' % (v.tzinfo,)
        elif off is not None:
            if v.tzinfo is None:
                bad = 'naive although offset %d s was rendered' % off
            else:
                try:
                    uo = v.utcoffset()
                except Exception as e:
                    uo = e
                if uo != D.timedelta(seconds=off):
                    bad = 'offset %r, expected %d s' % (uo, off)
    if bad:
        classify(ctx, PP, t, dt, exp, got, case, bad, cur)
    nontrivial = t.prec != 'date' or off is not None or t.yy or dt.year < 1000 or dt.year == 9999
    if nontrivial:
        osign = '-' if off is None else ('0' if off == 0 else ('neg' if off < 0 else 'pos')) + ('sub' if off is not None and off % 3600 else '')
        ctx.distinct('%s|%s|%s|%s|%s|%s' % (t.name, nfrac if t.prec == 'frac' else '-', (offset[0] if (offset and t.offset_ok) else '-'),
                                            osign, dt_class(dt, cur), kind))
    if ctx.evaluations % 700 == 1:
        ctx.sample({'template': t.name, 'text': text, 'flags': kw, 'expected': case['expected'], 'TZ': time.tzname[0]})


def classify(ctx, PP, t, dt, exp, got, case, bad, cur):
    """Known finding K4 (mechanism: a zero-padded 4-digit year < 100 read through the bare-number path loses its
    century) - explained only if the result is exactly the expected value with the year moved by the 2-digit pivot."""
    if t.bare_year and dt.year < 100 and got[0] == 'ok' and type(got[1]) is D.datetime:
        pivot = cur // 100 * 100 + dt.year
        if pivot >= cur + 50:
            pivot -= 100
        elif pivot < cur - 50:
            pivot += 100
        try:
            alt = exp.replace(year=pivot)
        except ValueError:
            alt = None
        if alt is not None and got[1].replace(tzinfo=None) == alt:
            ctx.known_finding('K4', '%r parsed as year %d' % (case['text'], pivot), case)
            return
    if t.bare_year and dt.year < 100 and got[0] == 'exc' and isinstance(got[1], PP.ParserError):
        # same mechanism: the 2-digit reading makes day/year assignment ambiguous or invalid (e.g. '31 Sep 0025' -> day 25, year 31)
        ctx.known_finding('K4', '%r rejected/misassigned after losing the century' % (case['text'],), case)
        return
    if t.bare_year and dt.year < 100 and got[0] == 'ok':
        # the century-less year token may also swap roles with the day (both <= 31)
        v = got[1].replace(tzinfo=None)
        if (v.month, v.hour, v.minute, v.second, v.microsecond) == (exp.month, exp.hour, exp.minute, exp.second, exp.microsecond) \
                and v.day in (exp.day, dt.year) and v.year % 100 in (dt.year, exp.day):
            ctx.known_finding('K4', '%r: century-less year token swapped/pivoted (%s)' % (case['text'], v.isoformat()), case)
            return
    ctx.violation('round-trip', case, bad)


def run(ctx):
    import dateutil.parser as P
    import dateutil.parser._parser as PP
    hits = [0]

    def handler(parser, timestr, kw, out):
        hits[0] += 1
        ctx.hit('parser.parse')
    uninstall = mon_parse.install(handler)
    try:
        cur = time.localtime().tm_year
        ctx.note('process_TZ', time.tzname)
        ctx.count('tz_' + time.tzname[0])
        rng = ctx.rng
        for i in range(N_CASES[ctx.tier]):
            if i % 500 == 0 and not ctx.time_left():
                ctx.count('stopped_by_time_budget')
                break
            t = rng.choice(render_gen.TEMPLATES)
            for _ in range(20):
                dt = gen_dt(rng, cur)
                if render_gen.in_domain(t, dt, cur):
                    break
            else:
                continue
            check_case(ctx, P, PP, t, dt, rng.randint(1, 6), rng.choice('.,') if t.group != 'hms' else '.', gen_offset(rng),
                       'bytes' if rng.random() < .1 else 'str', cur, hits)
        # systematic: every template x every boundary hour x a fixed date, every offset form once
        for t in render_gen.TEMPLATES:
            for hour in (0, 1, 11, 12, 13, 23):
                dt = D.datetime(2003, 9, 25, hour, 49, 41, 502000)
                for off in [None] + [(f, s) for f in render_gen.OFFSET_FORMS for s in (-12600, 19800, 0, -60)]:
                    if render_gen.in_domain(t, dt, cur):
                        check_case(ctx, P, PP, t, dt, 3, '.', off, 'str', cur, hits)
                        ctx.count('systematic')
        # systematic: six-digit fractions through every template that renders one (a binary floating-point detour loses a
        # microsecond for about one value in a hundred)
        fr = [t for t in render_gen.TEMPLATES if t.prec == 'frac']
        for k, us in enumerate(range(ctx.shard * 7 + 1, 1000000, 331 * ctx.nshards)):
            t = fr[k % len(fr)]
            dt = D.datetime(2003, 9, 25, 10, 49, 41, us)
            if render_gen.in_domain(t, dt, cur):
                check_case(ctx, P, PP, t, dt, 6, '.', None, 'str', cur, hits)
                ctx.count('six_digit_fraction_sweep')
        if ctx.shard == 0:
            two_digit_year_window(ctx, P, PP)
    finally:
        uninstall()
    if ctx.shard == 0:
        # the same renderings from four threads at once (module-level parser shared by all of them); outcomes compared with
        # the single-threaded ones, which are the round trips judged above
        from vf import concurrent as CC
        import random
        r2 = random.Random(ctx.seed + 5)
        pool = []
        while len(pool) < 200:
            t = r2.choice(render_gen.TEMPLATES)
            dt = gen_dt(r2, cur)
            if render_gen.in_domain(t, dt, cur):
                text, exp, off = render_gen.render(t, dt, r2.randint(1, 6), '.', gen_offset(r2))
                pool.append((text, tuple(sorted(t.flags.items()))))
        CC.concurrent_pure(ctx, 'parse', ['dateutil.parser._parser'], lambda a: P.parse(a[0], **dict(a[1])), pool,
                           10 if ctx.tier == 'quick' else 150, per_thread=30)


def two_digit_year_window(ctx, P, PP):
    """Two-digit years resolve to the unique year within -50..+49 of the *current* year: the process clock is replaced
    (for the construction of a parserinfo only) by clocks showing other years, so that both directions of the century
    correction and the turn of a century are observed, not only this year's window."""
    real_time = PP.time

    class Clock(object):
        def __init__(self, year):
            self.year = year

        def localtime(self, *a):
            return real_time.struct_time((self.year, 6, 15, 12, 0, 0, 0, 166, 0))

        def __getattr__(self, name):
            return getattr(real_time, name)
    for year in (1949, 1950, 1999, 2000, 2001, 2026, 2049, 2050, 2051, 2070, 2099, 2100, 2149):
        PP.time = Clock(year)
        try:
            info = P.parserinfo()
        finally:
            PP.time = real_time
        for yy in range(100):
            exp_year = [y for y in range(year - 50, year + 50) if y % 100 == yy][0]
            for text, flags in (('Mar 04 %02d' % yy, {}), ('04/03/%02d' % yy, {'dayfirst': True}), ('%02d-03-04' % yy, {'yearfirst': True})):
                ctx.ev()
                ctx.count('two_digit_window_cases')
                ctx.distinct('yy-window|%d|%d' % (year, yy // 10))
                case = {'workload': 'two-digit-year-window', 'clock_year': year, 'text': text, 'flags': flags}
                try:
                    got = P.parser(info).parse(text, **flags)
                except Exception as e:
                    ctx.violation('two-digit-year', case, 'raised %s: %s' % (type(e).__name__, e))
                    continue
                if (got.year, got.month, got.day) != (exp_year, 3, 4):
                    ctx.violation('two-digit-year', case, 'with the clock in %d, %r gave %s; the year within -50..+49 is %d' % (year, text, got.date(), exp_year))


def floors(agg, tier):
    c, out = agg['counters'], []
    from vf import concurrent as CC
    CC.floor(c, 'parse', 1000, 1000, out)
    if c.get('six_digit_fraction_sweep', 0) < 2500:
        out.append('six-digit fraction sweep only %d' % c.get('six_digit_fraction_sweep', 0))
    need = {'quick': 40000, 'thorough': 400000}[tier]
    if agg['evaluations'] < need:
        out.append('only %d evaluations (< %d)' % (agg['evaluations'], need))
    for t in render_gen.TEMPLATES:
        if c.get('template_' + t.name, 0) < 50:
            out.append('template %r reached only %d times' % (t.name, c.get('template_' + t.name, 0)))
    for z in ('UTC', 'EST', 'GMT', 'IST'):
        if c.get('tz_' + z, 0) < 1:
            out.append('no shard ran under process TZ with standard name %s' % z)
    if agg['hits'].get('parser.parse', 0) < need:
        out.append('monitored parse reached only %d times' % agg['hits'].get('parser.parse', 0))
    if len(agg['distinct']) < 5000:
        out.append('only %d distinct non-trivial cases' % len(agg['distinct']))
    return out


def replay(ctx, case):
    import dateutil.parser as P
    import dateutil.parser._parser as PP
    hits = [0]

    def handler(parser, timestr, kw, out):
        hits[0] += 1
    uninstall = mon_parse.install(handler)
    try:
        t = render_gen.BY_NAME[case['template']]
        dt = D.datetime.fromisoformat(case['dt'])
        off = tuple(case['offset']) if case.get('offset') else None
        check_case(ctx, P, PP, t, dt, case.get('nfrac', 3), case.get('fsep', '.'), off, case.get('input', 'str'),
                   time.localtime().tm_year, hits)
    finally:
        uninstall()
