"""C18 - zone factories return one shared object per key, safely under threads."""
import copy
import datetime as D
import gc
import os
import pickle
import sys
import threading
import weakref

from vf import locks, sched as S

PROPERTY = 'C18'
LEVEL = 'exploration'
RULE = ('(a) sequential histories per factory (gettz over names / absolute paths / TZ strings, tzoffset over (name, offset) incl. '
        'timedelta and sub-second offsets, tzstr over strings x posix_offset, tzutc): 60-300 operations over a pool of 14-20 keys '
        '(larger than the strong cache of 8) - request and keep, request and drop, drop a kept reference, gc.collect(), '
        'instance()/nocache(), set_cache_size(n), cache_clear().  Model = key -> weak reference to the object last returned: a '
        'request whose model object is still alive must return that very object; instance()/nocache() must return a fresh, equal '
        'object; set_cache_size must not change the identity of live zones; after cache_clear old and new objects must still be '
        'equal; every returned zone must answer with the requested offset.  (b) equality laws over a pool of zones of all '
        'comparable classes: reflexive, symmetric (also across classes), equal zones report equal offsets at sample instants; '
        'copy, deepcopy and pickle (every protocol) are equal to the original and answer identically.  (c) threads: 2-4 tasks '
        'request the same fresh key (and neighbouring keys, forcing strong-cache evictions) under the baton scheduler with switch '
        'points at every line of the three factory __call__ methods and of WeakValueDictionary.get / setdefault / __setitem__ '
        'and at every proxy-lock operation - all single-preemption plans, PCT and random schedules - and free-running threads '
        '(switch interval 1 us).  No exception, no half-built zone, one live object per key.  Non-trivial = history step that '
        'hits a live model entry, or a multi-task run; distinct = (factory, operation, key state) and interleaving signatures.'
        ' Further scheduled scenarios: cache_clear() racing requests (with a lock-identity invariant), strong-cache trimming at size 1 racing cache_clear / set_cache_size(0), and the last reference to a zone dropped by another thread during a request; near-variant rule zones (J60 vs 59, one field of a relativedelta) and tzlocal objects created under different TZ settings are probed on a dense grid whenever the library calls them equal; GMT+h strings under both sign conventions in the copy / pickle pool.')
ASSUMPTIONS = ['"still referenced" is read as "still alive" (a weak reference held by the harness is alive)',
               'cache_clear() is allowed to start a new generation of objects (the repository\'s own tests require that); only '
               'equality with the old objects is demanded across it',
               'statement-granularity schedules over-approximate GIL schedules']
MANIFEST = {
    'technique': 'runtime history checker (identity map with weak references) + algebraic equality/copy/pickle laws + schedule-controlled factory races (baton scheduler over factory and WeakValueDictionary lines, proxy locks) + free-running stress',
    'level_text': 'Thousands of factory operations per run against an identity model, equality/copy/pickle laws over all comparable '
                  'zone classes, and thousands of controlled interleavings of concurrent requests for one key with deadlock and '
                  'duplicate-object detection.  Exploration with a systematic single-preemption component.',
    'level_note': 'Trusts CPython weakref/gc semantics, sys.monitoring and the scheduler\'s own threading primitives.',
}
PLAN = {'quick': {'shards': 4, 'timeout': 1800, 'budget': 900},
        'thorough': {'shards': 16, 'timeout': 7200, 'budget': 2400}}
N_HIST = {'quick': 60, 'thorough': 900}
SAMPLE = [D.datetime(2020, 1, 15, 12), D.datetime(2020, 7, 15, 12), D.datetime(2020, 3, 8, 2, 30), D.datetime(2020, 11, 1, 1, 30),
          D.datetime(1950, 6, 1), D.datetime(2037, 12, 31, 23)]


def _dense():
    out = []
    for y in (2023, 2024):
        for m, days in ((2, (28,)), (3, (1, 2, 9, 10, 11, 12, 13, 31)), (4, (1,)), (10, (26, 27, 28, 29, 30, 31)), (11, (1, 2, 3, 4, 5))):
            for d in days:
                for h in range(24):
                    out.append(D.datetime(y, m, d, h, 30))
        out += [D.datetime(y, 2, 28, 23, 30) + D.timedelta(hours=k) for k in range(1, 30)]       # 29 Feb / 1 Mar
    return out


DENSE = _dense()


def behaviour(z, sample=None):
    out = []
    for w in (SAMPLE if sample is None else sample):
        for fold in (0, 1):
            dt = w.replace(tzinfo=z, fold=fold)
            try:
                out.append((dt.utcoffset(), dt.tzname(), dt.dst()))
            except Exception as e:
                out.append(('exc', type(e).__name__))
    return out


# ---------------------------------------------------------------------------------------------
# (a) sequential histories
# ---------------------------------------------------------------------------------------------

class Factory(object):
    """uniform view of one factory for the history driver"""

    def __init__(self, name, tz, rng):
        self.name, self.tz = name, tz
        if name == 'tzoffset':
            self.keys = [('N%d' % i, 3600 * (i - 7) + 60 * i) for i in range(14)] + [(None, 0), (None, -37), ('TD', D.timedelta(hours=1)),
                                                                                       ('TD', 3600), ('SUB', D.timedelta(hours=1, microseconds=500000)),
                                                                                       ('SUB', 3600), ('SUB', 3600.5)]
        elif name == 'tzstr':
            base = ['EST5EDT', 'CET-1CEST,M3.5.0,M10.5.0/3', 'AEST-10AEDT,M10.1.0,M4.1.0/3', 'NST3:30NDT,M3.2.0/0:01,M11.1.0/0:01', 'XYZ-5:30',
                    'GMT+3', 'UTC-3', 'EST5', 'AAA-5:30BBB-7:30,59/1,299/4', 'CET-1CEST,J60/2,J300/3', 'WET0WEST,M3.5.0/1,M10.5.0',
                    'MST7MDT,M3.2.0,M11.1.0', 'PST8PDT,M3.2.0,M11.1.0', 'HST10']
            self.keys = [(s, False) for s in base] + [('GMT+3', True), ('UTC-3', True), ('EST5EDT', True)]
        else:
            names = ['America/New_York', 'Europe/London', 'Asia/Kolkata', 'Australia/Sydney', 'Africa/Cairo', 'America/Sao_Paulo', 'Asia/Tokyo',
                     'Europe/Dublin', 'Pacific/Auckland', 'America/Los_Angeles', 'Europe/Berlin', 'Asia/Dubai', 'UTC', 'GMT']
            names = [n for n in names if os.path.exists('/usr/share/zoneinfo/' + n)]
            self.keys = [(n,) for n in names] + [('/usr/share/zoneinfo/Europe/Paris',), ('EST5EDT,M3.2.0,M11.1.0',), ('XYZ-5:30',)]
            # the TZ-variable spelling with a leading colon is a name of its own
            self.keys += [(':' + n,) for n in names[:3]] + [(':EST5EDT,M3.2.0,M11.1.0',)]
            self.keys = [k for k in self.keys if not k[0].startswith('/') or os.path.exists(k[0])]

    def norm(self, key):
        """the factory's documented notion of 'same request'"""
        if self.name == 'tzoffset':
            off = key[1]
            return (key[0], off.total_seconds() if isinstance(off, D.timedelta) else off)
        return key

    def request(self, key):
        tz = self.tz
        self.nreq = kwform = getattr(self, 'nreq', 0) + 1
        if self.name == 'tzoffset':
            return tz.tzoffset(name=key[0], offset=key[1]) if kwform % 3 == 0 else tz.tzoffset(*key)
        if self.name == 'tzstr':
            return tz.tzstr(key[0], key[1]) if kwform % 3 == 0 else tz.tzstr(key[0], posix_offset=key[1])
        return tz.gettz(key[0])

    def fresh(self, key):
        # positional and keyword spellings of the alternate constructor alternate
        tz = self.tz
        self.nfresh = kwform = getattr(self, 'nfresh', 0) + 1
        if self.name == 'tzoffset':
            return tz.tzoffset.instance(name=key[0], offset=key[1]) if kwform % 2 else tz.tzoffset.instance(*key)
        if self.name == 'tzstr':
            return tz.tzstr.instance(key[0], posix_offset=key[1]) if kwform % 2 else tz.tzstr.instance(key[0], key[1])
        return tz.gettz.nocache(key[0])

    def expected_offset(self, key):
        if self.name == 'tzoffset':
            off = key[1]
            return off if isinstance(off, D.timedelta) else D.timedelta(seconds=off)
        return None


def history(ctx, fac, rng, nops):
    tz = fac.tz
    model = {}            # normalised key -> weakref of the object last returned
    kept = {}             # normalised key -> strong reference held by the "client"
    hist = []
    for step in range(nops):
        r = rng.random()
        key = rng.choice(fac.keys)
        nk = fac.norm(key)
        case = {'factory': fac.name, 'history': hist[-12:], 'key': repr(key)}
        if r < .55:
            op = 'request-keep' if rng.random() < .6 else 'request-drop'
            hist.append((op, repr(key)))
            live = model.get(nk)
            live = live() if live is not None else None
            try:
                z = fac.request(key)
            except Exception as e:
                ctx.violation('request-raised', case, '%s: %s' % (type(e).__name__, e))
                continue
            ctx.ev()
            ctx.count('op_request')
            if z is None:
                ctx.violation('request-returned-none', case, '')
                continue
            if live is not None:
                ctx.count('requests_with_live_object')
                ctx.distinct('%s|request|live' % fac.name)
                if z is not live:
                    ctx.violation('identity-lost', case, 'a live zone %r (id %x) exists for this key but the factory returned another object (id %x)' % (live, id(live), id(z)))
            else:
                ctx.distinct('%s|request|new' % fac.name)
            exp = fac.expected_offset(key)
            if exp is not None and z.utcoffset(None) != exp:
                ctx.violation('wrong-zone-for-key', case, 'requested offset %r, the zone returned reports %r' % (exp, z.utcoffset(None)))
            model[nk] = weakref.ref(z)
            if op == 'request-keep':
                kept[nk] = z
            del z, live
        elif r < .68:
            hist.append(('drop', repr(key)))
            kept.pop(nk, None)
        elif r < .76:
            hist.append(('gc', None))
            gc.collect()
            ctx.count('op_gc')
        elif r < .88:
            hist.append(('fresh', repr(key)))
            live = model.get(nk)
            live = live() if live is not None else None
            try:
                z = fac.fresh(key)
            except Exception as e:
                ctx.violation('fresh-raised', case, '%s: %s' % (type(e).__name__, e))
                continue
            ctx.ev()
            ctx.count('op_fresh')
            ctx.distinct('%s|fresh|%s' % (fac.name, 'live' if live is not None else 'none'))
            if z is None:
                continue
            cached = fac.request(key)
            local_ok = fac.name == 'gettz' and isinstance(z, (tz.tzlocal, tz.tzutc))
            if z is cached and not local_ok:
                ctx.violation('fresh-constructor-returned-cached-object', case, '%r is the cached object' % (z,))
            elif not (z == cached and cached == z):
                ctx.violation('fresh-constructor-unequal', case, '%r != %r' % (z, cached))
            model[nk] = weakref.ref(cached)
            del z, cached, live
        elif r < .94 and fac.name == 'gettz':
            n = rng.choice([0, 1, 2, 5, 8, 20])
            hist.append(('set_cache_size', n))
            before = {k: w() for k, w in model.items()}
            tz.gettz.set_cache_size(n)
            ctx.ev()
            ctx.count('op_set_cache_size')
            ctx.distinct('gettz|set_cache_size|%d' % n)
            for k, obj in before.items():
                if obj is None:
                    continue
                try:
                    z = tz.gettz(k[0])
                except Exception as e:
                    ctx.violation('request-raised', dict(case, after='set_cache_size(%d)' % n), '%s: %s' % (type(e).__name__, e))
                    tz.gettz.set_cache_size(8)
                    break
                if z is not obj:
                    ctx.violation('identity-lost', dict(case, after='set_cache_size(%d)' % n), 'live zone %r was replaced by a new object' % (obj,))
                    break
            del before
        elif fac.name == 'gettz':
            hist.append(('cache_clear', None))
            olds = {k: w() for k, w in model.items()}
            tz.gettz.cache_clear()
            model.clear()          # a new generation of objects may start: identity is not demanded across cache_clear
            ctx.ev()
            ctx.count('op_cache_clear')
            ctx.distinct('gettz|cache_clear')
            for k, obj in list(olds.items())[:4]:
                if obj is None:
                    continue
                z = tz.gettz(k[0])
                if not (z == obj) or behaviour(z) != behaviour(obj):
                    ctx.violation('cache-clear-changed-meaning', case, '%r vs %r' % (z, obj))
                if tz.gettz(k[0]) is not z:
                    ctx.violation('identity-lost', dict(case, after='cache_clear'), 'two requests after cache_clear returned different objects')
                model[k] = weakref.ref(z)
                if k in kept:
                    kept[k] = z
            del olds
    if fac.name == 'gettz':
        tz.gettz.set_cache_size(8)
    ctx.count('histories_' + fac.name)


def check_tzutc(ctx, tz):
    for _ in range(20):
        ctx.ev()
        z = tz.tzutc()
        if z is not tz.UTC or tz.tzutc() is not z:
            ctx.violation('tzutc-not-singleton', {}, repr(z))
    ctx.distinct('tzutc|singleton')
    ctx.count('op_tzutc', 20)


# ---------------------------------------------------------------------------------------------
# (b) equality / copy / pickle
# ---------------------------------------------------------------------------------------------

def zone_pool(tz):
    from dateutil.relativedelta import relativedelta, SU
    pool = [('utc', tz.UTC), ('offset0', tz.tzoffset(None, 0)), ('offsetUTC', tz.tzoffset('UTC', 0)), ('offsetA', tz.tzoffset('A', 3600)),
            ('offsetB', tz.tzoffset('B', 3600)), ('offsetC', tz.tzoffset('A', -3600)), ('offset-inst', tz.tzoffset.instance('A', 3600)),
            ('str1', tz.tzstr('EST5EDT,M3.2.0/2,M11.1.0/2')), ('str1i', tz.tzstr.instance('EST5EDT,M3.2.0/2,M11.1.0/2')), ('str2', tz.tzstr('EST5EDT')),
            ('str3', tz.tzstr('CET-1CEST,M3.5.0,M10.5.0/3')), ('strfixed', tz.tzstr('EST5')),
            # 'GMT+h' forms: the sign convention is part of the object (posix_offset), also after a copy or a pickle
            ('gmt+3', tz.tzstr('GMT+3')), ('gmt+3-posix', tz.tzstr('GMT+3', posix_offset=True)), ('utc-4-posix', tz.tzstr('UTC-4', posix_offset=True)),
            ('gmt+3-rule-posix', tz.tzstr('GMT+3BST+2,M3.5.0,M10.5.0', posix_offset=True)), ('gmt+3-rule', tz.tzstr('GMT+3BST+2,M3.5.0,M10.5.0')),
            ('utc+0530-posix', tz.tzstr('UTC+05:30', posix_offset=True)), ('gmt+3-inst-posix', tz.tzstr.instance('GMT+3', True)),
            ('range1', tz.tzrange('EST', -18000, 'EDT')),
            ('range2', tz.tzrange('EST', -18000, 'EDT', -14400, relativedelta(hours=+2, month=4, day=1, weekday=SU(+1)),
                                  relativedelta(hours=+1, month=10, day=31, weekday=SU(-1)))),
            ('range3', tz.tzrange('EST', -18000)), ('local', tz.tzlocal())]
    # rule zones that differ in exactly one ingredient (rule form, day, time, name, offset): whichever of them the
    # library calls equal must answer identically everywhere
    for i, s_ in enumerate(('EST5EDT,J60/2,J300/2', 'EST5EDT,59/2,J300/2', 'EST5EDT,59/2,299/2', 'EST5EDT,J60/2,J300/3', 'EST5EDT,J61/2,J300/2',
                            'EST5EDT4,J60/2,J300/2', 'EST5EDT,M3.2.0,M11.1.0', 'EST5EDT,M3.2.0/2,M11.1.0/3', 'EST5EDT,M3.2.1/2,M11.1.0/2',
                            'EST5EDT,M3.3.0/2,M11.1.0/2', 'XST5EDT,M3.2.0/2,M11.1.0/2', 'EST5XDT,M3.2.0/2,M11.1.0/2', 'EST5EDT3,M3.2.0/2,M11.1.0/2',
                            'EST6EDT,M3.2.0/2,M11.1.0/2', 'EST5EDT,M11.1.0/2,M3.2.0/2')):
        try:
            pool.append(('near-str%d:%s' % (i, s_), tz.tzstr(s_)))
        except Exception:
            pass
    base = dict(hours=+2, month=3, day=1)
    for i, (kw1, kw2) in enumerate(((dict(base, weekday=SU(+2)), dict(hours=+1, month=11, day=1, weekday=SU(+1))),
                                    (dict(base, weekday=SU(+2), leapdays=1), dict(hours=+1, month=11, day=1, weekday=SU(+1))),
                                    (dict(base, weekday=SU(+2)), dict(hours=+1, month=11, day=1, weekday=SU(+1), leapdays=-1)),
                                    (dict(hours=+2, yearday=60), dict(hours=+1, yearday=300)),
                                    (dict(hours=+2, nlyearday=60), dict(hours=+1, yearday=300)),
                                    (dict(hours=+2, yearday=60), dict(hours=+1, nlyearday=300)),
                                    (dict(base, weekday=SU(+2), minutes=1), dict(hours=+1, month=11, day=1, weekday=SU(+1))),
                                    (dict(base, weekday=SU(+2)), dict(hours=+1, month=11, day=1, weekday=SU(+1), seconds=30)))):
        pool.append(('near-range%d' % i, tz.tzrange('EST', -18000, 'EDT', -14400, relativedelta(**kw1), relativedelta(**kw2))))
    for n in ('America/New_York', 'Europe/London', 'Europe/Dublin', 'Etc/GMT+5', 'Etc/GMT-3', 'Etc/UTC', 'Etc/GMT+6'):
        if not os.path.exists('/usr/share/zoneinfo/' + n):
            continue
        z = tz.gettz(n)
        if z is not None:
            pool.append(('file:' + n, z))
            pool.append(('file-path:' + n, tz.tzfile('/usr/share/zoneinfo/' + n)))
    # synthetic TZif zones that differ only in the parts a transition table does not show: the single type of a
    # transition-less file, and the type in force before the first transition
    import io
    from vf.oracles import tzif_ref
    W = tzif_ref.write_tzif
    t0 = 946684800
    for label, data in (('syn-fixed-west', W([], [], [(-18000, False, 'FWW')])), ('syn-fixed-east', W([], [], [(10800, False, 'FEE')])),
                        ('syn-fixed-west2', W([], [], [(-18000, False, 'FWW')])),
                        ('syn-lmt-a', W([t0], [1], [(3600, False, 'LMA'), (0, False, 'STD')])),
                        ('syn-lmt-b', W([t0], [1], [(7200, False, 'LMB'), (0, False, 'STD')])),
                        ('syn-lmt-a2', W([t0], [1], [(3600, False, 'LMA'), (0, False, 'STD')]))):
        pool.append((label, tz.tzfile(io.BytesIO(data), filename=label)))
    return pool


def equality_laws(ctx, tz):
    pool = zone_pool(tz)
    for name, z in pool:
        ctx.ev()
        ctx.count('law_reflexive')
        try:
            if not (z == z) or (z != z):
                ctx.violation('equality-not-reflexive', {'zone': name}, repr(z))
        except Exception as e:
            ctx.violation('equality-raised', {'zone': name}, repr(e))
    for na, a in pool:
        for nb, b in pool:
            ctx.ev()
            ctx.count('law_symmetric')
            try:
                ab, ba = (a == b), (b == a)
                nab = (a != b)
            except Exception as e:
                ctx.violation('equality-raised', {'a': na, 'b': nb}, repr(e))
                continue
            if bool(ab) != bool(ba):
                ctx.violation('equality-not-symmetric', {'a': na, 'b': nb}, '%s == %s is %r but the converse is %r' % (na, nb, ab, ba))
            if bool(nab) == bool(ab):
                ctx.violation('eq-ne-inconsistent', {'a': na, 'b': nb}, '== gives %r and != gives %r' % (ab, nab))
            if ab:
                ctx.count('equal_pairs')
                ctx.distinct('equal|%s|%s' % (type(a).__name__, type(b).__name__))
                dense = na.startswith('near-') or nb.startswith('near-')
                oa = [x[0] for x in behaviour(a, DENSE if dense else None)]
                ob = [x[0] for x in behaviour(b, DENSE if dense else None)]
                if dense and na != nb:
                    ctx.count('near_variant_pairs_called_equal')
                if oa != ob:
                    k = [i for i in range(len(oa)) if oa[i] != ob[i]][0]
                    w = (DENSE if dense else SAMPLE)[k // 2]
                    ctx.violation('equal-zones-different-offsets', {'a': na, 'b': nb},
                                  'the zones compare equal but at wall time %s fold=%d report %r vs %r' % (w.isoformat(), k % 2, oa[k], ob[k]))
    # tzlocal objects created under different process TZ settings (they snapshot their offsets), compared and probed
    # under each of the settings in turn
    from vf import tzmodels as TM
    old = os.environ.get('TZ')
    settings = ['EST5EDT,M3.2.0,M11.1.0', 'EST5', 'XST5XDT,M3.2.0,M11.1.0', 'EST5EDT4:30,M3.2.0,M11.1.0', 'CST6CDT,M3.2.0,M11.1.0', 'EST4EDT,M3.2.0,M11.1.0']
    settings += ['UTC+3', 'GMT-5', 'UTC0', 'GMT0']
    try:
        locals_ = []
        for s_ in settings:
            TM.set_process_tz(s_)
            locals_.append((s_, tz.tzlocal()))
        # fixed zones join the comparison: a local zone that merely carries the name UTC / GMT is not UTC
        locals_ += [('tz.UTC', tz.UTC), ('tzoffset(None,0)', tz.tzoffset(None, 0)), ("tzoffset('UTC',-10800)", tz.tzoffset('UTC', -10800)),
                    ("tzoffset('GMT',18000)", tz.tzoffset('GMT', 18000))]
        for cur in settings[:3]:
            TM.set_process_tz(cur)
            for na, a in locals_:
                for nb, b in locals_:
                    ctx.ev()
                    ctx.count('law_tzlocal_pairs')
                    if bool(a == b) != bool(b == a):
                        ctx.violation('equality-not-symmetric', {'a': 'tzlocal@' + na, 'b': 'tzlocal@' + nb}, 'asymmetric')
                    if a == b and na != nb:
                        ctx.count('tzlocal_pairs_called_equal')
                    if a == b:
                        oa, ob = [x[0] for x in behaviour(a)], [x[0] for x in behaviour(b)]
                        if oa != ob:
                            ctx.violation('equal-zones-different-offsets', {'a': 'tzlocal created under TZ=' + na, 'b': 'tzlocal created under TZ=' + nb, 'TZ': cur},
                                          'the zones compare equal but report %r vs %r' % (oa[:4], ob[:4]))
        # copies and pickles of a tzlocal made after the process setting changed are the zone that was copied, not a fresh
        # reading of the environment
        for na, a in locals_[:len(settings)]:
            for cur in ('JST-9', 'EST5EDT,M3.2.0,M11.1.0'):
                if cur == na:
                    continue
                TM.set_process_tz(cur)
                ref = behaviour(a)
                for fname, f in [('copy', copy.copy), ('deepcopy', copy.deepcopy)] + [('pickle-%d' % p, (lambda o, p=p: pickle.loads(pickle.dumps(o, p))))
                                                                                      for p in (0, 2, pickle.HIGHEST_PROTOCOL)]:
                    ctx.ev()
                    ctx.count('law_tzlocal_copied_under_other_setting')
                    case = {'zone': 'tzlocal created under TZ=' + na, 'form': fname, 'TZ_at_copy': cur}
                    try:
                        c2 = f(a)
                    except Exception as e:
                        ctx.violation('copy-or-pickle-raised', case, '%s: %s' % (type(e).__name__, e))
                        continue
                    if not (c2 == a and a == c2) or behaviour(c2) != ref:
                        ctx.violation('copy-differs', case, 'the copy is %s the original and reports %r, the original %r' % (
                            'equal to' if c2 == a else 'not equal to', behaviour(c2)[:2], ref[:2]))
    finally:
        TM.set_process_tz(old)
    # gettz('') means "the local zone": whenever that is not a tzlocal object (TZ holds a name or a rule string) the
    # result is shared like any other named zone
    try:
        for s_ in ('XST5XDT,M3.2.0,M11.1.0', 'UTC', 'Europe/London', 'QST-3'):
            TM.set_process_tz(s_)
            tz.gettz.cache_clear()
            a = tz.gettz('')
            b = tz.gettz('')
            ctx.ev()
            ctx.count('law_gettz_empty_name')
            if a is None or isinstance(a, tz.tzlocal):
                ctx.count('gettz_empty_name_is_tzlocal')
                continue
            if a is not b:
                ctx.violation('two-live-objects-for-one-key', {'factory': 'gettz', 'key': '', 'TZ': s_},
                              "gettz('') returned %r and then another object %r while the first was alive" % (a, b))
    finally:
        TM.set_process_tz(old)
        tz.gettz.cache_clear()
    for name, z in pool:
        ref = behaviour(z)
        forms = [('copy', copy.copy), ('deepcopy', copy.deepcopy)] + [('pickle-%d' % p, (lambda o, p=p: pickle.loads(pickle.dumps(o, p))))
                                                                      for p in range(pickle.HIGHEST_PROTOCOL + 1)]
        for fname, f in forms:
            ctx.ev()
            ctx.count('law_' + fname.split('-')[0])
            ctx.distinct('%s|%s' % (fname, type(z).__name__))
            case = {'zone': name, 'form': fname}
            try:
                z2 = f(z)
            except Exception as e:
                ctx.violation('copy-or-pickle-raised', case, '%s: %s' % (type(e).__name__, e))
                continue
            try:
                if not (z2 == z and z == z2):
                    ctx.violation('copy-or-pickle-unequal', case, '%r != %r' % (z2, z))
                elif behaviour(z2) != ref:
                    ctx.violation('copy-or-pickle-behaves-differently', case, repr(z2))
            except Exception as e:
                ctx.violation('copy-or-pickle-broken-object', case, '%s: %s' % (type(e).__name__, e))


# ---------------------------------------------------------------------------------------------
# (c) concurrency
# ---------------------------------------------------------------------------------------------

def factory_codes(tz):
    from dateutil.tz import _factories
    W = weakref.WeakValueDictionary
    out = []
    for f in (type(tz.tzoffset).__call__, type(tz.tzstr).__call__, type(tz.gettz).__call__,
              W.get, W.setdefault, W.__setitem__, W.__getitem__, W.__contains__):
        c = getattr(f, '__code__', None)
        if c is not None and c not in out:
            out.append(c)
    return out


COUNTER = [0]


def fresh_key(kind):
    COUNTER[0] += 1
    n = COUNTER[0]
    if kind == 'tzoffset':
        return ('K%d' % n, 100000 + n)
    if kind == 'tzstr':
        return ('Q%s%d' % ('ABCDEFGHIJ'[n % 10] * 3, 1 + n % 11), False)
    return None


STUCK = [False]      # a scheduled run left threads blocked (possibly holding factory locks): no further thread scenarios in this shard


def scheduled_race(ctx, tz, kind, ntasks, policy, label, sigs, neighbours=0, prewarm=False):
    """prewarm: the key is requested (and kept referenced) before the tasks start, so that the tasks' requests are cache hits
    - which neighbours' requests may evict from the bounded strong cache in the middle of a hit"""
    if STUCK[0]:
        return
    if kind == 'tzoffset':
        key = fresh_key(kind)
        others = [fresh_key(kind) for _ in range(neighbours)]
        req = lambda k: tz.tzoffset(*k)
        lock_owner, lock_attr = tz.tzoffset, '_cache_lock'
    elif kind == 'tzstr':
        key = fresh_key(kind)
        others = [fresh_key(kind) for _ in range(neighbours)]
        req = lambda k: tz.tzstr(k[0], posix_offset=k[1])
        lock_owner, lock_attr = tz.tzstr, '_TzStrFactory__cache_lock'
    else:
        names = ['Europe/Paris', 'Europe/Madrid', 'Europe/Rome', 'Asia/Seoul', 'Asia/Bangkok', 'America/Denver', 'America/Chicago', 'Africa/Lagos',
                 'Europe/Vienna', 'Europe/Oslo', 'Asia/Manila', 'America/Lima']
        names = [n for n in names if os.path.exists('/usr/share/zoneinfo/' + n)]
        tz.gettz.cache_clear()
        key = (names[COUNTER[0] % len(names)],)
        COUNTER[0] += 1
        others = [(names[(COUNTER[0] + i + 1) % len(names)],) for i in range(neighbours)]
        req = lambda k: tz.gettz(k[0])
        lock_owner, lock_attr = tz.gettz, '_cache_lock'
    held = req(key) if prewarm else None
    if prewarm:
        ctx.count('scheduled_runs_prewarmed')
    s = S.Sched(policy, factory_codes(tz), max_steps=60000)
    real = getattr(lock_owner, lock_attr)
    lock = S.ProxyLock(s, kind + '.lock')
    setattr(lock_owner, lock_attr, lock)
    s.install()

    def task(i):
        def f():
            out = []
            if neighbours and i % 2:
                for k in others:
                    out.append(req(k))
                if prewarm:
                    # (this task only evicts: requesting the key again would put it back before the other task resumes)
                    out.append(held)
                    return out
            z = req(key)
            # a half-built zone would fail here
            z.utcoffset(D.datetime(2020, 1, 1))
            out.append(z)
            return out
        return f
    try:
        results, completed = s.run([task(i) for i in range(ntasks)])
    finally:
        s.uninstall()
        setattr(lock_owner, lock_attr, real)
    ctx.ev()
    ctx.count('scheduled_runs_' + kind)
    ctx.count('scheduled_switches', len(s.trace))
    sig = s.signature()
    sigs.add((kind, ntasks, neighbours, sig))
    ctx.distinct('sched|%s|%d|%d|%s' % (kind, ntasks, neighbours, sig))
    case = {'scenario': 'factory-race', 'factory': kind, 'tasks': ntasks, 'neighbours': neighbours, 'policy': label,
            'schedule': [(a, b, str(c), d) for a, b, c, d in s.trace][:300]}
    if not completed:
        STUCK[0] = True
        ctx.inconclusive_because('scheduler did not complete a run')
        return
    if s.aborted:
        ctx.count('step_budget_aborts')
        return
    if s.deadlock:
        ctx.violation('deadlock', case, repr(s.deadlock))
        return
    objs = []
    for i in range(ntasks):
        r = results.get('T%d' % i)
        if r is None or r[0] != 'ok':
            ctx.violation('request-raised-under-threads', case, 'T%d: %r' % (i, r))
            return
        objs.append(r[1][-1])
    if held is not None and any(o is not held for o in objs):
        ctx.violation('identity-lost', case, 'the zone obtained before the tasks started is still referenced, a task got another object')
    elif len({id(o) for o in objs}) != 1:
        ctx.violation('two-live-objects-for-one-key', case, 'tasks obtained %d different objects for %r' % (len({id(o) for o in objs}), key))
    elif req(key) is not objs[0]:
        ctx.violation('identity-lost', case, 'a later request returned another object')


def scheduled_clear(ctx, tz, policy, label, sigs):
    """gettz requests racing with cache_clear(): every request that ends after the clear has finished must return the
    same object, and the factory must still use the lock it was created with."""
    if STUCK[0]:
        return
    names = [n for n in ('Europe/Paris', 'Europe/Madrid', 'Asia/Seoul', 'America/Denver') if os.path.exists('/usr/share/zoneinfo/' + n)]
    if not names:
        return
    tz.gettz.cache_clear()
    name = names[COUNTER[0] % len(names)]
    COUNTER[0] += 1
    s = S.Sched(policy, factory_codes(tz) + [type(tz.gettz).cache_clear.__code__], max_steps=60000)
    real = tz.gettz._cache_lock
    lock = S.ProxyLock(s, 'gettz.lock')
    tz.gettz._cache_lock = lock
    seq = [0]
    log = []
    clear_done = [None]

    def req():
        z = tz.gettz(name)
        seq[0] += 1
        log.append((seq[0], z))
        return z

    def clearer():
        tz.gettz.cache_clear()
        seq[0] += 1
        clear_done[0] = seq[0]
        return req()
    s.install()
    try:
        results, completed = s.run([req, clearer, req, req], join_timeout=15)
    finally:
        s.uninstall()
        replaced = tz.gettz._cache_lock is not lock
        tz.gettz._cache_lock = real
    ctx.ev()
    ctx.count('scheduled_runs_gettz_clear')
    sigs.add(('clear', s.signature()))
    ctx.distinct('sched|gettz-clear|%s' % s.signature())
    case = {'scenario': 'gettz-cache-clear-race', 'policy': label, 'schedule': [(a, b, str(c), d) for a, b, c, d in s.trace][:300]}
    if replaced:
        STUCK[0] = True
        ctx.violation('factory-lock-replaced', case, 'gettz no longer uses the lock object it had when the run started: threads waiting on the '
                                                     'old lock and new arrivals are no longer mutually exclusive')
        return
    if not completed:
        STUCK[0] = True
        ctx.inconclusive_because('scheduler did not complete a cache_clear run')
        return
    if s.deadlock:
        ctx.violation('deadlock', case, repr(s.deadlock))
        return
    for i in range(4):
        r = results.get('T%d' % i)
        if r is None or r[0] != 'ok':
            ctx.violation('request-raised-under-threads', case, 'T%d: %r' % (i, r))
            return
    # order of the critical sections, taken from the lock's own event log (the monitor's view is updated under the
    # lock it observes; a counter bumped after release() would race with the scheduler)
    acqs = [e[1] for e in lock.events if e[0] == 'acq']
    after = []
    seen_clear = False
    t1_count = 0
    for t in acqs:
        if t == 'T1':
            t1_count += 1
            if t1_count == 1:
                seen_clear = True
                continue
        if seen_clear:
            after.append(results[t][1])
    if len({id(z) for z in after}) > 1:
        ctx.violation('two-live-objects-for-one-key', case, '%d different objects were returned by requests that ended after cache_clear() had finished' % len({id(z) for z in after}))
    elif after and tz.gettz(name) is not after[-1]:
        ctx.violation('identity-lost', case, 'a later request returned another object')


def scheduled_drop(ctx, tz, kind, policy, label, sigs):
    """a request for a key whose only live reference is dropped by another thread while the request is inside the
    factory (the object is no longer in the strong cache, so it dies at that moment): the request must still
    return a zone for the key - never an exception, never a dead or foreign object"""
    if STUCK[0]:
        return
    import gc
    if kind == 'tzoffset':
        key = fresh_key(kind)
        fill = [fresh_key(kind) for _ in range(10)]
        req = lambda k: tz.tzoffset(*k)
        lock_owner, lock_attr = tz.tzoffset, '_cache_lock'
    else:
        key = fresh_key('tzstr')
        fill = [fresh_key('tzstr') for _ in range(10)]
        req = lambda k: tz.tzstr(k[0], posix_offset=k[1])
        lock_owner, lock_attr = tz.tzstr, '_TzStrFactory__cache_lock'
    holder = [req(key)]
    want = behaviour(holder[0])
    pushed = [req(k) for k in fill]          # evicts `key` from the strong cache; the holder keeps it alive
    del pushed
    s = S.Sched(policy, factory_codes(tz), max_steps=60000)
    real = getattr(lock_owner, lock_attr)
    lock = S.ProxyLock(s, kind + '.lock')
    setattr(lock_owner, lock_attr, lock)

    def dropper():
        holder.clear()
        gc.collect()
        return None
    s.install()
    try:
        results, completed = s.run([lambda: req(key), dropper, lambda: req(key)], join_timeout=15)
    finally:
        s.uninstall()
        setattr(lock_owner, lock_attr, real)
    ctx.ev()
    ctx.count('scheduled_runs_drop_' + kind)
    sigs.add(('drop', kind, s.signature()))
    ctx.distinct('sched|drop|%s|%s' % (kind, s.signature()))
    case = {'scenario': 'reference-dropped-during-request', 'factory': kind, 'policy': label,
            'schedule': [(a, b, str(c), d) for a, b, c, d in s.trace][:300]}
    if not completed:
        STUCK[0] = True
        ctx.inconclusive_because('scheduler did not complete a drop run')
        return
    if s.deadlock:
        ctx.violation('deadlock', case, repr(s.deadlock))
        return
    for i in (0, 2):
        r = results.get('T%d' % i)
        if r is None or r[0] != 'ok':
            ctx.violation('request-raised-under-threads', case, 'T%d: %r' % (i, r))
            return
        try:
            if behaviour(r[1]) != want:
                ctx.violation('wrong-zone-under-threads', case, 'T%d got %r' % (i, r[1]))
                return
        except Exception as e:
            ctx.violation('half-built-zone', case, 'T%d: %r' % (i, e))
            return


def scheduled_trim(ctx, tz, policy, label, sigs):
    """gettz requests that make the strong cache overflow (size 1, several names) racing with cache_clear() /
    set_cache_size(0): cache maintenance only affects retention - no request may raise, every result is the zone asked for"""
    if STUCK[0]:
        return
    names = [n for n in ('Europe/Paris', 'Europe/Madrid', 'Asia/Seoul', 'America/Denver') if os.path.exists('/usr/share/zoneinfo/' + n)]
    if len(names) < 3:
        return
    g = tz.gettz
    g.cache_clear()
    g.set_cache_size(1)
    keep = g(names[0])
    variant = COUNTER[0] % 2
    COUNTER[0] += 1
    codes = factory_codes(tz) + [type(g).cache_clear.__code__, type(g).set_cache_size.__code__]
    s = S.Sched(policy, codes, max_steps=60000)
    real = g._cache_lock
    lock = S.ProxyLock(s, 'gettz.lock')
    g._cache_lock = lock

    def maint():
        if variant:
            g.cache_clear()
        else:
            g.set_cache_size(0)
        return g(names[0])
    s.install()
    try:
        results, completed = s.run([lambda: g(names[1]), maint, lambda: g(names[2]), lambda: g(names[1])], join_timeout=15)
    finally:
        s.uninstall()
        g._cache_lock = real
        if not (s.deadlock or s.aborted) and all(not t.is_alive() for t in getattr(s, 'threads', [])):
            g.set_cache_size(8)
    ctx.ev()
    ctx.count('scheduled_runs_gettz_trim')
    sigs.add(('trim', s.signature()))
    ctx.distinct('sched|gettz-trim|%d|%s' % (variant, s.signature()))
    case = {'scenario': 'gettz-trim-vs-' + ('cache_clear' if variant else 'set_cache_size(0)'), 'policy': label,
            'schedule': [(a, b, str(c), d) for a, b, c, d in s.trace][:300]}
    if not completed:
        STUCK[0] = True
        ctx.inconclusive_because('scheduler did not complete a trim run')
        return
    if s.deadlock:
        ctx.violation('deadlock', case, repr(s.deadlock))
        return
    want = [names[1], names[0], names[2], names[1]]
    for i in range(4):
        r = results.get('T%d' % i)
        if r is None or r[0] != 'ok':
            ctx.violation('request-raised-under-threads', case, 'T%d: %r' % (i, r))
            return
        if r[1] is None or not repr(r[1]).count(want[i]):
            ctx.violation('wrong-zone-under-threads', case, 'T%d asked for %s and got %r' % (i, want[i], r[1]))
            return
    del keep


def free_running(ctx, tz, rounds, nthreads):
    if STUCK[0]:
        return
    guards, unguard = locks.install_guards(locks.tz_factory_locks())
    sys.setswitchinterval(1e-6)
    try:
        for r in range(rounds):
            kind = ('tzoffset', 'tzstr', 'gettz')[r % 3]
            if kind == 'gettz':
                tz.gettz.cache_clear()
                key = ('Europe/Paris',) if os.path.exists('/usr/share/zoneinfo/Europe/Paris') else ('UTC',)
                req = lambda k: tz.gettz(k[0])
            elif kind == 'tzoffset':
                key = fresh_key(kind)
                req = lambda k: tz.tzoffset(*k)
            else:
                key = fresh_key(kind)
                req = lambda k: tz.tzstr(k[0], posix_offset=k[1])
            out = [None] * nthreads
            barrier = threading.Barrier(nthreads)

            def w(i):
                barrier.wait()
                try:
                    z = req(key)
                    z.utcoffset(D.datetime(2020, 1, 1))
                    out[i] = ('ok', z)
                except BaseException as e:
                    out[i] = ('exc', repr(e))
            ths = [threading.Thread(target=w, args=(i,), daemon=True) for i in range(nthreads)]
            [t.start() for t in ths]
            [t.join(timeout=20) for t in ths]
            ctx.ev()
            ctx.count('free_running_rounds')
            case = {'scenario': 'free-running', 'factory': kind, 'threads': nthreads}
            if any(t.is_alive() for t in ths):
                ctx.inconclusive_because('free-running round did not finish')
                return
            if any(o is None or o[0] != 'ok' for o in out):
                ctx.violation('request-raised-under-threads', case, repr([o for o in out if o is None or o[0] != 'ok'][:2]))
                return
            if len({id(o[1]) for o in out}) != 1:
                ctx.violation('two-live-objects-for-one-key', case, '%d different objects for %r' % (len({id(o[1]) for o in out}), key))
                return
    finally:
        sys.setswitchinterval(0.005)
        unguard()


def failed_then_valid(ctx, tz):
    """a request that the factory rejects (its construction raises) must leave the factory usable: once the call is
    over no cache lock is held (read from the guard locks' wait-for state, not from a timer), and the next valid request
    from the same or another thread returns the shared object"""
    if STUCK[0]:
        return
    bad_requests = [('tzoffset', lambda: tz.tzoffset('B', '7200')), ('tzoffset', lambda: tz.tzoffset('B', None)),
                    ('tzoffset', lambda: tz.tzoffset(['unhashable'], 3600)), ('tzoffset', lambda: tz.tzoffset('B', 3600, 1)),
                    ('tzstr', lambda: tz.tzstr(None)), ('tzstr', lambda: tz.tzstr(12)), ('tzstr', lambda: tz.tzstr('not a TZ string at all !')),
                    ('tzstr', lambda: tz.tzstr('')), ('tzstr', lambda: tz.tzstr(['EST5EDT'])),
                    ('gettz', lambda: tz.gettz(5)), ('gettz', lambda: tz.gettz(['Europe/Paris'])), ('gettz', lambda: tz.gettz(b'UTC')),
                    ('gettz', lambda: tz.gettz('Nowhere/At_All'))]
    valid = {'tzoffset': lambda: tz.tzoffset('AfterFailure', 5400), 'tzstr': lambda: tz.tzstr('AAA3BBB,M3.2.0,M11.1.0'),
             'gettz': lambda: tz.gettz('UTC')}
    for i, (kind, bad) in enumerate(bad_requests):
        guards, unguard = locks.install_guards(locks.tz_factory_locks())
        case = {'scenario': 'failed-then-valid', 'factory': kind, 'bad_request_index': i}
        try:
            try:
                bad()
                outcome = 'returned'
            except locks.SelfDeadlock:
                raise
            except Exception as e:
                outcome = type(e).__name__
            ctx.ev()
            ctx.count('failed_then_valid_' + ('rejected' if outcome != 'returned' else 'accepted'))
            held = [g.name for g in guards if g.locked()]
            if held:
                ctx.violation('lock-held-after-failed-request', dict(case, outcome=outcome), 'after the request (%s) the cache lock(s) %r are still held: '
                              'every later request blocks forever' % (outcome, held))
                for g in guards:
                    if g.locked():
                        g.release()
                continue
            try:
                first = valid[kind]()
                box = []
                t = threading.Thread(target=lambda: box.append(valid[kind]()), daemon=True)
                t.start()
                t.join(30)
                if not box:
                    ctx.inconclusive_because('request from a second thread after a failed request did not finish')
                    STUCK[0] = True
                    return
                if first is None or box[0] is not first:
                    ctx.violation('two-live-objects-for-one-key', case, 'after a failed request: %r then %r' % (first, box[0]))
            except locks.SelfDeadlock as e:
                ctx.violation('deadlock', case, str(e))
            except Exception as e:
                ctx.violation('request-raised', case, 'valid request after a failed one raised %r' % (e,))
        finally:
            unguard()


def run(ctx):
    from dateutil import tz
    rng = ctx.rng
    if ctx.shard == 0:
        failed_then_valid(ctx, tz)
    tz.gettz.cache_clear()
    tz.gettz.set_cache_size(8)
    for kind in ('tzoffset', 'tzstr', 'gettz'):
        fac = Factory(kind, tz, rng)
        for _ in range(N_HIST[ctx.tier] // 3):
            history(ctx, fac, rng, rng.randint(60, 300))
            if not ctx.time_left():
                break
    check_tzutc(ctx, tz)
    if ctx.shard == 0:
        equality_laws(ctx, tz)
    # threads
    sigs = set()
    for kind in ('tzoffset', 'tzstr', 'gettz'):
        # measure yield points with the non-preemptive plan, then every single preemption
        s0sigs = set()
        probe = S.PlanPolicy({})
        scheduled_race(ctx, tz, kind, 2, probe, 'plan0', s0sigs)
        K = 400
        for k in range(1 + ctx.shard, K, ctx.nshards):
            for t in ('T0', 'T1'):
                scheduled_race(ctx, tz, kind, 2, S.PlanPolicy({k: t}), 'plan1', sigs)
                ctx.count('systematic_runs')
            if not ctx.time_left():
                break
    # a hit on a key that other requests evict from the strong cache meanwhile: every single preemption of the hitting task
    for kind in ('tzoffset', 'tzstr'):
        for k in range(1 + ctx.shard, 90, ctx.nshards):
            scheduled_race(ctx, tz, kind, 2, S.PlanPolicy({k: 'T1'}), 'plan1-prewarmed', sigs, neighbours=9, prewarm=True)
    n = 0
    while ctx.time_left() and n < (300 if ctx.tier == 'quick' else 15000):
        n += 1
        kind = rng.choice(['tzoffset', 'tzoffset', 'tzstr', 'gettz'])
        nt = rng.randint(2, 4)
        if rng.random() < .5:
            pol, label = S.RandomPolicy(rng, rng.choice([.05, .2, .5])), 'random'
        else:
            pol, label = S.PCTPolicy(rng, nt, depth=rng.randint(1, 3), horizon=150), 'pct'
        scheduled_race(ctx, tz, kind, nt, pol, label, sigs, neighbours=rng.choice([0, 0, 3, 9]))
    for k in range(1 + ctx.shard, 160, ctx.nshards):
        for t in ('T0', 'T1', 'T2', 'T3'):
            scheduled_clear(ctx, tz, S.PlanPolicy({k: t}), 'plan1', sigs)
    for _ in range(60 if ctx.tier == 'quick' else 3000):
        scheduled_clear(ctx, tz, S.RandomPolicy(rng, rng.choice([.1, .3, .6])) if rng.random() < .5 else S.PCTPolicy(rng, 4, depth=rng.randint(1, 3), horizon=120),
                        'random', sigs)
    for kind in ('tzoffset', 'tzstr'):
        for k in range(1 + ctx.shard, 60, ctx.nshards):
            for t in ('T0', 'T1', 'T2'):
                scheduled_drop(ctx, tz, kind, S.PlanPolicy({k: t}), 'plan1', sigs)
        for _ in range(20 if ctx.tier == 'quick' else 1500):
            scheduled_drop(ctx, tz, kind, S.RandomPolicy(rng, rng.choice([.1, .3, .6])), 'random', sigs)
    for k in range(1 + ctx.shard, 200, ctx.nshards):
        for t in ('T0', 'T1', 'T2', 'T3'):
            scheduled_trim(ctx, tz, S.PlanPolicy({k: t}), 'plan1', sigs)
    for _ in range(40 if ctx.tier == 'quick' else 3000):
        scheduled_trim(ctx, tz, S.RandomPolicy(rng, rng.choice([.1, .3, .6])) if rng.random() < .5 else S.PCTPolicy(rng, 4, depth=rng.randint(1, 3), horizon=160),
                       'random', sigs)
    ctx.count('distinct_interleavings', len(sigs))
    free_running(ctx, tz, 60 if ctx.tier == 'quick' else 1500, rng.randint(4, 8))
    ctx.sample({'scenario': 'factory-race', 'distinct_interleavings_this_shard': len(sigs)})
    ctx.sample({'scenario': 'history', 'factories': ['tzoffset', 'tzstr', 'gettz'], 'pool_sizes': [21, 17, 17]})


def floors(agg, tier):
    c, out = agg['counters'], []
    for k, n in (('op_request', 5000), ('requests_with_live_object', 2000), ('op_fresh', 500), ('op_set_cache_size', 50), ('op_cache_clear', 30),
                 ('op_gc', 300), ('law_symmetric', 300), ('equal_pairs', 30), ('law_pickle', 60), ('law_copy', 15), ('law_deepcopy', 15),
                 ('scheduled_runs_tzoffset', 300), ('scheduled_runs_tzstr', 200), ('scheduled_runs_gettz', 200), ('scheduled_runs_gettz_clear', 300), ('scheduled_runs_gettz_trim', 300), ('scheduled_runs_drop_tzoffset', 100), ('scheduled_runs_drop_tzstr', 100), ('systematic_runs', 400),
                 ('distinct_interleavings', 400), ('free_running_rounds', 200), ('failed_then_valid_rejected', 6), ('scheduled_runs_prewarmed', 100)):
        if c.get(k, 0) < n:
            out.append('%s only %d (< %d)' % (k, c.get(k, 0), n))
    return out


def replay(ctx, case):
    from dateutil import tz
    if case.get('scenario') == 'factory-race':
        plan = {}
        for st, frm, where, to in case.get('schedule', []):
            if not str(where).startswith('BLOCK') and where != 'END':
                plan[st] = to
        scheduled_race(ctx, tz, case['factory'], case['tasks'], S.PlanPolicy(plan), 'replay', set(), case.get('neighbours', 0))
    elif 'form' in case or 'a' in case:
        equality_laws(ctx, tz)
    else:
        ctx.note('replay', 're-run the check with the recorded seed (history of %r)' % case.get('factory'))
