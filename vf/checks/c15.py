"""C15 - parse() options: default fill-in, time-zone resolution and fuzzy modes."""
import calendar
import datetime as D
import time
import warnings

from vf import mon_parse, render_gen
from vf.checks import c14 as soup

PROPERTY = 'C15'
LEVEL = 'exploration'
RULE = ('Four seeded workloads on the real parse(), all observed by the parser.parse monitor.  (a) default fill-in: every field '
        'subset expressible as text (time only at h / hm / hms / fraction precision, year only, month name only, month+year, '
        'day+month, ISO year-month, date only, bare weekday, weekday+time) x defaults with day 28-31, 29 Feb, non-zero time and '
        'microseconds, naive and aware: absent fields must come from the default, the day is clipped to the month end, a bare '
        'weekday moves the default forward (never backward, zero days when it already matches).  (b) zone resolution order: '
        'tzinfos as dict of tzinfo / TZ string / int and as callable (precedence over local names and UTC designators), local '
        'zone names of the process TZ (one TZ per shard: UTC, America/New_York, Europe/London, Asia/Kolkata; incl. the '
        'ambiguous hour and GMT-in-summer), Z / UTC / GMT and zero offsets -> UTC, numeric offsets -> fixed offset zones, '
        '"GMT+h" / "UTC-h" / "NAME+h" sign reversal, ignoretz (same wall time, naive), unknown abbreviation -> naive plus '
        'UnknownTimezoneWarning.  (c) fuzzy: sentences = inert filler + one rendering (random template) + filler; fuzzy must '
        'return that date, fuzzy_with_tokens the same datetime, every filler word inside the skipped tuple in input order, '
        'skipped strings are substrings of the input in order; AM/PM look-alikes that cannot be flags (no hour yet, hour > 12, '
        'flag already set) must be reported as skipped.  (d) relation: any token soup or rendering accepted without fuzzy gives '
        'the same result with fuzzy and fuzzy_with_tokens.  Non-trivial = every case; distinct = (workload, field subset / '
        'branch / template, default-day class, zone form, process TZ).'
        ' Also: two-member numeric day/month texts under dayfirst, and in-process TZ switches (tzset) between zones that share abbreviations but not offsets, through the module-level parser and a reused parser instance.')
ASSUMPTIONS = ['filler vocabulary is inert (lower/mixed-case words that are no month, weekday, AM/PM, h/m/s, jump or zone word)',
               'vf/render_gen.py templates', 'local zone names come from the C library via time.tzname for the shard\'s TZ']
MANIFEST = {
    'technique': 'runtime monitor on parse() with renderer-based expectations for partial texts and zone spellings, plus relational (fuzzy vs non-fuzzy, with-tokens vs fuzzy) and conservation checks on skipped tokens',
    'level_text': 'The option semantics are exercised on tens of thousands of seeded partial renderings, zone spellings and filler '
                  'sentences under four process time zones; expectations are computed independently (or relationally where the '
                  'property is relational).  Exploration level.',
    'level_note': 'Trusts the renderer, CPython datetime and the C library\'s local-time names; tzlocal behaviour itself is C08/C04\'s subject.',
}
PLAN = {'quick': {'shards': 4, 'timeout': 1800, 'budget': 900},
        'thorough': {'shards': 16, 'timeout': 7200, 'budget': 2400}}
N_ROUNDS = {'quick': 2500, 'thorough': 25000}
TZS = ['UTC', 'America/New_York', 'Europe/London', 'Asia/Kolkata']
FILLER = ['Today', 'meeting', 'report', 'around', 'about', 'held', 'was', 'the', 'is', 'our', 'next', 'release', 'planned',
          'for', 'scheduled', 'lunch', 'with', 'Bob', 'see', 'you', 'then', 'approximately', 'roughly', 'deadline', 'it']


WHITESPACE = ['\t', '\n', '\r', '\x0b', '\x0c', '\xa0', '\u2003', ' ']


def shard_env(shard, nshards):
    return {'TZ': TZS[shard % len(TZS)]}


def gen_default(rng, tz):
    y = rng.choice([1999, 2000, 2003, 2023, 2024, rng.randint(1900, 2100), rng.choice([1800, 1900, 2100, 2200])])
    m = rng.choice([1, 2, 3, 5, 8, 10, 12, rng.randint(1, 12)])
    d = min(rng.choice([28, 29, 30, 31, 31, rng.randint(1, 31)]), calendar.monthrange(y, m)[1])
    if rng.random() < .15:
        y, m, d = 2024, 2, 29
    dt = D.datetime(y, m, d, rng.randint(0, 23), rng.randint(0, 59), rng.randint(0, 59), rng.choice([0, 5, 999999]))
    if rng.random() < .2:
        dt = dt.replace(tzinfo=rng.choice([tz.UTC, tz.tzoffset('DEF', 7200)]))
    return dt


def partial_text(rng):
    """-> (label, text, given fields dict, weekday or None)"""
    y = rng.choice([1999, 2000, 2003, 2023, 2024, rng.randint(1000, 9999), rng.choice([1800, 1900, 2100, 2200])])
    m = rng.choice([2, rng.randint(1, 12), rng.randint(1, 12)])
    d = rng.randint(1, calendar.monthrange(y, m)[1])
    h, mi, s, us = rng.randint(0, 23), rng.randint(0, 59), rng.randint(0, 59), rng.choice([0, 500000, 123456])
    mon = rng.choice([render_gen.MON[m - 1], render_gen.MONTH[m - 1]])
    form = rng.choice(['h-ampm', 'hm', 'hms', 'frac', 'year', 'month', 'month-year', 'day-month', 'month-day', 'iso-ym', 'date',
                       'weekday', 'weekday-hm', 'date-hm', 'hms-h', 'weekday-month', 'weekday-month', 'weekday-month-year',
                       'dm-numeric', 'md-numeric'])
    if form in ('dm-numeric', 'md-numeric'):
        # two numbers: day and month in the order the dayfirst flag says (a first member > 12 can only be the day)
        sep = rng.choice(['/', '-', ' '])          # not '.': two numbers joined by a dot are one decimal number
        tail = rng.choice(['', '', ' %02d:%02d' % (h, mi)])
        given = {'day': d, 'month': m}
        if tail:
            given.update(hour=h, minute=mi)
        if form == 'dm-numeric':
            return form, '%02d%s%02d%s' % (d, sep, m, tail), given, None, {'dayfirst': True}
        if d > 12:
            d = rng.randint(1, 12)
            given['day'] = d
        return form, '%02d%s%02d%s' % (m, sep, d, tail), given, None, rng.choice([{}, {'dayfirst': False}])
    if form == 'h-ampm':
        hh, ap = (12 if h % 12 == 0 else h % 12), ('AM' if h < 12 else 'PM')
        return form, '%d %s' % (hh, ap), {'hour': h}, None
    if form == 'hm':
        return form, '%02d:%02d' % (h, mi), {'hour': h, 'minute': mi}, None
    if form == 'hms':
        return form, '%02d:%02d:%02d' % (h, mi, s), {'hour': h, 'minute': mi, 'second': s}, None
    if form == 'frac':
        return form, '%02d:%02d:%02d.%06d' % (h, mi, s, us), {'hour': h, 'minute': mi, 'second': s, 'microsecond': us}, None
    if form == 'hms-h':
        return form, '%02dh' % h, {'hour': h}, None
    if form == 'year':
        return form, '%04d' % y, {'year': y}, None
    if form == 'month':
        return form, mon, {'month': m}, None
    if form == 'month-year':
        return form, '%s %04d' % (mon, y), {'month': m, 'year': y}, None
    if form == 'day-month':
        return form, '%d %s' % (d, mon), {'day': d, 'month': m}, None
    if form == 'month-day':
        return form, '%s %d' % (mon, d), {'day': d, 'month': m}, None
    if form == 'iso-ym':
        return form, '%04d-%02d' % (y, m), {'year': y, 'month': m}, None
    if form == 'date':
        return form, '%04d-%02d-%02d' % (y, m, d), {'year': y, 'month': m, 'day': d}, None
    if form == 'date-hm':
        return form, '%s %d, %04d %02d:%02d' % (mon, d, y, h, mi), {'year': y, 'month': m, 'day': d, 'hour': h, 'minute': mi}, None
    wd = rng.randrange(7)
    name = rng.choice([render_gen.WD[wd], render_gen.WEEKDAY[wd]])
    if form == 'weekday':
        return form, name, {}, wd
    if form == 'weekday-month':
        return form, '%s %s' % (name, mon), {'month': m}, wd
    if form == 'weekday-month-year':
        return form, '%s %s %04d' % (name, mon, y), {'month': m, 'year': y}, wd
    return form, '%s %02d:%02d' % (name, h, mi), {'hour': h, 'minute': mi}, wd


def expected_fill(default, given, weekday):
    y = given.get('year', default.year)
    m = given.get('month', default.month)
    if 'day' in given:
        d = given['day']
    else:
        d = min(default.day, calendar.monthrange(y, m)[1])
    rep = dict(given, year=y, month=m, day=d)
    if 'second' in given:
        rep.setdefault('microsecond', 0)      # seconds written without a fraction are whole seconds
    try:
        exp = default.replace(**rep)
    except ValueError:
        return None        # e.g. '29 Feb' on a non-leap default year: no such date, the parser must refuse
    if weekday is not None and 'day' not in given:
        exp = exp + D.timedelta(days=(weekday - exp.weekday()) % 7)
    return exp


def same_dt(a, b):
    return (type(a) is D.datetime and a.replace(tzinfo=None) == b.replace(tzinfo=None) and
            (a.tzinfo is None) == (b.tzinfo is None) and (a.tzinfo is None or a.utcoffset() == b.utcoffset()))


def call(f, *a, **k):
    try:
        with warnings.catch_warnings(record=True) as w:
            warnings.simplefilter('always')
            r = f(*a, **k)
        return ('ok', r, [x.category.__name__ for x in w])
    except Exception as e:
        return ('exc', e, [])


def wl_default(ctx, P, tz, rng):
    default = gen_default(rng, tz)
    pt = partial_text(rng)
    label, text, given, wd = pt[:4]
    flags = pt[4] if len(pt) > 4 else {}
    judge_default(ctx, P, default, label, text, given, wd, flags)


def wl_default_century(ctx, P):
    """directed: February of century years (leap only when divisible by 400) against defaults on day 28-31, the year coming
    from the text or from the default"""
    for y in (1700, 1800, 1900, 2000, 2100, 2200, 2400, 2024, 2023):
        for day in (28, 29, 30, 31):
            for hour in (0, 23):
                d1 = D.datetime(2011, 5, day, hour, 59) if day < 31 else D.datetime(2011, 5, 31, hour, 59)
                judge_default(ctx, P, d1, 'century-month-year', 'Feb %04d' % y, {'month': 2, 'year': y}, None, {})
                judge_default(ctx, P, d1, 'century-iso-ym', '%04d-02' % y, {'month': 2, 'year': y}, None, {})
                judge_default(ctx, P, d1, 'century-month-year-hm', 'February %04d 10:30' % y, {'month': 2, 'year': y, 'hour': 10, 'minute': 30}, None, {})
                d2 = D.datetime(y, 1, day, hour, 59)
                judge_default(ctx, P, d2, 'century-month', 'Feb', {'month': 2}, None, {})
                judge_default(ctx, P, d2, 'century-month-hm', 'February 07:15', {'month': 2, 'hour': 7, 'minute': 15}, None, {})
                ctx.count('default_century_february')
        judge_default(ctx, P, D.datetime(2024, 2, 29, 12), 'century-year', '%04d' % y, {'year': y}, None, {})


def judge_default(ctx, P, default, label, text, given, wd, flags):
    exp = expected_fill(default, given, wd)
    r = call(P.parse, text, default=default, **flags)
    ctx.ev()
    ctx.count('default_' + label)
    case = {'workload': 'default', 'text': text, 'default': repr(default), 'expected': repr(exp), 'flags': flags}
    clip = 'day' not in given and default.day > calendar.monthrange(given.get('year', default.year), given.get('month', default.month))[1]
    if clip:
        ctx.count('default_day_clipped')
    if exp is None:
        if r[0] != 'exc' or not isinstance(r[1], ValueError):
            ctx.violation('default-fill-invalid-date-accepted', case, repr(r[1]))
        ctx.count('default_invalid_date')
    elif r[0] == 'exc':
        ctx.violation('default-fill-raised', case, '%s: %s' % (type(r[1]).__name__, r[1]))
    elif not same_dt(r[1], exp) or (default.tzinfo is not None and r[1].tzinfo is not default.tzinfo):
        ctx.violation('default-fill', case, 'got %r' % (r[1],))
    ctx.distinct('default|%s|d%d|%s|%s' % (label, default.day if default.day > 27 else 0, 'clip' if clip else '-',
                                           'aware' if default.tzinfo else 'naive'))
    if wd is not None and 'day' not in given:
        ctx.count('default_weekday_moves')


def local_names():
    return time.tzname


def wl_zone(ctx, P, PP, tz, rng):
    """one randomly chosen zone-resolution branch"""
    y = rng.choice([2003, 2011, 2020])
    base = D.datetime(y, rng.choice([1, 7]), rng.randint(1, 28), rng.randint(0, 23), rng.randint(0, 59), rng.randint(0, 59))
    btxt = base.strftime('%Y-%m-%d %H:%M:%S')
    branch = rng.choice(['dict-int', 'dict-tzinfo', 'dict-str', 'callable', 'callable-offset', 'dict-beats-utc', 'dict-miss',
                         'numeric', 'zero', 'utc-name', 'gmt+h', 'name+h', 'unknown', 'local-name', 'none', 'numeric-paren-name',
                         'numeric-paren-name'])
    ignoretz = rng.random() < .2
    kw = {'ignoretz': True} if ignoretz else {}
    secs = rng.choice([-1, 1]) * (rng.randint(0, 14) * 3600 + rng.choice([0, 0, 30, 45]) * 60)
    hh, mm = divmod(abs(secs) // 60, 60)
    sign = '-' if secs < 0 else '+'
    exp_off, exp_name, exp_is, warn = None, None, None, False
    if branch == 'dict-int':
        text, kw['tzinfos'] = btxt + ' BRST', {'BRST': secs, 'EST': 1}
        exp_off, exp_name = secs, 'BRST'
    elif branch == 'dict-tzinfo':
        obj = tz.tzoffset('MYZ', secs)
        text, kw['tzinfos'] = btxt + ' MYZ', {'MYZ': obj}
        exp_off, exp_is = secs, obj
    elif branch == 'dict-str':
        text, kw['tzinfos'] = btxt + ' CET', {'CET': 'CET-1CEST,M3.5.0,M10.5.0/3'}
        exp_off = 7200 if base.month == 7 else 3600
    elif branch == 'callable':
        seen = []
        obj = tz.tzoffset('CALL', secs)

        def f(name, off):
            seen.append((name, off))
            return obj
        text, kw['tzinfos'] = btxt + ' EST', f
        exp_off, exp_is = secs, obj
    elif branch == 'callable-offset':
        seen = []

        def f(name, off):
            seen.append((name, off))
            return tz.tzoffset(name, off) if off is not None else None
        text, kw['tzinfos'] = btxt + ' %s%02d%02d' % (sign, hh, mm), f
        exp_off = secs
    elif branch == 'dict-beats-utc':
        kw['tzinfos'] = {local_names()[0]: 7200}
        kw['tzinfos']['UTC'] = 3600
        text = btxt + ' UTC'
        exp_off = 3600
    elif branch == 'dict-miss':
        text, kw['tzinfos'] = btxt + ' %s%02d:%02d' % (sign, hh, mm), {'BRST': -10800}
        exp_off = secs
    elif branch == 'numeric':
        form = rng.choice(['%s%02d%02d', ' %s%02d%02d', '%s%02d:%02d', ' %s%02d:%02d'])
        text = btxt + form % (sign, hh, mm)
        exp_off = secs
    elif branch == 'numeric-paren-name':
        # '-0300 (BRST)' / '-03:00 (BRST)': the offset with the name in parentheses names the zone; tzinfos are asked by name
        sub = rng.choice(['plain', 'dict', 'callable'])
        if sub != 'plain' and rng.random() < .3:
            secs, hh, mm, sign = 0, 0, 0, rng.choice('+-')
        elif secs == 0:
            secs, hh, mm, sign = -10800, 3, 0, '-'
        # (a zero offset with a name keeps the name: tzinfos are asked for it; without tzinfos it would be UTC)
        pname = rng.choice(['BRT', 'QQQ', 'BRST', 'ABCDE'])
        pname = pname if pname not in local_names() else 'QXZ'
        form = rng.choice(['%s%02d%02d', '%s%02d:%02d'])
        text = btxt + ' ' + form % (sign, hh, mm) + ' (%s)' % pname
        branch += '-' + sub + ('-colon' if ':' in form else '')
        ctx.count('paren_name_len_%d' % len(pname))
        if secs == 0:
            ctx.count('paren_name_zero_offset')
        exp_off, exp_name = secs, pname
        if sub == 'dict':
            obj = tz.tzoffset('FROMDICT', 1234)
            kw['tzinfos'] = {pname: obj}
            exp_off, exp_name, exp_is = 1234, 'FROMDICT', obj
        elif sub == 'callable':
            seen = []

            def f(name, off):
                seen.append((name, off))
                return tz.tzoffset(name, off if off else 60)
            kw['tzinfos'] = f
            if secs == 0:
                exp_off = 60
    elif branch == 'zero':
        text = btxt + rng.choice(['+0000', ' +00:00', '-00:00', 'Z', ' Z', '+00'])
        exp_off, exp_is = 0, (tz.UTC if 'UTC' not in local_names() else None)   # 'UTC' as a *local* zone name comes first
    elif branch == 'utc-name':
        text = btxt + rng.choice([' UTC', ' GMT', ' Z'])
        exp_off = 0
    elif branch == 'gmt+h':
        h = rng.randint(1, 12)
        sg = rng.choice('+-')
        text = btxt + ' %s%s%d' % (rng.choice(['GMT', 'UTC']), sg, h)
        exp_off = (-1 if sg == '+' else 1) * h * 3600
    elif branch == 'name+h':
        h = rng.randint(1, 12)
        sg = rng.choice('+-')
        text = btxt + ' BRST%s%d' % (sg, h)
        exp_off, exp_name = (-1 if sg == '+' else 1) * h * 3600, 'BRST'
    elif branch == 'unknown':
        text = btxt + ' ' + rng.choice(['XYZ', 'QQQQ', 'ABCDE'])
        warn = True
    elif branch == 'local-name':
        return wl_local(ctx, P, tz, rng, kw, ignoretz)
    else:
        text = btxt
    if (branch == 'unknown' and text.split()[-1] in local_names()):
        return
    r = call(P.parse, text, **kw)
    ctx.ev()
    ctx.count('zone_' + branch)
    case = {'workload': 'zone', 'branch': branch, 'text': text, 'ignoretz': ignoretz, 'TZ': list(local_names()),
            'expected_offset': exp_off}
    ctx.distinct('zone|%s|%s|%s|%s' % (branch, 'ignoretz' if ignoretz else '-', local_names()[0],
                                       'neg' if (exp_off or 0) < 0 else ('zero' if not exp_off else 'pos')))
    if r[0] == 'exc':
        ctx.violation('zone-raised', case, '%s: %s' % (type(r[1]).__name__, r[1]))
        return
    v = r[1]
    bad = []
    if type(v) is not D.datetime or v.replace(tzinfo=None) != base:
        bad.append('wall time %r' % (v,))
    elif ignoretz:
        if v.tzinfo is not None:
            bad.append('ignoretz returned an aware datetime')
    elif exp_off is None:
        if v.tzinfo is not None:
            bad.append('expected naive, got %r' % (v.tzinfo,))
        if warn and 'UnknownTimezoneWarning' not in r[2]:
            bad.append('no UnknownTimezoneWarning (warnings: %r)' % (r[2],))
    else:
        if v.tzinfo is None:
            bad.append('naive, expected offset %d' % exp_off)
        elif v.utcoffset() != D.timedelta(seconds=exp_off):
            bad.append('offset %r, expected %d s' % (v.utcoffset(), exp_off))
        if exp_is is not None and v.tzinfo is not exp_is:
            bad.append('tzinfo %r is not the expected object %r' % (v.tzinfo, exp_is))
        if exp_name is not None and v.tzinfo is not None and v.tzname() != exp_name:
            bad.append('tzname %r, expected %r' % (v.tzname(), exp_name))
        if branch == 'dict-str' and not isinstance(v.tzinfo, tz.tzstr):
            bad.append('TZ string not turned into tzstr: %r' % (v.tzinfo,))
        if branch in ('numeric', 'dict-miss') and exp_off != 0 and not isinstance(v.tzinfo, tz.tzoffset):
            bad.append('numeric offset gave %r' % (v.tzinfo,))
        if branch.startswith('numeric-paren-name-callable') and not ignoretz and seen != [(exp_name, secs)]:
            bad.append('callable was called with %r, expected [%r]' % (seen, (exp_name, secs)))
        if branch in ('callable', 'callable-offset') and not ignoretz:
            want = ('EST', None) if branch == 'callable' else ((None, secs) if secs else ('UTC', 0))
            if seen != [want]:
                bad.append('callable was called with %r, expected [%r]' % (seen, want))
    if bad:
        ctx.violation('zone-resolution', case, '; '.join(bad))


def wl_local(ctx, P, tz, rng, kw, ignoretz):
    """local zone names of the process TZ"""
    names = local_names()
    std, dst = names
    winter = D.datetime(2011, 1, 15, 12, 30)
    summer = D.datetime(2011, 7, 15, 12, 30)
    std_off = -time.timezone
    dst_off = -time.altzone if time.daylight else std_off
    cases = [(winter, std, std_off, 'local-std')]
    if time.daylight and dst != std:
        cases.append((summer, dst, dst_off, 'local-dst'))
    if std == 'EST':
        cases += [(D.datetime(2011, 11, 6, 1, 30), 'EST', -18000, 'local-ambiguous-std'),
                  (D.datetime(2011, 11, 6, 1, 30), 'EDT', -14400, 'local-ambiguous-dst')]
    # a wall time the local zone skips: the text's wall time is kept (as with ignoretz), the zone attached - no conversion
    if std == 'EST':
        cases += [(D.datetime(2011, 3, 13, 2, 30), 'EST', None, 'local-gap'), (D.datetime(2011, 3, 13, 2, 30), 'EDT', None, 'local-gap')]
    if std == 'GMT':
        cases += [(D.datetime(2011, 3, 27, 1, 30), 'GMT', None, 'local-gap'), (D.datetime(2011, 3, 27, 1, 30), 'BST', None, 'local-gap')]
    if std == 'GMT':
        cases += [(summer, 'GMT', 0, 'utc-name-in-local-summer'), (D.datetime(2011, 10, 30, 1, 30), 'GMT', 0, 'local-ambiguous-std'),
                  (D.datetime(2011, 10, 30, 1, 30), 'BST', 3600, 'local-ambiguous-dst')]
    base, name, off, label = rng.choice(cases)
    text = base.strftime('%Y-%m-%d %H:%M:%S ') + name
    r = call(P.parse, text, **kw)
    ctx.ev()
    ctx.count('zone_' + label)
    ctx.distinct('zone|%s|%s|%s' % (label, 'ignoretz' if ignoretz else '-', std))
    case = {'workload': 'zone', 'branch': label, 'text': text, 'ignoretz': ignoretz, 'TZ': list(names), 'expected_offset': off}
    if r[0] == 'exc':
        ctx.violation('zone-raised', case, '%s: %s' % (type(r[1]).__name__, r[1]))
        return
    v = r[1]
    bad = []
    if v.replace(tzinfo=None) != base:
        bad.append('wall time %r' % (v,))
    elif ignoretz:
        if v.tzinfo is not None:
            bad.append('ignoretz returned aware')
    elif v.tzinfo is None:
        bad.append('naive for local zone name %s' % name)
    elif off is None:
        # (in the skipped hour the local zone is not on 'GMT': the UTC-designator reading applies to that name, same wall time)
        if not (isinstance(v.tzinfo, tz.tzlocal) or (name in ('GMT', 'UTC') and v.tzinfo is tz.UTC)):
            bad.append('local name resolved to %r' % (v.tzinfo,))
    elif v.utcoffset() != D.timedelta(seconds=off):
        bad.append('offset %r expected %d' % (v.utcoffset(), off))
    elif label.startswith('local-') and not isinstance(v.tzinfo, tz.tzlocal):
        # local zone names come before the UTC designators in the documented order: 'GMT' in a British winter (or 'UTC'
        # under TZ=UTC) is the local zone, with its summer time half a year later
        bad.append('local name resolved to %r' % (v.tzinfo,))
    elif label.startswith('local-') and label != 'local-gap' and v.tzname() != name:
        bad.append('tzname %r for text %r' % (v.tzname(), name))
    if bad:
        ctx.violation('zone-resolution', case, '; '.join(bad))


def wl_tz_switch(ctx, P, tz):
    """The process TZ changes between calls (time.tzset): a local zone name must be resolved against the zone in force at
    the time of the call, also by a parser object that has resolved local names before (no state carried across calls)."""
    import os
    from vf import tzmodels as TM
    old = os.environ.get('TZ')
    inst = P.parser()
    seq = ['CST6CDT,M3.2.0,M11.1.0', 'CST5CDT,M3.2.0/0,M11.1.0/1', 'IST-5:30', 'IST-2', 'EST5EDT,M3.2.0,M11.1.0', 'EST-10EDT,M10.1.0,M4.1.0/3',
           'CST6CDT,M3.2.0,M11.1.0', 'WET0WEST,M3.5.0/1,M10.5.0', 'WET-1WEST,M3.5.0/1,M10.5.0']
    try:
        for s in seq:
            TM.set_process_tz(s)
            std = time.tzname[0]
            off = -time.timezone
            text = '2020-01-15 12:00 ' + std
            if time.localtime(1579089600).tm_isdst:       # mid-January is summer for the southern-order settings
                off = -time.altzone
                text = '2020-01-15 12:00 ' + time.tzname[1]
            for how, f in (('module', P.parse), ('instance', inst.parse)):
                r = call(f, text)
                ctx.ev()
                ctx.count('tz_switch_calls')
                ctx.distinct('tz-switch|%s|%s' % (s, how))
                case = {'workload': 'tz-switch', 'TZ': s, 'text': text, 'via': how, 'sequence': seq}
                if r[0] != 'ok':
                    ctx.violation('zone-raised', case, repr(r[1]))
                elif r[1].tzinfo is None or r[1].utcoffset() != D.timedelta(seconds=off):
                    ctx.violation('zone-resolution', case, 'after switching the process TZ to %s, %r resolved to offset %r, the zone in force says %d s'
                                  % (s, text, r[1].utcoffset(), off))
    finally:
        TM.set_process_tz(old)


def wl_tzinfos_ambiguous(ctx, P, tz):
    """a zone supplied through tzinfos at a wall time that occurs twice: the abbreviation in the text picks the reading
    whose name it is (EST -> the later, EDT -> the earlier); a name the zone never reports (an alias such as 'ET'), or no
    disambiguation at all, leaves the plain attachment naive.replace(tzinfo=zone)"""
    zone = tz.tzstr('EST5EDT,M3.2.0,M11.1.0')
    ny = tz.gettz('America/New_York')
    for z, zlabel in ((zone, 'tzstr'), (ny, 'tzfile')):
        if z is None:
            continue
        for wall, ambiguous in ((D.datetime(2011, 11, 6, 1, 30), True), (D.datetime(2011, 11, 6, 3, 30), False), (D.datetime(2011, 7, 6, 1, 30), False)):
            for name, fold in (('EST', 1), ('EDT', 0), ('ET', 0), ('XYZ', 0)):
                if not ambiguous and name in ('EST', 'EDT') and name != wall.replace(tzinfo=z).tzname():
                    continue          # an abbreviation that contradicts an unambiguous time is outside the property
                for form, tzinfos in (('dict', {name: z}), ('callable', lambda n, off, z=z: z), ('dict-str', {name: 'EST5EDT,M3.2.0,M11.1.0'})):
                    if form == 'dict-str' and zlabel == 'tzfile':
                        continue
                    text = wall.strftime('%Y-%m-%d %H:%M:%S ') + name
                    r = call(P.parse, text, tzinfos=tzinfos)
                    ctx.ev()
                    ctx.count('zone_tzinfos-ambiguous')
                    ctx.distinct('zone|tzinfos-ambiguous|%s|%s|%s|%s' % (zlabel, name, form, ambiguous))
                    exp = wall.replace(tzinfo=z, fold=fold if ambiguous else 0)
                    case = {'workload': 'zone', 'branch': 'tzinfos-ambiguous', 'text': text, 'tzinfos': form, 'zone': zlabel,
                            'expected_offset': exp.utcoffset().total_seconds(), 'expected_fold': exp.fold}
                    if r[0] != 'ok':
                        ctx.violation('zone-raised', case, repr(r[1]))
                    elif r[1].replace(tzinfo=None) != wall or r[1].utcoffset() != exp.utcoffset() or (ambiguous and r[1].fold != exp.fold):
                        ctx.violation('zone-resolution', case, 'got %r fold=%d offset %s; expected fold=%d offset %s'
                                      % (r[1], r[1].fold, r[1].utcoffset(), exp.fold, exp.utcoffset()))


def in_order_substrings(parts, text):
    # the lexer reports every whitespace character as ' ' and drops NULs: compare modulo that normalisation
    text = ''.join(' ' if c.isspace() else c for c in text if c != '\x00')
    pos = 0
    for p in parts:
        i = text.find(p, pos)
        if i < 0:
            return False
        pos = i + len(p)
    return True


def wl_fuzzy(ctx, P, rng, cur):
    t = rng.choice([x for x in render_gen.TEMPLATES if not x.yy and x.group not in ('hms',)])
    dt = D.datetime(rng.randint(1000, 9999), rng.randint(1, 12), rng.randint(1, 28), rng.randint(0, 23), rng.randint(0, 59),
                    rng.randint(0, 59), rng.choice([0, 500000]))
    text, exp, off = render_gen.render(t, dt, 3, '.', None)
    pre = [rng.choice(FILLER) for _ in range(rng.randint(0, 4))]
    post = [rng.choice(FILLER) for _ in range(rng.randint(0, 3))]
    if not pre and not post:
        pre = ['Today']
    sentence = ' '.join(pre + [text] + post)
    if rng.random() < .3:
        # every whitespace character is a blank to the parser (tab, newline, NBSP ... directly after a number too)
        sentence = ''.join(rng.choice(WHITESPACE) if c == ' ' else c for c in sentence)
        ctx.count('fuzzy_odd_whitespace')
    kw = dict(t.flags)
    r1 = call(P.parse, sentence, fuzzy=True, **kw)
    r2 = call(P.parse, sentence, fuzzy_with_tokens=True, **kw)
    ctx.ev(2)
    ctx.count('fuzzy_sentences')
    ctx.count('fuzzy_group_' + t.group)
    case = {'workload': 'fuzzy', 'sentence': sentence, 'template': t.name, 'flags': kw, 'expected': exp.isoformat()}
    ctx.distinct('fuzzy|%s|%d|%d' % (t.name, len(pre), len(post)))
    if r1[0] == 'exc':
        ctx.violation('fuzzy-raised', case, '%s: %s' % (type(r1[1]).__name__, r1[1]))
        return
    if not (type(r1[1]) is D.datetime and r1[1] == exp):
        ctx.violation('fuzzy-wrong-date', case, 'got %r' % (r1[1],))
    if r2[0] == 'exc' or not (isinstance(r2[1], tuple) and len(r2[1]) == 2):
        ctx.violation('fuzzy-with-tokens-shape', case, repr(r2[1]))
        return
    dt2, skipped = r2[1]
    if dt2 != r1[1]:
        ctx.violation('fuzzy-with-tokens-datetime', case, '%r vs fuzzy %r' % (dt2, r1[1]))
    if not (isinstance(skipped, tuple) and all(isinstance(s, str) for s in skipped) and in_order_substrings(skipped, sentence)):
        ctx.violation('skipped-not-ordered-substrings', case, repr(skipped))
    elif not in_order_substrings(pre + post, ' '.join(skipped)) and not in_order_substrings(pre + post, '\x00'.join(skipped)):
        ctx.violation('skipped-lost-filler', case, 'filler %r, skipped %r' % (pre + post, skipped))
    if ctx.evaluations % 400 < 2:
        ctx.sample({'sentence': sentence, 'fuzzy': repr(r1[1]), 'skipped': list(skipped)})


STRAY = ['120$', '#4711A', '101b', '77x', 'A380', 'x86', '3rd-floor', 'v2', '50%', 'EUR99', '7b', 'No.5']


def wl_fuzzy_variants_agree(ctx, P, rng):
    """fuzzy_with_tokens=True alone means fuzzy: for any sentence - also one with stray numbers glued to other characters,
    where what the date is may be debatable - it returns the datetime fuzzy=True returns (or fails when that fails), and
    the same as both options together"""
    t = rng.choice([x for x in render_gen.TEMPLATES if not x.yy and x.group not in ('hms',)])
    dt = D.datetime(rng.randint(1990, 2030), rng.randint(1, 12), rng.randint(1, 28), rng.randint(0, 23), rng.randint(0, 59), rng.randint(0, 59))
    text, exp, off = render_gen.render(t, dt, 3, '.', None)
    words = [rng.choice(FILLER) for _ in range(rng.randint(1, 4))] + [rng.choice(STRAY) for _ in range(rng.randint(1, 2))]
    rng.shuffle(words)
    k = rng.randint(0, len(words))
    sentence = ' '.join(words[:k] + [text] + words[k:])
    kw = dict(t.flags)
    default = D.datetime(2003, 9, 25)
    r1 = call(P.parse, sentence, fuzzy=True, default=default, **kw)
    r2 = call(P.parse, sentence, fuzzy_with_tokens=True, default=default, **kw)
    r3 = call(P.parse, sentence, fuzzy=True, fuzzy_with_tokens=True, default=default, **kw)
    ctx.ev(3)
    ctx.count('fuzzy_variant_sentences')
    ctx.count('fuzzy_variant_' + ('accepted' if r1[0] == 'ok' else 'rejected'))
    case = {'workload': 'fuzzy-variants', 'sentence': sentence, 'flags': kw}
    ctx.distinct('fuzzy-variants|%s|%s' % (t.name, r1[0]))

    def brief(r):
        return repr(r[1]) if r[0] == 'ok' else '%s: %s' % (type(r[1]).__name__, r[1])
    if r1[0] != r2[0] or r2[0] != r3[0]:
        ctx.violation('fuzzy-variants-disagree', case, 'fuzzy=True -> %s; fuzzy_with_tokens=True -> %s; both -> %s' % (brief(r1), brief(r2), brief(r3)))
    elif r1[0] == 'ok':
        if not (isinstance(r2[1], tuple) and len(r2[1]) == 2 and r2[1][0] == r1[1] and r3[1] == r2[1]):
            ctx.violation('fuzzy-variants-disagree', case, 'fuzzy=True -> %s; fuzzy_with_tokens=True -> %s; both -> %s' % (brief(r1), brief(r2), brief(r3)))
        elif not in_order_substrings(r2[1][1], sentence):
            ctx.violation('skipped-not-ordered-substrings', case, repr(r2[1][1]))
    elif type(r1[1]) is not type(r2[1]):
        ctx.violation('fuzzy-variants-disagree', case, 'fuzzy=True -> %s; fuzzy_with_tokens=True -> %s' % (brief(r1), brief(r2)))


AMPM_WORDS = ['am', 'pm', 'a', 'p', 'AM', 'PM']


def wl_ampm_lookalike(ctx, P, rng):
    """AM/PM look-alikes that cannot be flags must be reported as skipped text."""
    w = rng.choice(AMPM_WORDS)
    d = '%d July 2010' % rng.randint(1, 28)
    kind = rng.choice(['hour>12', 'flag-set', 'no-hour'])
    if kind == 'hour>12':
        h = rng.randint(13, 23)
        sentence, exp_h = 'Got it at %d:45 %s on %s' % (h, w, d), h
    elif kind == 'flag-set':
        h = rng.randint(1, 11)
        sentence, exp_h = 'Got it at %d:45 pm %s on %s' % (h, w, d), h + 12
    else:
        h = rng.randint(0, 23)
        sentence, exp_h = 'Got %s message on %s at %d:45' % (w, d, h), h
    r = call(P.parse, sentence, fuzzy_with_tokens=True)
    ctx.ev()
    ctx.count('ampm_lookalike_' + kind)
    ctx.distinct('ampm|%s|%s' % (kind, w))
    case = {'workload': 'ampm-lookalike', 'sentence': sentence, 'kind': kind}
    if r[0] == 'exc':
        ctx.violation('fuzzy-raised', case, repr(r[1]))
        return
    dt, skipped = r[1]
    if dt.hour != exp_h or dt.minute != 45:
        ctx.violation('ampm-lookalike-changed-time', case, repr(dt))
    words = ' '.join(skipped).split()
    if w not in words:
        ctx.violation('skipped-lost-ampm-lookalike', case, 'skipped %r does not report %r' % (skipped, w))


def ampm_tokens_after_hour(text):
    import re
    toks = re.findall(r'[A-Za-z]+\.?[A-Za-z]*\.?|\d+', text)
    seen_num = False
    n = 0
    for t in toks:
        if t[0].isdigit():
            seen_num = True
        elif seen_num and t.lower().replace('.', '') in ('am', 'pm', 'a', 'p'):
            n += 1
    return n


def wl_relation(ctx, P, rng, tz):
    """accepted without fuzzy => same result with fuzzy / fuzzy_with_tokens"""
    if rng.random() < .5:
        text, kinds = soup.gen_soup(rng)
    else:
        text, kinds = soup.gen_mutated(rng)
    kw = {}
    if rng.random() < .3:
        kw['dayfirst'] = rng.random() < .5
    if rng.random() < .3:
        kw['yearfirst'] = rng.random() < .5
    kw['default'] = D.datetime(2003, 9, 25)
    r0 = call(P.parse, text, **kw)
    ctx.ev()
    if r0[0] != 'ok':
        ctx.count('relation_rejected')
        return
    ctx.count('relation_accepted')
    r1 = call(P.parse, text, fuzzy=True, **kw)
    r2 = call(P.parse, text, fuzzy_with_tokens=True, **kw)
    d0 = mon_parse.describe_value(r0[1])
    case = {'workload': 'relation', 'text': text, 'options': sorted(k for k in kw if k != 'default')}
    ctx.distinct('relation|%s' % ','.join(sorted(set(kinds))))
    bad = None
    if r1[0] != 'ok' or mon_parse.describe_value(r1[1]) != d0:
        bad = 'plain %r, fuzzy %r' % (d0, r1[1] if r1[0] != 'ok' else mon_parse.describe_value(r1[1]))
    elif r2[0] != 'ok' or not isinstance(r2[1], tuple) or mon_parse.describe_value(r2[1][0]) != d0:
        bad = 'plain %r, fuzzy_with_tokens %r' % (d0, r2[1])
    elif not in_order_substrings(r2[1][1], text.replace('\x00', '')):
        bad = 'skipped tokens %r are not ordered substrings' % (r2[1][1],)
    if bad:
        ctx.violation('fuzzy-relation', case, bad)


def run(ctx):
    import dateutil.parser as P
    import dateutil.parser._parser as PP
    from dateutil import tz

    def handler(parser, timestr, kw, out):
        ctx.hit('parser.parse')
    uninstall = mon_parse.install(handler)
    try:
        rng = ctx.rng
        cur = time.localtime().tm_year
        ctx.note('process_TZ', time.tzname)
        ctx.count('tz_' + time.tzname[0])
        for i in range(N_ROUNDS[ctx.tier]):
            if i % 200 == 0 and not ctx.time_left():
                ctx.count('stopped_by_time_budget')
                break
            wl_default(ctx, P, tz, rng)
            wl_default(ctx, P, tz, rng)
            wl_zone(ctx, P, PP, tz, rng)
            wl_zone(ctx, P, PP, tz, rng)
            wl_fuzzy(ctx, P, rng, cur)
            wl_ampm_lookalike(ctx, P, rng)
            wl_relation(ctx, P, rng, tz)
            wl_relation(ctx, P, rng, tz)
        # directed: the documented examples
        r = call(P.parse, 'Today is January 1, 2047 at 8:21:00AM', fuzzy_with_tokens=True)
        ctx.ev()
        # (the docstring's token tuple is stale - it omits one ' ' - so only the datetime, the order and the filler words are checked)
        if r[0] != 'ok' or r[1][0] != D.datetime(2047, 1, 1, 8, 21) or not in_order_substrings(r[1][1], 'Today is January 1, 2047 at 8:21:00AM') \
                or not in_order_substrings(['Today', 'is', 'at'], ' '.join(r[1][1])):
            ctx.violation('documented-example', {'text': 'Today is January 1, 2047 at 8:21:00AM'}, repr(r[1]))
        for text, default, exp in (('2023', D.datetime(2024, 2, 29), D.datetime(2023, 2, 28)),
                                   ('Feb', D.datetime(2023, 1, 31), D.datetime(2023, 2, 28)),
                                   ('Feb 2024', D.datetime(2023, 1, 31), D.datetime(2024, 2, 29)),
                                   ('Sep', D.datetime(2003, 8, 31, 10, 5), D.datetime(2003, 9, 30, 10, 5)),
                                   ('Friday', D.datetime(2003, 9, 25), D.datetime(2003, 9, 26)),
                                   ('Thursday', D.datetime(2003, 9, 25), D.datetime(2003, 9, 25))):
            r = call(P.parse, text, default=default)
            ctx.ev()
            ctx.count('directed_default')
            if r[0] != 'ok' or r[1] != exp:
                ctx.violation('default-fill', {'workload': 'default', 'text': text, 'default': repr(default), 'expected': repr(exp)}, repr(r[1]))
        wl_tzinfos_ambiguous(ctx, P, tz)
        wl_tz_switch(ctx, P, tz)
        if ctx.shard == 0:
            wl_default_century(ctx, P)
        for _ in range(600 if ctx.tier == 'quick' else 8000):
            wl_fuzzy_variants_agree(ctx, P, rng)
    finally:
        uninstall()


def floors(agg, tier):
    c, out = agg['counters'], []
    need = {'quick': 60000, 'thorough': 600000}[tier]
    if agg['evaluations'] < need:
        out.append('only %d evaluations (< %d)' % (agg['evaluations'], need))
    for k in ('default_day_clipped', 'default_weekday_moves', 'zone_dict-int', 'zone_dict-tzinfo', 'zone_dict-str', 'zone_callable',
              'zone_callable-offset', 'zone_dict-beats-utc', 'zone_numeric', 'zone_zero', 'zone_utc-name', 'zone_gmt+h', 'zone_name+h',
              'zone_unknown', 'zone_local-std', 'fuzzy_sentences', 'ampm_lookalike_hour>12', 'ampm_lookalike_flag-set',
              'ampm_lookalike_no-hour', 'relation_accepted', 'tz_switch_calls', 'fuzzy_odd_whitespace', 'zone_numeric-paren-name-plain',
              'zone_numeric-paren-name-plain-colon', 'default_century_february', 'fuzzy_variant_accepted', 'paren_name_len_3', 'paren_name_len_5', 'paren_name_zero_offset', 'zone_numeric-paren-name-dict-colon', 'zone_numeric-paren-name-callable-colon'):
        if c.get(k, 0) < 40:
            out.append('%s only %d' % (k, c.get(k, 0)))
    for z in ('UTC', 'EST', 'GMT', 'IST'):
        if c.get('tz_' + z, 0) < 1:
            out.append('no shard ran under process TZ %s' % z)
    if c.get('zone_local-ambiguous-std', 0) < 5 or c.get('zone_utc-name-in-local-summer', 0) < 3:
        out.append('local-name special cases hardly reached')
    if len(agg['distinct']) < 800:
        out.append('only %d distinct cases' % len(agg['distinct']))
    return out


def replay(ctx, case):
    import dateutil.parser as P
    from dateutil import tz

    def handler(parser, timestr, kw, out):
        ctx.hit('parser.parse')
    uninstall = mon_parse.install(handler)
    try:
        wl = case.get('workload')
        if wl == 'relation':
            kw = {'default': D.datetime(2003, 9, 25)}
            text = case['text']
            r0, r1 = call(P.parse, text, **kw), call(P.parse, text, fuzzy=True, **kw)
            ctx.ev()
            if r0[0] == 'ok' and (r1[0] != 'ok' or mon_parse.describe_value(r1[1]) != mon_parse.describe_value(r0[1])):
                ctx.violation('fuzzy-relation', case, '%r vs %r' % (r0[1], r1[1]))
        elif wl == 'fuzzy':
            r = call(P.parse, case['sentence'], fuzzy=True, **case.get('flags', {}))
            ctx.ev()
            if r[0] != 'ok' or r[1].isoformat() != case['expected']:
                ctx.violation('fuzzy-wrong-date', case, repr(r[1]))
        elif wl == 'ampm-lookalike':
            r = call(P.parse, case['sentence'], fuzzy_with_tokens=True)
            ctx.ev()
            ctx.note('result', repr(r[1]))
        else:
            r = call(P.parse, case.get('text', ''), **({'ignoretz': True} if case.get('ignoretz') else {}))
            ctx.ev()
            ctx.note('result', repr(r[1]))
    finally:
        uninstall()
