"""C01 - rrule yields exactly the RFC 5545 recurrence set, in order."""
import datetime as D

from vf import mon_rrule as M
from vf.oracles import rrule_ref as RR

PROPERTY = 'C01'
LEVEL = 'exploration'
RULE = ('Stratified seeded generator over 7 frequencies x interval in {1,2,3,4,5,7,12,13,24,60,90,366} x week start 0..6 (int and '
        'weekday object) x random subsets of BYMONTH / BYMONTHDAY / BYYEARDAY / BYWEEKNO / BYDAY plain and nth / BYEASTER / BYHOUR '
        '/ BYMINUTE / BYSECOND / BYSETPOS with positive and negative members, single int vs list vs weekday objects, duplicates x '
        'start = date / naive / aware (UTC, fixed offset, tzfile zone) in leap, century and boundary years (1, 2, 1582, 1900, '
        '2000, 2100, 2400, 9990) and at month ends x COUNT / UNTIL (date, naive, aware in another zone) / unbounded prefix.  More '
        'than half of the rules are seeded from a target day lying in one of the first periods (BY-values drawn so that this day '
        'satisfies them), which keeps vacuous rules rare.  The real rule is iterated (up to 25 items) under a sys.monitoring '
        'period probe that stops it when its period cursor passes the comparison horizon; every yielded list is compared '
        'with the brute-force reference rrule_ref over the same horizon (30 years ... 3000 seconds by frequency): exact '
        'sequence, strictly increasing, whole seconds, start tzinfo, ValueError only when the reference has no occurrence, no '
        'other exception.  Non-trivial = the reference has >= 1 occurrence and the rule has a BY-part or interval > 1; '
        'distinct = (freq, BY-key set with sign classes, interval>1, start kind, terminator kind).'
        " Directed: BYWEEKNO +-1/2/52/53 for 28 consecutive years x 7 week starts; sub-daily rules whose first accepted day lies days after a start with odd seconds (the reference skips at most 8 rejected days on the period grid); a ValueError / OverflowError 'out of range' that only hides days of the last week of 9999 is a don't-care.")
ASSUMPTIONS = ['vf/oracles/rrule_ref.py is the definition of the recurrence set (cross-checked each run against isocalendar, a '
               'by-definition week counter for the other six week starts and RFC 5545 examples)',
               'comparison is horizon-bounded; aware starts are compared on wall-clock fields',
               'BYEASTER offsets that leave Easter\'s calendar year (outside -80..+249) have no documented meaning: only '
               '"no wrong instant, no non-ValueError" is checked for them']
MANIFEST = {
    'technique': 'runtime differential monitor: real rrule iteration under a sys.monitoring period probe vs an independent brute-force RFC 5545 enumerator; plus the same iterations of separate rule objects from four free-running threads with injected yields (sys.monitoring), compared with the single-threaded outcomes',
    'level_text': 'Thousands of seeded rules per run covering the BY-part product are executed by the real iterator and compared '
                  'item by item with a definitional enumerator; the period probe bounds every iteration in logical steps.  Two '
                  'mismatches are classified by mechanism against known_findings.json (K1, K2: both repaired, so any recurrence is a violation).  Exploration: held on the rules and horizons observed.',
    'level_note': 'Trusts rrule_ref (self-tested) and CPython datetime/calendar; horizon-bounded, so carry errors beyond the horizon '
                  'are only seen through the MAXYEAR class of starts (year 9990).',
}
PLAN = {'quick': {'shards': 4, 'timeout': 1800, 'budget': 900},
        'thorough': {'shards': 16, 'timeout': 7200, 'budget': 2400}}
N_CASES = {'quick': 2500, 'thorough': 30000}


def zones():
    from dateutil import tz
    zs = [tz.UTC, tz.tzoffset('X', -3 * 3600 - 1800)]
    z = tz.gettz('America/New_York')
    if z is not None:
        zs.append(z)
    return zs


def signature(kw, meta):
    keys = []
    for k in sorted(kw):
        if not k.startswith('by'):
            continue
        v = kw[k]
        vs = [v] if (isinstance(v, int) or hasattr(v, 'n')) else list(v)
        neg = any((x if isinstance(x, int) else (x.n or 0)) < 0 for x in vs)
        nth = any(hasattr(x, 'n') and x.n for x in vs) if k == 'byweekday' else False
        keys.append(k[2:] + ('-' if neg else '') + ('#' if nth else ''))
    term = 'count' if 'count' in kw else ('until' if 'until' in kw else 'open')
    return '%s|%s|%s|%s|%s' % (RR.FREQNAMES[kw['freq']], ','.join(keys), 'i>1' if kw.get('interval', 1) > 1 else 'i1',
                               meta.get('start_kind', '?'), term)


def reference(kw, periods=None, **over):
    ref_kw = M.kw_to_ref(kw)
    ref_kw.update(over)
    for k in [k for k, v in over.items() if v is None]:
        ref_kw.pop(k)
    spec = RR.Spec(**ref_kw)
    items, hz = spec.generate(periods or M.P_PERIODS[kw['freq']], max_items=M.MAX_ITEMS)
    return items, hz


def execute(R, probe, kw, ref_hz):
    budget = 4 * M.P_PERIODS[kw['freq']] + 200
    return M.run_real(R, probe, kw, ref_hz, budget, M.MAX_ITEMS)


def stripped(kw, drop):
    k2 = {k: v for k, v in kw.items() if k not in drop}
    return k2


def classify(ctx, R, probe, kw, verdict):
    """Offer the divergence to the predicates of the open findings (keyed by mechanism)."""
    case = {'kw': M.kw_json(kw)}
    # K1: BYWEEKNO at year boundaries
    if kw.get('byweekno') is not None:
        k2 = stripped(kw, ('count', 'bysetpos'))
        try:
            ref_kw = M.kw_to_ref(k2)
            ref, hz = RR.Spec(**ref_kw).generate(M.P_PERIODS[kw['freq']], max_items=2000)
            real = M.run_real(R, probe, k2, hz, 4 * M.P_PERIODS[kw['freq']] + 200, 200)
            got = [M.naive(x) for x in real['items']]
            g = set(x for x in got if hz is None or x.toordinal() < hz)
            r = set(x for x in ref if hz is None or x.toordinal() < hz)
            # compare on the range both sides covered completely
            lasts = [seq[-1] for seq, cut in ((got, real['status'] == 'cut'), (ref, len(ref) >= 2000)) if cut and seq]
            if lasts:
                last = min(lasts)
                r = set(x for x in r if x <= last)
                g = set(x for x in g if x <= last)
            diff = g ^ r
            if diff and all((x.month == 12 and x.day >= 25) or (x.month == 1 and x.day <= 7) for x in diff) \
                    and not real['status'].startswith('exc'):
                ctx.known_finding('K1', '%s: candidate days differ only at the year boundary: %s' % (
                    verdict[0], sorted(x.date().isoformat() for x in diff)[:4]), case)
                return True
        except Exception as e:      # a predicate that cannot be evaluated explains nothing
            ctx.count('k1_predicate_error')
    # K2: WEEKLY + BYSETPOS, first (partial) week
    if kw['freq'] == RR.WEEKLY and kw.get('bysetpos') is not None:
        st = kw['dtstart']
        std = st if isinstance(st, D.datetime) else D.datetime(st.year, st.month, st.day)
        wk = kw.get('wkst', 0)
        wk = wk if isinstance(wk, int) else wk.weekday
        if std.weekday() != wk:
            k2 = stripped(kw, ('count',))
            try:
                ref, hz = reference(k2)
                real = execute(R, probe, k2, hz)
                got = [M.naive(x) for x in real['items']]
                week_end = std.toordinal() - ((std.weekday() - wk) % 7) + 7
                g = [x for x in got if x.toordinal() >= week_end and (hz is None or x.toordinal() < hz)]
                r = [x for x in ref if x.toordinal() >= week_end and (hz is None or x.toordinal() < hz)]
                n = min(len(g), len(r)) if real['status'] == 'cut' else max(len(g), len(r))
                if g[:n] == r[:n] and not real['status'].startswith('exc'):
                    ctx.known_finding('K2', '%s: sequences differ only inside the first (partial) week starting at dtstart' % verdict[0], case)
                    return True
            except Exception:
                ctx.count('k2_predicate_error')
    return False


def one_rule(ctx, R, probe, kw, meta):
    case = {'kw': M.kw_json(kw)}
    try:
        ref, hz = reference(kw)
    except Exception as e:
        ctx.count('reference_error')
        ctx.violation('reference-raised', case, '%s: %s' % (type(e).__name__, e))
        return
    real = execute(R, probe, kw, hz)
    ctx.ev()
    ctx.count('status_' + real['status'])
    if M.weak_easter(kw):
        # weak clause only: never a non-ValueError, never an instant that is no Easter offset
        ctx.count('weak_easter_rules')
        if real['status'].startswith('exc'):
            ctx.violation('unexpected-exception', case, real['error'])
        else:
            spec = RR.Spec(**M.kw_to_ref(kw))
            for x in real['items']:
                d = M.naive(x).date()
                offs = set(d.toordinal() - RR.easter_western(y).toordinal() for y in (d.year - 1, d.year, d.year + 1) if 1 <= y <= 9999)
                if not (offs & set(spec.byeaster)):
                    ctx.violation('wrong-instant', case, '%s is not an Easter offset of any year' % d)
                    break
            # days that are an Easter offset of their *own* year are defined whatever one thinks of offsets that leave the
            # year: unless the library gave some cross-year day a meaning (it never does: its masks are per year), its
            # output has to be the reference's, which reads every offset within the day's own year
            cross = [x for x in real['items']
                     if not (set(spec.byeaster) & {M.naive(x).date().toordinal() - RR.easter_western(M.naive(x).year).toordinal()})]
            if not cross:
                verdict = M.compare(kw, real, ref, hz)
                ctx.count('weak_easter_rules_compared')
                if verdict is not None and not classify(ctx, R, probe, kw, verdict):
                    ctx.violation(verdict[0], case, verdict[1])
                if ref:
                    ctx.count('weak_easter_rules_with_occurrences')
        return
    verdict = M.compare(kw, real, ref, hz)
    if verdict is not None:
        if not classify(ctx, R, probe, kw, verdict):
            ctx.violation(verdict[0], case, verdict[1])
    has_by = any(k.startswith('by') for k in kw) or kw.get('interval', 1) > 1
    if ref and has_by:
        ctx.distinct(signature(kw, meta))
        ctx.count('nontrivial')
    if not ref:
        ctx.count('vacuous_rules')
    if real['status'].startswith('valueerror'):
        ctx.count('valueerror_rules')
    ctx.count('freq_' + RR.FREQNAMES[kw['freq']])
    for k in kw:
        if k.startswith('by'):
            ctx.count('part_' + k)
    if ctx.evaluations % 250 == 1:
        ctx.sample({'kw': case['kw'], 'status': real['status'], 'first': [x.isoformat() for x in real['items'][:3]], 'reference_n': len(ref)})


NEVER = [
    dict(freq=0, bymonth=2, bymonthday=30), dict(freq=0, bymonth=[4, 6], bymonthday=31), dict(freq=1, bymonthday=31, bymonth=[2, 4]),
    dict(freq=0, byyearday=366, bymonth=1), dict(freq=3, byweekday=[0], bymonthday=[1], bymonth=[2], byyearday=[100]),
    dict(freq=4, interval=4, byhour=[2]), dict(freq=5, interval=30, byminute=[7]), dict(freq=6, interval=60, bysecond=[30]),
    dict(freq=5, interval=60, byhour=[3]), dict(freq=6, interval=3600, byminute=[30], byhour=[1]),
    dict(freq=0, byweekno=[53], bymonth=[6]), dict(freq=0, byeaster=[0], bymonth=[1]), dict(freq=2, byweekday=[0], bymonthday=[30], bymonth=[2]),
]


def run(ctx):
    from dateutil import rrule as R
    if not RR.selftest():
        ctx.inconclusive_because('rrule_ref self-test failed')
        return
    probe = M.PeriodProbe(R)
    probe.start()
    try:
        zs = zones()
        rng = ctx.rng
        for i in range(N_CASES[ctx.tier]):
            if i % 50 == 0 and not ctx.time_left():
                ctx.count('stopped_by_time_budget')
                break
            kw, meta = M.gen_rule(rng, R, zs)
            one_rule(ctx, R, probe, kw, meta)
        # directed: week numbers around every kind of year boundary (28 consecutive years cover all 14 calendars) for every week start
        k = 0
        for wk in range(7):
            for y in range(1995, 2023):
                for wn in (1, 2, 52, 53, -1, -2, -52, -53):
                    k += 1
                    if k % ctx.nshards != ctx.shard:
                        continue
                    freq, extra = ((R.DAILY, {}) if k % 2 else (R.YEARLY, {'byweekday': [R.MO, R.WE, R.SU]}))
                    kw = dict(freq=freq, dtstart=D.datetime(y, 12, 15, 9), byweekno=[wn], wkst=wk, count=12, **extra)
                    one_rule(ctx, R, probe, kw, {'start_kind': 'naive'})
                    ctx.count('weekno_boundary_rules')
        # directed: sub-daily rules whose first accepted day lies a few days after a start with odd minutes / seconds
        # (the implementation jumps over rejected days; the jump must land on the period grid)
        k = 0
        for freq in (R.SECONDLY, R.MINUTELY, R.HOURLY):
            for interval in (1, 7, 45, 90, 3600):
                for st in (D.datetime(1997, 9, 2, 9, 0, 45), D.datetime(2001, 2, 27, 23, 59, 59), D.datetime(2000, 12, 30, 0, 7, 1)):
                    for day in ({'byweekday': R.TH}, {'bymonthday': (st + D.timedelta(days=3)).day}, {'byweekday': [R.MO, R.SU], 'bymonth': [st.month, st.month % 12 + 1]},
                                {'byyearday': (st + D.timedelta(days=2)).timetuple().tm_yday}):
                        k += 1
                        if k % ctx.nshards != ctx.shard:
                            continue
                        kw = dict(freq=freq, interval=interval, dtstart=st, count=6, **day)
                        one_rule(ctx, R, probe, kw, {'start_kind': 'naive'})
                        ctx.count('subdaily_day_jump_rules')
        # directed: sub-daily rules whose interval shares a large factor with the day, filtered down to the time of day the
        # rule starts at - the only admissible state of the time-of-day cycle is the current one, which recurs only after
        # a complete cycle (an advance loop one step short of the cycle calls such a rule empty)
        k = 0
        for freq, intervals in ((R.SECONDLY, (60, 1800, 3600, 7200, 43200, 86400, 172800)), (R.MINUTELY, (30, 60, 720, 1440, 2880)),
                                (R.HOURLY, (6, 8, 12, 24, 48))):
            for interval in intervals:
                for st in (D.datetime(1997, 9, 2, 9, 0, 0), D.datetime(2001, 2, 27, 21, 30, 15), D.datetime(2000, 12, 30, 0, 7, 1)):
                    for by in ({}, {'byhour': [st.hour]}, {'byhour': [st.hour], 'byminute': [st.minute]}, {'byminute': [st.minute]},
                               {'byhour': [st.hour], 'byminute': [st.minute], 'bysecond': [st.second]}, {'byhour': [(st.hour + 12) % 24, st.hour]}):
                        k += 1
                        if k % ctx.nshards != ctx.shard:
                            continue
                        kw = dict(freq=freq, interval=interval, dtstart=st, count=5, **by)
                        one_rule(ctx, R, probe, kw, {'start_kind': 'naive'})
                        ctx.count('single_state_cycle_rules')
        # directed: BYEASTER offsets that address the first days of January (1 January = Easter - 80 ... - 114) in weekly
        # periods that begin in December, for every week start
        k = 0
        for y in (2000, 2004, 2007, 2010, 2018, 2023):
            e = RR.easter_western(y + 1)
            for jan in (1, 2, 3, 6):
                off = D.date(y + 1, 1, jan).toordinal() - e.toordinal()
                for wk in range(7):
                    k += 1
                    if k % ctx.nshards != ctx.shard:
                        continue
                    kw = dict(freq=R.WEEKLY, byeaster=[off], wkst=wk, dtstart=D.datetime(y, 12, 1, 8, 15), until=D.datetime(y + 1, 5, 31))
                    one_rule(ctx, R, probe, kw, {'start_kind': 'naive'})
                    kw = dict(freq=R.DAILY if k % 2 else R.YEARLY, byeaster=[off, 0], dtstart=D.datetime(y, 12, 1, 8, 15), count=4)
                    one_rule(ctx, R, probe, kw, {'start_kind': 'naive'})
                    ctx.count('january_easter_rules')
        # directed: weekly positions in the very first week of the calendar (0001-01-01 is a Monday: the week start of a
        # start in 0001-01-02..07 is ordinal 1 or lies before it)
        for wk in range(7):
            for day in range(1, 8):
                for by in ({'byweekday': [R.MO, R.WE, R.FR], 'bysetpos': 2}, {'byweekday': [R.TU, R.SU], 'bysetpos': [1, -1]}, {'byweekday': [R.SA]}):
                    kw = dict(freq=R.WEEKLY, wkst=wk, dtstart=D.datetime(1, 1, day, 9), count=4, **by)
                    one_rule(ctx, R, probe, kw, {'start_kind': 'naive'})
                    ctx.count('first_week_of_year_one_rules')
        # rules that can never match: ValueError or nothing, never a wrong instant
        for base in NEVER:
            for st in (D.datetime(1997, 9, 2, 9, 0, 0), D.datetime(2000, 2, 29, 1, 7, 30)):
                kw = dict(base, dtstart=st)
                one_rule(ctx, R, probe, kw, {'start_kind': 'naive'})
                ctx.count('never_matching_rules')
        ctx.note('period_probe', {'loop_header_line_found': probe.loopline is not None, 'cursor_readable': probe.cursor_ok,
                                  'periods_observed': probe.periods_total})
        if probe.loopline is None or not probe.cursor_ok:
            ctx.count('probe_degraded')
        if probe.monotone_violation:
            ctx.violation('period-cursor-not-monotone', {'cursor': list(probe.monotone_violation)}, repr(probe.monotone_violation))
        ctx.count('periods_observed', probe.periods_total)
    finally:
        probe.stop()
    if ctx.shard == 0:
        # separate rule objects iterated by four threads at once: what a rule yields does not depend on other rules being
        # iterated (outcomes compared with the single-threaded ones; bounded rules only)
        from vf import concurrent as CC
        import itertools
        import random
        r2 = random.Random(ctx.seed + 11)
        pool = []
        base = D.datetime(1997, 9, 2, 9, 0, 0)
        for freq in range(7):
            for extra in ({}, {'interval': 3}, {'byweekday': [R.MO, R.TH(2)] if freq <= 1 else [R.MO, R.TH]}, {'bymonthday': [1, -1, 15]},
                          {'bymonth': [2, 9], 'bymonthday': [28, 29]}, {'byeaster': [0, -2]} if freq == 0 else {'byhour': [9, 17]},
                          {'byweekno': [1, 20, 53]} if freq == 0 else {'byminute': [0, 30]}, {'bysetpos': [1, -1], 'byweekday': [R.MO, R.FR], 'byhour': [9, 10]}):
                pool.append(tuple(sorted(dict(extra, freq=freq, dtstart=base.replace(day=2 + len(pool) % 20), count=8).items())))
        CC.concurrent_pure(ctx, 'iterations', [R], lambda a: list(itertools.islice(R.rrule(**dict(a)), 8)), pool,
                           8 if ctx.tier == 'quick' else 100, per_thread=15, prob=.05)


def floors(agg, tier):
    c, out = agg['counters'], []
    from vf import concurrent as CC
    CC.floor(c, 'iterations', 400, 1000, out)
    need = {'quick': 6000, 'thorough': 80000}[tier]
    if agg['evaluations'] < need:
        out.append('only %d rules compared (< %d)' % (agg['evaluations'], need))
    if c.get('nontrivial', 0) < need // 3:
        out.append('only %d non-trivial rules' % c.get('nontrivial', 0))
    for f in RR.FREQNAMES:
        if c.get('freq_' + f, 0) < need // 20:
            out.append('frequency %s only %d rules' % (f, c.get('freq_' + f, 0)))
    for p in ('bymonth', 'bymonthday', 'byyearday', 'byweekno', 'byweekday', 'byeaster', 'byhour', 'byminute', 'bysecond', 'bysetpos'):
        if c.get('part_' + p, 0) < need // 40:
            out.append('BY-part %s only %d rules' % (p, c.get('part_' + p, 0)))
    if c.get('periods_observed', 0) < need:
        out.append('period probe observed only %d periods' % c.get('periods_observed', 0))
    if c.get('probe_degraded'):
        out.append('period probe could not locate the loop header / cursor: iterations were bounded by line budget only')
    if c.get('subdaily_day_jump_rules', 0) < 150:
        out.append('only %d directed sub-daily day-jump rules' % c.get('subdaily_day_jump_rules', 0))
    if c.get('single_state_cycle_rules', 0) < 250:
        out.append('only %d directed single-state-cycle rules' % c.get('single_state_cycle_rules', 0))
    if c.get('january_easter_rules', 0) < 150 or c.get('weak_easter_rules_with_occurrences', 0) < 100:
        out.append('only %d directed January-Easter rules, %d rules with offsets outside [-80, 249] that have occurrences' % (
            c.get('january_easter_rules', 0), c.get('weak_easter_rules_with_occurrences', 0)))
    if c.get('weekno_boundary_rules', 0) < 1500:
        out.append('only %d directed week-number rules' % c.get('weekno_boundary_rules', 0))
    if c.get('never_matching_rules', 0) < len(NEVER) * 2:
        out.append('never-matching class incomplete')
    if len(agg['distinct']) < (600 if tier == 'quick' else 3000):
        out.append('only %d distinct non-trivial rule classes' % len(agg['distinct']))
    return out


def replay(ctx, case):
    from dateutil import rrule as R
    probe = M.PeriodProbe(R)
    probe.start()
    try:
        kw = M.kw_from_json(case['kw'], R, zones())
        one_rule(ctx, R, probe, kw, {'start_kind': 'replay'})
    finally:
        probe.stop()
