"""C12 - recurrence queries agree with the listed sequence."""
import datetime as D
import itertools

from vf import rr_util as U

PROPERTY = 'C12'
LEVEL = 'exploration'
RULE = ('Seeded finite rules (7 frequencies subset, COUNT in {0,1,2,3,5,9,10,11,14,19,20,21,30} or UNTIL, plain / nth weekdays, '
        'month days, BYSETPOS, BYHOUR) and rrulesets built from 1-3 such rules plus inclusion / exclusion dates.  L = list(fresh '
        'uncached object).  Every query is executed on objects in every cache state - uncached, cached-fresh, cached after a '
        'partial iteration (incomplete cache), cached after a full iteration (complete cache) - in random order and compared '
        'with the same operation on the list L: count(); rule[i] for every i in -len-2..len+1 (IndexError parity); rule[a:b:c] '
        'with None / 0 / negative / out-of-range bounds and steps +-1,2,3; x in rule for elements, one-second neighbours and '
        'far values; after / before / between / xafter with inc in {False, True} and those arguments; replace(**params) '
        'against a rule constructed from the merged keyword arguments.  Non-trivial = query whose list answer is not empty / '
        'None, or an index/slice with a negative or out-of-range member, or any query on a cached object; distinct = (object '
        'kind, cache state at call time, query kind, argument class, length class).'
        ' Further object states: a member added while an iterator is open (cached / uncached), and several early iterators drained after another consumer completed the cache (under a guard lock).')
ASSUMPTIONS = ['L = list(rule) of a fresh uncached object is the reference sequence (its correctness is C01\'s / C10\'s subject)',
               'slice step 0 is outside "any indices"']
MANIFEST = {
    'technique': 'runtime model-based monitor: every query on the real rrule/rruleset in every cache state vs the same operation on the listed sequence',
    'level_text': 'Tens of thousands of query executions against a list model, across cache states and query orders, on seeded finite '
                  'rules and sets whose lengths straddle the cache fill batch.  Exploration: held on the queries observed.',
    'level_note': 'Trusts Python list semantics as the model; rules are finite by construction.',
}
PLAN = {'quick': {'shards': 6, 'timeout': 1800, 'budget': 900},
        'thorough': {'shards': 16, 'timeout': 7200, 'budget': 2400}}
N_CASES = {'quick': 120, 'thorough': 4000}


def build(R, spec, cache):
    """spec = ('rule', kw) | ('set', [kw...], rdates, exrule kws, exdates)"""
    if spec[0] == 'rule':
        return R.rrule(cache=cache, **spec[1])
    rs = R.rruleset(cache=cache)
    for kw in spec[1]:
        rs.rrule(R.rrule(**kw))
    for d in spec[2]:
        rs.rdate(d)
    for kw in spec[3]:
        rs.exrule(R.rrule(**kw))
    for d in spec[4]:
        rs.exdate(d)
    return rs


def build_late(R, spec, cache, rng):
    """the same set, but one member is added while an iterator is open (which is then drained or abandoned): the
    finished object must answer like any other object with these members - answers do not depend on the history"""
    ops = [('rrule', kw) for kw in spec[1]] + [('rdate', d) for d in spec[2]] + [('exrule', kw) for kw in spec[3]] + [('exdate', d) for d in spec[4]]
    late = rng.randrange(len(ops))
    rs = R.rruleset(cache=cache)

    def apply(op):
        kind, v = op
        getattr(rs, kind)(R.rrule(**v) if kind in ('rrule', 'exrule') else v)
    for i, op in enumerate(ops):
        if i != late:
            apply(op)
    it = iter(rs)
    for _ in range(rng.randint(0, 12)):
        try:
            next(it)
        except StopIteration:
            break
    apply(ops[late])
    if rng.random() < .7:
        for _ in it:
            pass
    return rs


def gen_spec(rng, R):
    if rng.random() < .6:
        return ('rule', U.finite_rule_kw(rng, R))
    rules = [U.finite_rule_kw(rng, R, grid=True, maxlen=21) for _ in range(rng.randint(1, 3))]
    rd = [U.BASE + D.timedelta(days=rng.randrange(25), hours=rng.choice([0, 0, 12])) for _ in range(rng.randint(0, 4))]
    ex = [U.finite_rule_kw(rng, R, grid=True, maxlen=21) for _ in range(rng.randint(0, 1))]
    exd = [U.BASE + D.timedelta(days=rng.randrange(25), hours=rng.choice([0, 0, 12])) for _ in range(rng.randint(0, 3))]
    return ('set', rules, rd, ex, exd)


def spec_json(spec):
    if spec[0] == 'rule':
        return {'kind': 'rule', 'kw': U.kw_json(spec[1])}
    return {'kind': 'set', 'rrules': [U.kw_json(k) for k in spec[1]], 'rdates': [U.iso(d) for d in spec[2]],
            'exrules': [U.kw_json(k) for k in spec[3]], 'exdates': [U.iso(d) for d in spec[4]]}


def spec_from_json(j, R):
    if j['kind'] == 'rule':
        return ('rule', U.kw_from_json(j['kw'], R))
    f = D.datetime.fromisoformat
    return ('set', [U.kw_from_json(k, R) for k in j['rrules']], [f(d) for d in j['rdates']],
            [U.kw_from_json(k, R) for k in j['exrules']], [f(d) for d in j['exdates']])


def outcome(f):
    try:
        return ('ok', f())
    except IndexError:
        return ('IndexError',)
    except Exception as e:
        return ('exc', '%s: %s' % (type(e).__name__, e))


def gen_queries(rng, L):
    n = len(L)
    qs = [('count',)]
    idxs = list(range(-n - 2, n + 2))
    for i in (idxs if n <= 6 else sorted(set(rng.sample(idxs, 10) + [0, -1, n - 1, n, -n, -n - 1, 1]))):
        qs.append(('getitem', i))
    for _ in range(6):
        sl = U.random_slice(rng, n)
        qs.append(('slice', sl.start, sl.stop, sl.step))
    for sl in ((None, 0, None), (0, 0, None), (2, 0, 2), (-2, None, None), (None, -1, None), (1, -1, 2), (None, None, -1),
               (-3, -1, None), (n, None, None), (None, n + 5, None)):
        qs.append(('slice',) + sl)
    times = U.probe_times(rng, L)
    if len(times) > 8:
        times = rng.sample(times, 8)
    for t in times:
        qs.append(('contains', t))
        for inc in (False, True):
            qs.append(('after', t, inc))
            qs.append(('before', t, inc))
            qs.append(('xafter', t, rng.choice([None, 0, 1, 2, 5]), inc))
    for _ in range(4):
        a, b = rng.choice(times), rng.choice(times)
        qs.append(('between', a, b, rng.random() < .5))
    rng.shuffle(qs)
    return qs


def answer_model(L, q):
    k = q[0]
    if k == 'count':
        return ('ok', len(L))
    if k == 'getitem':
        return U.m_getitem(L, q[1])
    if k == 'slice':
        return ('ok', L[slice(q[1], q[2], q[3])])
    if k == 'contains':
        return ('ok', q[1] in L)
    if k == 'after':
        return ('ok', U.m_after(L, q[1], q[2]))
    if k == 'before':
        return ('ok', U.m_before(L, q[1], q[2]))
    if k == 'xafter':
        return ('ok', U.m_xafter(L, q[1], q[2], q[3]))
    if k == 'between':
        return ('ok', U.m_between(L, q[1], q[2], q[3]))
    raise KeyError(k)


def answer_real(obj, q):
    k = q[0]
    if k == 'count':
        return outcome(obj.count)
    if k == 'getitem':
        return outcome(lambda: obj[q[1]])
    if k == 'slice':
        return outcome(lambda: obj[slice(q[1], q[2], q[3])])
    if k == 'contains':
        return outcome(lambda: q[1] in obj)
    if k == 'after':
        return outcome(lambda: obj.after(q[1], inc=q[2]))
    if k == 'before':
        return outcome(lambda: obj.before(q[1], inc=q[2]))
    if k == 'xafter':
        return outcome(lambda: list(obj.xafter(q[1], count=q[2], inc=q[3])))
    if k == 'between':
        return outcome(lambda: obj.between(q[1], q[2], inc=q[3]))
    raise KeyError(k)


def q_json(q):
    return [U.iso(x) if isinstance(x, D.datetime) else x for x in q]


def arg_class(q, L):
    k = q[0]
    if k == 'getitem':
        i = q[1]
        return 'neg' if i < 0 else ('oob' if i >= len(L) else 'in')
    if k == 'slice':
        return '%s%s%s' % ('n' if (q[1] or 0) < 0 else 'p', 'n' if (q[2] if q[2] is not None else 1) < 0 else ('z' if q[2] == 0 else 'p'),
                           'r' if (q[3] or 1) < 0 else 'f')
    if k in ('contains', 'after', 'before', 'xafter'):
        t = q[1]
        return 'elem' if t in L else ('out' if (not L or t < L[0] or t > L[-1]) else 'gap')
    return '-'


def cache_state(obj):
    if getattr(obj, '_cache', None) is None:
        return 'uncached'
    return 'complete' if obj._cache_complete else ('partial' if obj._cache else 'fresh')


def build_nested(R, spec, rng):
    """a cached set whose member rules are cached objects of their own, some of them partly listed before the set is first
    asked; every cache lock is replaced by a guard (objects that share one lock keep sharing one guard), so that a lock
    taken again by its owner - a call that could never return - is reported instead of hanging"""
    from vf import locks
    rs = R.rruleset(cache=True)
    members = []
    for kw in spec[1]:
        members.append(R.rrule(cache=True, **kw))
        rs.rrule(members[-1])
    for d in spec[2]:
        rs.rdate(d)
    for kw in spec[3]:
        members.append(R.rrule(cache=True, **kw))
        rs.exrule(members[-1])
    for d in spec[4]:
        rs.exdate(d)
    guards = {}
    for o in [rs] + members:
        lk = getattr(o, '_cache_lock', None)
        if lk is not None:
            o._cache_lock = guards.setdefault(id(lk), locks.GuardLock('_cache_lock'))
    for m in members:
        r = rng.random()
        if r < .3:
            next(iter(m), None)
        elif r < .5:
            list(itertools.islice(m, 12))
        elif r < .6:
            list(m)
    return rs


def prepare(R, spec, L, state, rng):
    if state.startswith('late-'):
        return build_late(R, spec, state == 'late-cached', rng)
    if state == 'nested-cached':
        return build_nested(R, spec, rng)
    if state == 'many-consumers':
        # several iterators opened before the cache is complete, another consumer completes it, then the early ones are
        # drained: every one of them must still finish (the cache lock is replaced by a guard that reports a re-acquisition
        # by its owner - which could never return - instead of hanging)
        from vf import locks
        obj = build(R, spec, True)
        obj._cache_lock = locks.GuardLock('_cache_lock')
        its = [iter(obj) for _ in range(rng.randint(2, 4))]
        for it in its:
            for _ in range(rng.randint(0, 12)):
                if next(it, None) is None:
                    break
        list(obj)
        for it in its:
            for _ in it:
                pass
        return obj
    obj = build(R, spec, state != 'uncached')
    if state == 'partial':
        it = iter(obj)
        for _ in range(rng.randint(1, max(1, len(L)))):
            try:
                next(it)
            except StopIteration:
                break
    elif state == 'complete':
        list(obj)
    return obj


def one_query(ctx, spec, sj, L, obj, q, initial):
    st_now = cache_state(obj)
    got = answer_real(obj, q)
    exp = answer_model(L, q)
    ctx.ev()
    ctx.count('query_' + q[0])
    if got != exp:
        ctx.violation('query-disagrees-with-list', {'spec': sj, 'initial_state': initial, 'state_at_call': st_now,
                                                    'query': q_json(q), 'len': len(L)},
                      'library %r, list model %r' % (got, exp))
    nontriv = st_now != 'uncached' or (exp[0] == 'ok' and exp[1] not in (None, [], False, 0)) or arg_class(q, L) not in ('in', '-', 'ppf')
    if nontriv:
        ctx.distinct('%s|%s|%s|%s|%s' % (spec[0], st_now, q[0], arg_class(q, L), min(len(L) // 10, 3)))
    ctx.count('state_' + st_now)


def check_object(ctx, R, spec, sj, L, state, rng):
    qs = gen_queries(rng, L)
    if spec[0] == 'set':
        # the explicit dates of the definition are interesting arguments whether or not they ended up as members
        for d in list(spec[2]) + list(spec[4]):
            qs += [('contains', d), ('after', d, True), ('before', d, True)]
    try:
        if state in ('uncached', 'complete', 'fresh-sequence', 'late-cached', 'late-uncached', 'many-consumers', 'nested-cached'):
            # one object, all queries in random order: answers must not depend on which queries ran before
            obj = prepare(R, spec, L, 'fresh' if state == 'fresh-sequence' else state, rng)
            # two generators stay open across all the queries and are advanced by one item between them: what an open
            # iteration yields next does not depend on the queries that ran in between (and vice versa)
            open_it, open_xa, k = iter(obj), (obj.xafter(L[0] - D.timedelta(seconds=1)) if L else iter(())), 0
            for q in qs:
                one_query(ctx, spec, sj, L, obj, q, state)
                if k <= len(L) and state != 'many-consumers':
                    want = L[k] if k < len(L) else None
                    a, b2 = outcome(lambda: next(open_it, None)), outcome(lambda: next(open_xa, None))
                    ctx.ev()
                    ctx.count('interleaved_generator_steps')
                    if a != ('ok', want) or b2 != ('ok', want):
                        ctx.violation('open-generator-disturbed-by-query', {'spec': sj, 'initial_state': state, 'position': k, 'query_before': q_json(q), 'len': len(L)},
                                      'iter -> %r, xafter -> %r, the list has %r at this position' % (a, b2, want))
                        k = len(L) + 1
                    k += 1
        else:
            # a new object per query, so that every query kind is observed on an incomplete cache
            for q in rng.sample(qs, min(30, len(qs))):
                one_query(ctx, spec, sj, L, prepare(R, spec, L, state, rng), q, state)
    except Exception as e:
        ctx.violation('iteration-raised', {'spec': sj, 'initial_state': state, 'len': len(L)}, '%s: %s' % (type(e).__name__, e))
    except BaseException as e:
        if type(e).__name__ != 'SelfDeadlock':
            raise
        ctx.violation('deadlock', {'spec': sj, 'initial_state': state, 'len': len(L)}, str(e))


def check_replace(ctx, R, kw, rng):
    """replace() returns a rule differing only in the named parameters"""
    base = R.rrule(**kw)
    st = kw['dtstart']
    if st.year >= 9990:
        st_changes = [{'dtstart': st - D.timedelta(days=1)}, {'dtstart': st - D.timedelta(days=3, hours=2)}]
    else:
        st_changes = [{'dtstart': st + D.timedelta(days=1)}, {'dtstart': st + D.timedelta(days=3, hours=2)}]
    changes = st_changes + [{'interval': kw.get('interval', 1) + 1},
               {'wkst': R.SU}, {'freq': rng.choice([R.DAILY, R.WEEKLY, R.MONTHLY])}, {'byweekday': [R.TU, R.TH]}, {'byhour': [1, 13]},
               {'bymonthday': [1, 2, 3]}]
    if 'count' in kw:
        changes += [{'count': kw['count'] + 2}, {'count': max(0, kw['count'] - 1)}, {'count': 0}]
    elif 'until' in kw:
        changes += [{'until': kw['until'] + D.timedelta(days=5) if kw['until'].year < 9999 else kw['until']}, {'until': kw['until'] - D.timedelta(days=1)}]
    else:
        changes += [{'count': 3}, {'until': st - D.timedelta(days=2)}, {'until': st}]
    # a parameter may also be replaced by None (= not given): switch the end condition, drop a BY-part
    if 'count' in kw:
        changes += [{'count': None, 'until': (st + D.timedelta(days=40)) if st.year < 9999 else D.datetime(9999, 12, 31, 23)}]
    if 'until' in kw:
        changes += [{'until': None, 'count': 4}]
    for k in ('byweekday', 'bymonthday', 'bysetpos', 'byhour'):
        if k in kw and ('count' in kw or 'until' in kw) and not (k == 'byweekday' and 'bysetpos' in kw):
            changes += [{k: None}]
    for ch in rng.sample(changes, min(5, len(changes))):
        merged = dict(kw)
        merged.update(ch)
        merged = {k: v for k, v in merged.items() if v is not None or k in ('count', 'until')}
        a = outcome(lambda: list(itertools.islice(base.replace(**ch), 60)))
        b = outcome(lambda: list(itertools.islice(R.rrule(**merged), 60)))
        ctx.ev()
        ctx.count('query_replace')
        ctx.distinct('replace|%s|%s' % (','.join(sorted(ch)), kw['freq']))
        if a != b:
            ctx.violation('replace-differs', {'kw': U.kw_json(kw), 'change': U.kw_json(ch) if 'dtstart' in ch or 'until' in ch or 'byweekday' in ch or 'wkst' in ch else ch},
                          'replace() gives %r..., constructor with the merged arguments gives %r...' % (
                              [U.iso(x) for x in a[1][:3]] if a[0] == 'ok' else a, [U.iso(x) for x in b[1][:3]] if b[0] == 'ok' else b))
    # the original is unchanged and replace() keeps the cache flag
    for c in (False, True):
        r0 = R.rrule(cache=c, **kw)
        r1 = r0.replace(interval=kw.get('interval', 1))
        ctx.ev()
        if (r1._cache is None) != (r0._cache is None) or list(r1) != list(r0):
            ctx.violation('replace-identity', {'kw': U.kw_json(kw), 'cache': c}, 'replace() with unchanged parameters differs')


def aware_queries(ctx, R):
    """rules with an aware start in zones whose offset depends on the date: a query argument denoting the same instant
    in another zone is the same datetime (x in rule iff x in list(rule), after / before / between likewise)"""
    from dateutil import tz
    zones = [tz.tzstr('EST5EDT,M3.2.0/2,M11.1.0/2'), tz.tzrange('CET', 3600, 'CEST', 7200), tz.gettz('Australia/Sydney'), tz.tzoffset('FIX', -12600)]
    others = [tz.UTC, tz.tzoffset('IST', 19800), tz.tzstr('AEST-10AEDT,M10.1.0,M4.1.0/3')]
    for zi, z in enumerate(zones):
        if z is None:
            continue
        for freq, extra in ((R.DAILY, {'count': 14}), (R.WEEKLY, {'count': 8, 'byweekday': [R.MO, R.SA]}), (R.MONTHLY, {'count': 8, 'bymonthday': [1, -1]}),
                            (R.YEARLY, {'count': 4, 'bymonth': [3, 11], 'bymonthday': [10]}), (R.HOURLY, {'count': 30, 'interval': 5})):
            for cache in (False, True):
                kw = dict(freq=freq, dtstart=D.datetime(2020, 2, 25, 9, 30, tzinfo=z), **extra)
                rule = R.rrule(cache=cache, **kw)
                L = list(R.rrule(**kw))
                for i, x in enumerate(L):
                    for o in others:
                        y = x.astimezone(o)
                        late = y + D.timedelta(seconds=1)
                        got = outcome(lambda: (y in rule, late in rule, rule.after(y, inc=True), rule.before(y, inc=True), rule.between(y, y, inc=True),
                                               rule.after(y), rule.before(late)))
                        exp = ('ok', (True, False, x, x, [x], L[i + 1] if i + 1 < len(L) else None, x))
                        ctx.ev()
                        ctx.count('aware_queries_other_zone')
                        ctx.distinct('aware|%d|%d|%s|%s' % (zi, freq, cache, o.tzname(None)))
                        if got != exp:
                            ctx.violation('aware-query-in-another-zone', {'workload': 'aware-queries', 'zone': repr(z), 'freq': freq, 'cache': cache,
                                                                          'occurrence': x.isoformat(), 'asked_as': y.isoformat()},
                                          '(in, in+1s, after inc, before inc, between, after, before+1s) = %r, expected %r' % (got, exp))
                            break


def directed_specs(R):
    """object shapes every run must contain, whatever the seed draws: BYSETPOS rules ended by COUNT and by UNTIL, lengths
    at the cache fill batch, empty and single-element rules, sets with coinciding and fully excluded members"""
    st = U.BASE
    out = []
    for count in (1, 3, 10, 11, 20):
        out.append(('rule', {'freq': R.MONTHLY, 'dtstart': st, 'byweekday': [R.MO, R.TU, R.WE, R.TH, R.FR], 'bysetpos': [1, -1], 'count': count}))
        out.append(('rule', {'freq': R.WEEKLY, 'dtstart': st, 'byweekday': [R.MO, R.WE, R.FR], 'bysetpos': 2, 'count': count, 'interval': 2}))
        out.append(('rule', {'freq': R.DAILY, 'dtstart': st, 'byhour': [6, 18], 'bysetpos': -1, 'count': count}))
    out.append(('rule', {'freq': R.MONTHLY, 'dtstart': st, 'byweekday': [R.FR], 'bysetpos': -1, 'until': st + D.timedelta(days=400)}))
    out.append(('rule', {'freq': R.DAILY, 'dtstart': st, 'count': 0}))
    # rules that end before COUNT is reached: the calendar ends, nothing can match, COUNT is negative
    out.append(('rule', {'freq': R.DAILY, 'dtstart': D.datetime(9999, 12, 30, 9), 'count': 5}))
    out.append(('rule', {'freq': R.MONTHLY, 'dtstart': D.datetime(9999, 10, 31, 9), 'count': 12, 'bymonthday': [31]}))
    out.append(('rule', {'freq': R.YEARLY, 'dtstart': st, 'bymonth': 2, 'bymonthday': 30, 'count': 3}))
    out.append(('rule', {'freq': R.DAILY, 'dtstart': st, 'count': -2}))
    out.append(('set', [{'freq': R.DAILY, 'dtstart': D.datetime(9999, 12, 29, 9), 'count': 6}], [D.datetime(9999, 12, 31, 12)], [], []))
    out.append(('rule', {'freq': R.YEARLY, 'dtstart': st, 'bymonth': 2, 'bymonthday': 30, 'until': st + D.timedelta(days=3000)}))
    out.append(('set', [{'freq': R.DAILY, 'dtstart': st, 'count': 10}, {'freq': R.DAILY, 'dtstart': st, 'count': 10}], [st, st + D.timedelta(days=30)], [], []))
    out.append(('set', [{'freq': R.DAILY, 'dtstart': st, 'count': 5}], [], [{'freq': R.DAILY, 'dtstart': st, 'count': 5}], []))
    # explicit dates removed by an exclusion rule (not by an exclusion date), and explicit dates that survive next to them
    out.append(('set', [{'freq': R.WEEKLY, 'dtstart': st, 'count': 6}], [st + D.timedelta(days=2), st + D.timedelta(days=3), st + D.timedelta(days=40)],
                [{'freq': R.DAILY, 'dtstart': st + D.timedelta(days=2), 'count': 1}, {'freq': R.DAILY, 'dtstart': st + D.timedelta(days=40), 'count': 3}], []))
    out.append(('set', [], [st, st + D.timedelta(days=1), st + D.timedelta(days=2)], [{'freq': R.DAILY, 'dtstart': st, 'interval': 2, 'count': 2}], [st + D.timedelta(days=1)]))
    out.append(('set', [{'freq': R.DAILY, 'dtstart': st, 'count': 20, 'bysetpos': 1, 'byhour': [9, 21]}], [], [], [st + D.timedelta(days=3)]))
    return out


def run(ctx):
    from dateutil import rrule as R
    if ctx.shard == 0:
        aware_queries(ctx, R)
    rng = ctx.rng
    directed = directed_specs(R)
    for i in range(-len(directed), N_CASES[ctx.tier]):
        if i % 20 == 0 and not ctx.time_left():
            ctx.count('stopped_by_time_budget')
            break
        if i < 0:
            if (-i) % ctx.nshards != ctx.shard:
                continue
            spec = directed[-i - 1]
            ctx.count('directed_objects')
        else:
            spec = gen_spec(rng, R)
        sj = spec_json(spec)
        try:
            L = list(build(R, spec, False))
        except Exception as e:
            ctx.violation('listing-raised', {'spec': sj}, repr(e))
            continue
        ctx.count('objects_' + spec[0])
        ctx.count('len_%d' % min(len(L) // 10 * 10, 30))
        for state in ('uncached', 'fresh', 'partial', 'complete', 'fresh-sequence', 'many-consumers'):
            check_object(ctx, R, spec, sj, L, state, rng)
        if spec[0] == 'set':
            for state in ('late-cached', 'late-uncached'):
                ctx.count('late_member_objects')
                check_object(ctx, R, spec, sj, L, state, rng)
            ctx.count('nested_cached_objects')
            check_object(ctx, R, spec, sj, L, 'nested-cached', rng)
        if spec[0] == 'rule':
            try:
                check_replace(ctx, R, spec[1], rng)
            except Exception as e:       # an exception out of the library is an observation, not a harness failure
                ctx.violation('replace-raised', {'kw': U.kw_json(spec[1])}, '%s: %s' % (type(e).__name__, e))
        if i % 60 == 0:
            ctx.sample({'spec': sj, 'len': len(L), 'first': [U.iso(x) for x in L[:3]]})


def floors(agg, tier):
    c, out = agg['counters'], []
    need = {'quick': 60000, 'thorough': 1000000}[tier]
    if agg['evaluations'] < need:
        out.append('only %d query evaluations (< %d)' % (agg['evaluations'], need))
    for q in ('count', 'getitem', 'slice', 'contains', 'after', 'before', 'xafter', 'between', 'replace'):
        if c.get('query_' + q, 0) < 300:
            out.append('query %s evaluated only %d times' % (q, c.get('query_' + q, 0)))
    for s in ('uncached', 'fresh', 'partial', 'complete'):
        if c.get('state_' + s, 0) < need // 30:
            out.append('cache state %s observed at only %d calls' % (s, c.get('state_' + s, 0)))
    if c.get('aware_queries_other_zone', 0) < 1000:
        out.append('only %d aware queries asked in another zone' % c.get('aware_queries_other_zone', 0))
    if c.get('interleaved_generator_steps', 0) < 5000:
        out.append('only %d interleaved generator steps' % c.get('interleaved_generator_steps', 0))
    if c.get('nested_cached_objects', 0) < 40:
        out.append('only %d cached sets with cached members' % c.get('nested_cached_objects', 0))
    if c.get('objects_set', 0) < 50 or c.get('objects_rule', 0) < 100:
        out.append('too few objects: %r' % {k: v for k, v in c.items() if k.startswith('objects')})
    if len(agg['distinct']) < 300:
        out.append('only %d distinct classes' % len(agg['distinct']))
    return out


def replay(ctx, case):
    from dateutil import rrule as R
    import random
    if case.get('workload') == 'aware-queries':
        aware_queries(ctx, R)
    elif 'spec' in case:
        spec = spec_from_json(case['spec'], R)
        L = list(build(R, spec, False))
        check_object(ctx, R, spec, case['spec'], L, case.get('initial_state', 'uncached'), random.Random(0))
    elif 'kw' in case:
        check_replace(ctx, R, U.kw_from_json(case['kw'], R), random.Random(0))
