"""C04 - every tzinfo converts UTC to local time and back without loss."""
import datetime as D

from vf import tzmodels as TM, tzzoo

PROPERTY = 'C04'
LEVEL = 'exploration'
RULE = ('Zone objects of every kind the library produces: tzutc, tzoffset (incl. sub-minute, +-23:59:59, timedelta argument), '
        'tzfile for real TZif files (stratified by transition shape found in the data; thorough = the whole database) and '
        'synthetic files (negative DST, double summer time, same-offset changes, first-transition fold / gap, date-line moves, '
        'half-hour and two-hour savings), tzstr for random POSIX rule triples (M / J / n forms, both hemispheres, :30 / :45 '
        'offsets, 30 m / 1 h / 2 h savings, transition times 0 .. 23 h), the tzrange built from the documented relativedelta '
        'recipe, the VTIMEZONE (tzical) stating the same rules, and tzlocal under TZ=<the same string> (process TZ switched '
        'with tzset around the probes).  For each zone every offset change (all recorded transitions; 3 years for rule zones) '
        'is probed at {-7200, -3600, -1800, -1, 0, 1, 1799, 3599, 3600, 3601, 7199, 7200, 10800, +-86400} s plus random '
        'instants.  Per instant u: l = u.astimezone(Z) must satisfy l.utcoffset() == wall(l) - u, l.astimezone(UTC) == u; no '
        'two instants may share (wall, fold); where a truth model exists (TZif reader, POSIX evaluator, constants) the offset and '
        'abbreviation must be the model\'s at u.  The VTIMEZONE zone\'s locked component cache is additionally driven by 2-3 tasks under the '
        'baton scheduler (all single-preemption plans, PCT and random schedules): every answer must equal that of a freshly '
        'parsed zone.  Non-trivial = instant within 3 h of an offset change; distinct = (zone, '
        'transition index, probe offset).'
        ' Zoo additions: sub-minute (+-hhmmss) VTIMEZONE / tzrange zones, components without TZNAME, single-component definitions, one-off STANDARD components that change the standard offset (truth = equivalent TZif data), TZif data with 200 types; after the last transition of synthetic data the last type is claimed; a second look at datetimes converted earlier must give the first answers.')
ASSUMPTIONS = ['truth models: vf/oracles/tzif_ref.py, vf/oracles/posix_tz_ref.py (self-tested; POSIX model also compared with glibc in C08)',
               'tzfile: truth claimed up to the last transition of the version-1 block; beyond it only self-consistency',
               'synthetic TZif data stay within PEP 495\'s assumption (a wall time has at most two pre-images)',
               'rule triples keep the end transition\'s standard-time-of-day inside [0, 24 h) (the K3 domain belongs to C08)']
MANIFEST = {
    'technique': 'runtime monitor on tzinfo conversions: round-trip and (wall, fold)-injectivity invariants checked on every probed instant, plus lock-step comparison with independent zone models; plus the same conversions through shared zone objects from four free-running threads with injected yields (sys.monitoring), compared with the single-threaded outcomes',
    'level_text': 'Hundreds of thousands of UTC instants concentrated around every offset change of real, synthetic and rule-based '
                  'zones are converted by the real tzinfo classes; invariants need no model, truth comes from independent readers.  '
                  'Hit counters on fromutc/utcoffset/tzname/dst prove each class was reached.  Exploration level.',
    'level_note': 'Trusts CPython datetime.astimezone, the TZif reader and the POSIX evaluator.',
}
PLAN = {'quick': {'shards': 4, 'timeout': 1800, 'budget': 900},
        'thorough': {'shards': 16, 'timeout': 7200, 'budget': 2400}}
OFFSETS = (-86400, -7200, -3600, -1800, -1, 0, 1, 1799, 3599, 3600, 3601, 7199, 7200, 10800, 86400)
LO, HI = -62135596800 + 400000, 253402300799 - 400000


FRACTIONS = ((-1, 500000), (0, 1), (-3601, 500000), (-3600, 250000), (-1801, 999999), (3599, 999999), (-7201, 500000), (1799, 500000))


def probes(model, rng, kind):
    """[(transition index, offset label, UTC second, microsecond)]"""
    tr = model.transitions()
    out = []
    for i, t in enumerate(tr):
        for off in OFFSETS:
            out.append((i, off, t + off, 0))
        for off, us in FRACTIONS:
            out.append((i, off, t + off, us))
    if tr:
        span = (tr[0] - 86400 * 30, tr[-1] + 86400 * 30)
    else:
        span = (TM.to_ts(D.datetime(1950, 1, 1)), TM.to_ts(D.datetime(2040, 1, 1)))
    for _ in range(40 if not tr else min(200, 10 + len(tr))):
        out.append((-1, 'r', rng.randrange(span[0], span[1]), rng.choice([0, 0, 1, 999999, rng.randrange(10 ** 6)])))
    return [(i, off, ts, us) for i, off, ts, us in out if LO < ts < HI]


def check_zone(ctx, tz, label, kind, z, model, rng):
    UTC = tz.UTC
    seen = {}
    nbad = 0
    first = []
    for i, off, ts, us in probes(model, rng, kind):
        u = (TM.EPOCH + D.timedelta(seconds=ts, microseconds=us)).replace(tzinfo=UTC)
        ctx.ev()
        case = {'zone': label, 'kind': kind, 'utc': ts, 'us': us, 'utc_iso': u.replace(tzinfo=None).isoformat(), 'transition': i, 'offset': off}
        if getattr(model, 'data', None) is not None:
            case['tzif_hex'] = model.data.hex()
        try:
            l = u.astimezone(z)
            wall = l.replace(tzinfo=None)
            uo = l.utcoffset()
            back = l.astimezone(UTC)
            name = l.tzname()
        except Exception as e:
            ctx.violation('conversion-raised', case, '%s: %s' % (type(e).__name__, e))
            continue
        bad = []
        disp = wall - u.replace(tzinfo=None)
        if uo != disp:
            bad.append('utcoffset() %s but wall - UTC = %s' % (uo, disp))
        if back != u:
            bad.append('back-conversion gives %s' % back.replace(tzinfo=None).isoformat())
        key = (wall, l.fold)
        if key in seen and seen[key] != (ts, us):
            bad.append('instants %r and %r both map to wall %s fold=%d' % (seen[key], (ts, us), wall.isoformat(), l.fold))
        seen[key] = (ts, us)
        truth = model.at(ts) if model.claimed(ts) else None
        if truth is not None:
            t = TM.norm_type(truth)
            ctx.count('truth_comparisons')
            if int(disp.total_seconds()) != t[0]:
                bad.append('offset in force at this instant is %d s, conversion used %d s' % (t[0], int(disp.total_seconds())))
            if name != t[1]:
                bad.append('abbreviation %r, in force: %r' % (name, t[1]))
        if bad:
            nbad += 1
            if nbad <= 3:
                ctx.violation('conversion', case, '; '.join(bad))
        elif len(first) < 40 or rng.random() < .02:
            first.append((l, uo, name, case))
        if i >= 0 and isinstance(off, int) and abs(off) <= 10800:
            ctx.distinct('%s|%d|%d|%d' % (label, i, off, us))
    # a second look at datetimes converted earlier (zones keep lookup caches): same offset and abbreviation as at first
    for l, uo, name, case in first:
        ctx.ev()
        ctx.count('second_looks')
        try:
            again = (l.utcoffset(), l.tzname(), l.astimezone(UTC))
        except Exception as e:
            ctx.violation('conversion-raised', case, 'second look: %s: %s' % (type(e).__name__, e))
            break
        if again[:2] != (uo, name) or again[2].replace(tzinfo=None) != l.replace(tzinfo=None) - uo:
            ctx.violation('second-look-differs', case, 'the converted datetime %s first reported %s %r, later %s %r (back-conversion %s)'
                          % (l.replace(tzinfo=None).isoformat(), uo, name, again[0], again[1], again[2].replace(tzinfo=None).isoformat()))
            break
    ctx.count('zones_' + kind)
    ctx.count('offset_changes_probed', len(model.transitions()))
    if ctx.counters['zones_' + kind] <= 2:
        ctx.sample({'zone': label, 'kind': kind, 'offset_changes': len(model.transitions())})


def check_subsecond_offsets(ctx, tz):
    """fixed offsets given as timedeltas with a fraction of a second, several of them alive under one name: each zone
    must convert with exactly the offset it was asked for"""
    UTC = tz.UTC
    base = D.timedelta(minutes=19, seconds=32)
    deltas = [base, base + D.timedelta(milliseconds=130), base + D.timedelta(microseconds=1), base - D.timedelta(microseconds=1),
              -base, -base - D.timedelta(milliseconds=500), D.timedelta(seconds=0.5), D.timedelta(seconds=-0.25)]
    zones = [(d, tz.tzoffset('AMT', d)) for d in deltas]          # all kept alive together
    for d, z in zones:
        for u in (D.datetime(1937, 6, 30, 23, 59, 59, 999999), D.datetime(2020, 1, 1, 12, 0, 0, 5)):
            ctx.ev()
            ctx.count('subsecond_offset_probes')
            ctx.distinct('subsecond|%s' % d)
            l = u.replace(tzinfo=UTC).astimezone(z)
            case = {'zone': 'tzoffset(AMT, %r)' % (d,), 'utc_iso': u.isoformat()}
            if l.utcoffset() != d or l.replace(tzinfo=None) - u != d or l.astimezone(UTC).replace(tzinfo=None) != u:
                ctx.violation('conversion', case, 'asked for offset %s: utcoffset() %s, wall - UTC %s, back-conversion %s'
                              % (d, l.utcoffset(), l.replace(tzinfo=None) - u, l.astimezone(UTC).replace(tzinfo=None).isoformat()))


def run(ctx):
    from dateutil import relativedelta, tz
    hits = {}
    if ctx.shard == 0:
        check_subsecond_offsets(ctx, tz)
    unhook = tzzoo.install_hit_counters(hits)
    try:
        for label, kind, z, model, cleanup in TM.iter_zones(ctx, tz, relativedelta, ctx.rng, ctx.tier):
            try:
                if ctx.time_left() or kind in ('fixed', 'tzlocal', 'tzlocal-fixed', 'tzical', 'tzrange', 'tzstr', 'tzstr-fixed'):
                    check_zone(ctx, tz, label, kind, z, model, ctx.rng)
                else:
                    ctx.count('skipped_by_time_budget')
            finally:
                cleanup()
        for k, v in hits.items():
            ctx.hit(k, v)
    finally:
        unhook()
    # the iCalendar zone's component cache under controlled thread schedules (conversions must not depend on the interleaving)
    from vf import tz_sched
    from vf.oracles import posix_tz_ref as PZ
    pz = PZ.PosixZone('EST', -18000, 'EDT', -14400, ('M', 3, 2, 0), 7200, ('M', 11, 1, 0), 7200)
    tz_sched.sweep(ctx, tz, pz, ctx.rng, 120 if ctx.tier == 'quick' else 1500)
    if ctx.shard == 0:
        # conversions through zone objects shared by four free-running threads (every zone class; instants around the
        # transitions of several years, so per-zone memos are fought over); outcomes compared with the single-threaded
        # ones, which carry the judgments made above
        from vf import concurrent as CC
        import datetime as D
        import io
        shared = [tz.tzstr('EST5EDT,M3.2.0,M11.1.0'), tz.tzstr('AEST-10AEDT,M10.1.0,M4.1.0/3'), tz.tzrange('CET', 3600, 'CEST', 7200),
                  tz.tzoffset('X', -12600), tz.UTC, tz.tzlocal(),
                  tz.tzical(io.StringIO(tzzoo.vtimezone_text(pz, first_year=1990))).get()]
        for name in ('Europe/London', 'America/New_York', 'Australia/Lord_Howe'):
            z = tz.gettz(name)
            if z is not None:
                shared.append(z)
        pool = []
        for zi in range(len(shared)):
            for y in (1995, 2004, 2011, 2020):
                for mth, day in ((3, 8), (3, 14), (3, 28), (4, 3), (10, 5), (10, 25), (10, 31), (11, 1), (11, 7), (6, 15)):
                    for h in (0, 2, 6, 7, 16):
                        pool.append((zi, D.datetime(y, mth, day, h, 30, tzinfo=tz.UTC)))

        def conv(a):
            loc = a[1].astimezone(shared[a[0]])
            back = loc.astimezone(tz.UTC)
            return (loc.replace(tzinfo=None), loc.fold, loc.utcoffset(), loc.tzname(), loc.dst(), back == a[1])
        CC.concurrent_pure(ctx, 'conversions', ['dateutil.tz.tz', 'dateutil.tz._common'], conv, pool, 10 if ctx.tier == 'quick' else 150,
                           per_thread=40, prob=.2, render=lambda a: '%r -> zone %r' % (a[1].isoformat(), shared[a[0]]))


def floors(agg, tier):
    c, h, out = agg['counters'], agg['hits'], []
    from vf import concurrent as CC
    CC.floor(c, 'conversions', 1200, 1000, out)
    for k, n in (('zones_fixed', 8), ('zones_tzfile', 30 if tier == 'quick' else 300), ('zones_tzfile-synthetic', 15), ('zones_tzstr', 20),
                 ('zones_tzrange', 20), ('zones_tzical', 8), ('zones_tzlocal', 20), ('truth_comparisons', 50000)):
        if c.get(k, 0) < n:
            out.append('%s only %d (< %d)' % (k, c.get(k, 0), n))
    if c.get('tzical_scheduled_runs', 0) < 300 or c.get('tzical_distinct_interleavings', 0) < 100:
        out.append('tzical scheduled scenario: %d runs, %d distinct interleavings' % (c.get('tzical_scheduled_runs', 0), c.get('tzical_distinct_interleavings', 0)))
    if agg['evaluations'] < (80000 if tier == 'quick' else 600000):
        out.append('only %d instants' % agg['evaluations'])
    for s in ('fold-into-dst-flagged', 'dst-to-dst', 'same-offset-type-change', 'first-transition-fold'):
        if c.get('shape_' + s, 0) < 1:
            out.append('no real file with shape %s' % s)
    for k in ('tzfile.fromutc', 'tzrangebase.fromutc', '_tzinfo.fromutc', 'tzoffset.fromutc', 'tzutc.fromutc', 'tzfile.utcoffset',
              'tzrangebase.utcoffset', '_tzicalvtz.utcoffset', 'tzlocal.utcoffset', 'tzoffset.utcoffset'):
        if h.get(k, 0) < 100:
            out.append('monitored %s reached only %d times' % (k, h.get(k, 0)))
    return out


def replay(ctx, case):
    from dateutil import relativedelta, tz
    import io
    import random
    from vf.oracles import tzif_ref
    if case.get('tzif_hex'):
        data = bytes.fromhex(case['tzif_hex'])
        check_zone(ctx, tz, case['zone'], 'tzfile-synthetic', tz.tzfile(io.BytesIO(data)), TM.TzifModel(tzif_ref.RefZone(data)), random.Random(0))
        return
    want = case.get('zone')
    for label, kind, z, model, cleanup in TM.iter_zones(ctx, tz, relativedelta, random.Random(0), 'thorough' if case.get('kind') == 'tzfile' else 'quick',
                                                        kinds=[case.get('kind', 'tzfile').replace('-synthetic', '').replace('-fixed', '')]):
        try:
            if label == want:
                check_zone(ctx, tz, label, kind, z, model, random.Random(0))
        finally:
            cleanup()
