"""C03 - date + relativedelta follows the documented replace / shift / clip / weekday order."""
import calendar
import datetime as D

from vf import mon_rd
from vf.oracles import rd_ref

PROPERTY = 'C03'
LEVEL = 'exploration'
RULE = ('Seeded generator: operand = date / naive datetime / aware datetime (UTC, fixed offset, tzfile zone) with '
        'years drawn from boundary years (1, 2, 4, 100, 400, 1582, 1900, 2000, 2100, 9998, 9999) and random years, '
        'month-end days and 29 Feb over-represented; delta = random subset of absolute fields, signed relative '
        'fields large enough to carry across units/months/years, leapdays, yearday/nlyearday, weekday as int / MO / '
        'MO(n) with n in -5..5 incl. None and 0.  Every dt+rd, rd+dt and dt-rd executed through the real operators is '
        'compared by the monitor on relativedelta.__add__/__rsub__ with the independent model rd_ref.add evaluated '
        'on the *constructor arguments* (value, type date/datetime, tzinfo identity, error parity for results '
        'outside year 1..9999); the workload also asserts dt+rd == rd+dt and dt-rd == dt+(-rd).  A case is '
        'non-trivial when the delta has >= 2 field kinds or triggers a clip / carry / leapday / weekday jump / '
        'promotion; distinct = distinct (operand kind, field-kind set, mechanism flags) tuples.')
ASSUMPTIONS = ['CPython datetime/timedelta/calendar', 'vf/oracles/rd_ref.py (self-tested against the documentation '
               'examples and timedelta arithmetic in every run)',
               'reading of "carries time information": an absolute time field or a sub-day relative part that is '
               'not a whole number of days (whole days are normalised into days=)']
MANIFEST = {
    'technique': 'runtime monitor on relativedelta.__add__/__rsub__ with an independent reference model (lock-step differential); plus the same additions from four free-running threads with injected yields (sys.monitoring), compared with the single-threaded outcomes',
    'level_text': 'The real operators are executed on tens of thousands of seeded operand/delta pairs aimed at the '
                  'boundary classes (month ends, leap days, year 1/9999, carries, negative weekday ordinals); a class-level '
                  'monitor recomputes every result from the client-side constructor arguments with an independent model '
                  'and compares value, type and tzinfo.  Exploration, not proof: holds on the executions observed.',
    'level_note': 'Trusts CPython datetime arithmetic and the reference model rd_ref (self-tested each run). Float-valued '
                  'fields are outside the model and only counted.',
}
PLAN = {'quick': {'shards': 2, 'timeout': 1800, 'budget': 900},
        'thorough': {'shards': 16, 'timeout': 7200, 'budget': 2400}}
N_CASES = {'quick': 12000, 'thorough': 120000}     # per shard

YEARS = [1, 2, 4, 5, 100, 400, 1582, 1899, 1900, 1999, 2000, 2003, 2004, 2023, 2024, 2100, 2400, 9996, 9998, 9999]


def zones():
    from dateutil import tz
    zs = [tz.UTC, tz.tzoffset('X', 3600 * 5 + 1800), tz.tzoffset(None, -37)]
    z = tz.gettz('America/New_York')
    if z is not None:
        zs.append(z)
    return zs


def gen_dt(rng, zs):
    y = rng.choice(YEARS) if rng.random() < .6 else rng.randint(1, 9999)
    m = rng.randint(1, 12)
    ml = calendar.monthrange(y, m)[1]
    d = rng.choice([1, 28, 29, 30, 31, rng.randint(1, 31)])
    d = min(d, ml)
    r = rng.random()
    if r < .35:
        return D.date(y, m, d)
    dt = D.datetime(y, m, d, rng.choice([0, 23, rng.randint(0, 23)]), rng.randint(0, 59), rng.randint(0, 59),
                    rng.choice([0, 1, 999999, rng.randint(0, 999999)]))
    if r < .55:
        dt = dt.replace(tzinfo=rng.choice(zs))
        if rng.random() < .2:
            dt = dt.replace(fold=1)
    return dt


def gen_kw(rng, wdcls):
    kw = {}
    p = rng.choice([.12, .25, .4])
    for k, hi in (('years', 30), ('months', 40), ('days', 800), ('weeks', 60), ('hours', 100), ('minutes', 5000),
                  ('seconds', 200000), ('microseconds', 5 * 10 ** 6)):
        if rng.random() < p:
            kw[k] = rng.choice([rng.randint(-hi, hi), rng.randint(-3, 3), rng.choice([-1, 1]) * hi * 100])
    if rng.random() < .08:    # sub-day parts that cancel or sum to whole days
        kw.update(rng.choice([{'hours': 24}, {'hours': 48, 'minutes': 0}, {'hours': 23, 'minutes': 60},
                              {'hours': 1, 'minutes': -60}, {'seconds': 86400}, {'hours': 12, 'minutes': 720},
                              {'microseconds': 86400 * 10 ** 6}, {'hours': 25, 'minutes': -60}]))
    if rng.random() < .15:
        kw['leapdays'] = rng.choice([-1, 1, 2, -2])
    if rng.random() < .12:
        kw['year'] = rng.choice([1, 1900, 1999, 2000, 2004, 2100, 9999, rng.randint(1, 9999)])
    if rng.random() < .12:
        kw['month'] = rng.randint(1, 12)
    if rng.random() < .14:
        kw['day'] = rng.choice([1, 15, 28, 29, 30, 31])
    for k, hi in (('hour', 23), ('minute', 59), ('second', 59), ('microsecond', 999999)):
        if rng.random() < .08:
            kw[k] = rng.choice([0, hi, rng.randint(0, hi)])
    r = rng.random()
    if r < .07:
        kw['yearday'] = rng.choice([1, 31, 32, 59, 60, 61, 100, 260, 365, 366, rng.randint(1, 366)])
    elif r < .12:
        kw['nlyearday'] = rng.choice([1, 59, 60, 61, 200, 365, rng.randint(1, 365)])
    if rng.random() < .3:
        w = rng.randrange(7)
        n = rng.choice([None, 0, 1, -1, 2, -2, 3, -3, 4, -4, 5, -5])
        form = rng.random()
        if form < .25:
            kw['weekday'] = w
        elif n is None:
            kw['weekday'] = wdcls(w)
        else:
            kw['weekday'] = wdcls(w, n)
    return kw


class CtxSink(mon_rd.Sink):
    """Routes monitor reports into the run context, classifying known findings by mechanism."""

    def fail(self, kind, case, detail):
        self.ctx.violation(kind, case, detail)


def outcome(f):
    try:
        return ('ok', f())
    except (ValueError, OverflowError) as e:
        return ('err', type(e).__name__)
    except Exception as e:
        return ('exc', '%s: %s' % (type(e).__name__, e))


def same_outcome(a, b):
    if a[0] != b[0]:
        return False
    if a[0] == 'ok':
        return mon_rd.same_value(a[1], b[1])
    return True


def one_case(ctx, dt, kw, relativedelta):
    case = {'operand': mon_rd.dt_json(dt), 'kw': mon_rd.kw_json(kw)}
    try:
        rd = relativedelta(**kw)
    except Exception as e:
        ctx.violation('constructor-raised', case, '%s: %s' % (type(e).__name__, e))
        return
    a = outcome(lambda: dt + rd)
    b = outcome(lambda: rd + dt)
    c = outcome(lambda: dt - rd)
    d = outcome(lambda: dt + (-rd))
    ctx.ev(2)
    if not same_outcome(a, b):
        ctx.violation('operand-order', case, 'dt+rd=%r rd+dt=%r' % (a, b))
    if not same_outcome(c, d):
        ctx.violation('sub-is-add-neg', case, 'dt-rd=%r dt+(-rd)=%r' % (c, d))
    for o in (a, b, c, d):
        if o[0] == 'exc':
            ctx.violation('unexpected-exception', case, o[1])
    ref_kw = mon_rd.kw_to_ref(kw)
    if ref_kw is None:
        ctx.count('cases_outside_model_domain')
        return
    flags = rd_ref.clip_flags(dt, ref_kw)
    if rd_ref.has_time(ref_kw) and not isinstance(dt, D.datetime):
        flags.add('promote')
    kinds = sorted(kw)
    if len(kinds) >= 2 or flags:
        okind = 'date' if not isinstance(dt, D.datetime) else ('aware' if dt.tzinfo else 'naive')
        ctx.distinct('%s|%s|%s' % (okind, ','.join(kinds), ','.join(sorted(flags))))
        for fl in flags:
            ctx.count('flag_' + fl)
    if a[0] == 'err':
        ctx.count('range_error_cases')
    ctx.sample({'operand': case['operand'], 'kw': case['kw'], 'result': repr(a[1])})


def run(ctx):
    _repo_tests(ctx)
    from dateutil import relativedelta as mod
    if not rd_ref.selftest():
        ctx.inconclusive_because('rd_ref self-test failed')
        return
    sink = CtxSink(ctx)
    inst = mon_rd.install(sink, check_add=True, check_invariant=False)
    try:
        zs = zones()
        ctx.note('zones', [repr(z) for z in zs])
        rng = ctx.rng
        n = N_CASES[ctx.tier]
        for i in range(n):
            if i % 500 == 0 and not ctx.time_left():
                ctx.count('stopped_by_time_budget')
                break
            one_case(ctx, gen_dt(rng, zs), gen_kw(rng, mod.weekday), mod.relativedelta)
            ctx.count('cases')
        directed(ctx, mod)
    finally:
        inst.uninstall()
    if ctx.shard == 0:
        # the addition is a function of its operands, also while other threads add deltas (no monitor installed here:
        # the single-threaded outcomes it is compared with were judged above)
        from vf import concurrent as CC
        import dateutil._common as common
        import random
        r2 = random.Random(ctx.seed + 77)
        zs = zones()
        pool = [(gen_dt(r2, zs), mod.relativedelta(**gen_kw(r2, mod.weekday))) for _ in range(150)]
        pool += [(D.date(y, m, calendar.monthrange(y, m)[1]), mod.relativedelta(months=k)) for y in (2000, 2021) for m in range(1, 13) for k in (-1, 1, 13)]
        CC.concurrent_pure(ctx, 'additions', [mod, common], lambda a: a[0] + a[1], pool, 12 if ctx.tier == 'quick' else 200)


def directed(ctx, mod):
    """Small systematic sweeps of the corners the random generator only samples."""
    R, W = mod.relativedelta, mod.weekday
    # every weekday x n in -5..5 x every day of two weeks
    for w in range(7):
        for n in (None, 0, 1, -1, 2, -2, 3, -3, 4, -4, 5, -5):
            for off in range(0, 14, 3):
                base = D.date(2003, 9, 10) + D.timedelta(days=off)
                kw = {'weekday': W(w) if n is None else W(w, n)}
                one_case(ctx, base, kw, R)
                ctx.count('directed_weekday')
    # a day of the year together with an explicit leap-day correction (and a month shift that carries the date past February)
    for yd_key in ('yearday', 'nlyearday'):
        for yd in (1, 31, 59, 60, 61, 100, 365, 366):
            if yd_key == 'nlyearday' and yd == 366:
                continue
            for ld in (1, -1, 2):
                for months in (0, 2, 3, -1):
                    for base in (D.date(2024, 1, 10), D.date(2023, 1, 10), D.datetime(2000, 7, 4, 12, 30), D.date(1900, 5, 17)):
                        kw = {yd_key: yd, 'leapdays': ld}
                        if months:
                            kw['months'] = months
                        one_case(ctx, base, kw, R)
                        ctx.count('directed_yearday_leapdays')
                # the fields the constructor derives: month and day of the year day; the leap-day correction is the explicit one
                # unless the year day lies after February (yearday 60..365: -1, so that the day number counts 29 February)
                try:
                    got = R(**{yd_key: yd, 'leapdays': ld})
                    first = D.date(2023, 1, 1) + D.timedelta(days=min(yd, 365) - 1)
                    want_ld = -1 if (yd_key == 'yearday' and 59 < yd < 366) else ld
                    want_md = (got.month, got.day) if yd == 366 else (first.month, first.day)     # (366 is kept as 32 December and clipped)
                    ctx.ev()
                    if (got.leapdays, got.month, got.day) != (want_ld,) + want_md:
                        ctx.violation('constructor-fields', {'kw': {yd_key: yd, 'leapdays': ld}},
                                      'leapdays / month / day = %r, expected %r' % ((got.leapdays, got.month, got.day), (want_ld,) + want_md))
                except Exception as e:
                    ctx.violation('constructor-raised', {'kw': {yd_key: yd, 'leapdays': ld}}, '%s: %s' % (type(e).__name__, e))
    # a delta that consists of the leap-day correction only
    for ld in (1, -1, 3):
        for base in (D.date(2024, 3, 1), D.date(2024, 2, 28), D.date(2023, 3, 1), D.datetime(2000, 12, 31, 23, 59, 59)):
            one_case(ctx, base, {'leapdays': ld}, R)
    # month clipping: every month end x month shifts -14..14
    for y in (1999, 2000, 2100):
        for m in range(1, 13):
            base = D.date(y, m, calendar.monthrange(y, m)[1])
            for k in (-14, -13, -12, -11, -2, -1, 1, 2, 11, 12, 13, 14):
                one_case(ctx, base, {'months': k}, R)
                ctx.count('directed_clip')
    # yearday / nlyearday x leap and non-leap years, combined with a year change
    for y in (1999, 2000, 2001, 2004, 2100):
        for yd in (1, 59, 60, 61, 365, 366):
            one_case(ctx, D.date(y, 6, 15), {'yearday': yd}, R)
            one_case(ctx, D.date(y, 6, 15), {'yearday': yd, 'years': 1}, R)
            one_case(ctx, D.date(y, 6, 15), {'yearday': yd, 'year': 2000}, R)
            if yd <= 365:
                one_case(ctx, D.date(y, 6, 15), {'nlyearday': yd}, R)
            ctx.count('directed_yearday')
    # leapdays with a year/month carry
    for y in (1999, 2000, 2003, 2004):
        for m in (1, 2, 3, 12):
            for kw in ({'leapdays': 1, 'years': 1}, {'leapdays': -1, 'months': 2}, {'leapdays': 1, 'months': -2},
                       {'leapdays': 1, 'year': 2004}, {'leapdays': 1, 'month': 3}, {'leapdays': 2, 'months': 11}):
                one_case(ctx, D.date(y, m, 28), kw, R)
                ctx.count('directed_leapdays')
    # promotion of dates
    for kw in ({'hour': 0}, {'minute': 0}, {'second': 0}, {'microsecond': 0}, {'hours': 24}, {'hours': 1},
               {'hours': 12, 'minutes': 720}, {'seconds': 86400}, {'seconds': 1}, {'microseconds': 1},
               {'hours': 1, 'minutes': -60}, {'days': 1}):
        one_case(ctx, D.date(2003, 9, 17), kw, R)
        ctx.count('directed_promotion')
    # range edges
    for kw in ({'years': 1}, {'months': 1}, {'days': 1}, {'years': -1}, {'months': -1}, {'days': -1},
               {'year': 9999, 'months': 12}, {'weekday': W(0, 5)}, {'weekday': W(6, -5)}):
        one_case(ctx, D.date(9999, 12, 31), kw, R)
        one_case(ctx, D.date(1, 1, 1), kw, R)
        one_case(ctx, D.datetime(9999, 12, 31, 23, 59, 59, 999999), kw, R)
        ctx.count('directed_range')


def _repo_tests(ctx):
    # thorough tier: the repository's own tests as one more workload under the same monitors
    if ctx.tier == 'thorough' and ctx.shard == 0:
        from vf import repo_tests
        repo_tests.run_under_monitors(ctx, ['rd'], 'C03')


def floors(agg, tier):
    c, out = agg['counters'], []
    from vf import concurrent as CC
    CC.floor(c, 'additions', 1500, 1000, out)
    need = {'quick': 15000, 'thorough': 150000}[tier]
    if agg['evaluations'] < need:
        out.append('only %d monitored evaluations (< %d)' % (agg['evaluations'], need))
    if c.get('monitored_add', 0) < need // 2 or c.get('monitored_rsub', 0) < need // 8:
        out.append('monitor on __add__/__rsub__ was not reached often enough: %r' % {k: v for k, v in c.items() if k.startswith('monitored')})
    for fl in ('flag_clip', 'flag_leapday', 'flag_weekday', 'flag_yearcarry', 'flag_daycarry', 'flag_promote', 'flag_range'):
        if c.get(fl, 0) < 20:
            out.append('mechanism %s reached only %d times' % (fl, c.get(fl, 0)))
    if len(agg['distinct']) < 300:
        out.append('only %d distinct non-trivial classes' % len(agg['distinct']))
    if c.get('monitor_internal_error'):
        out.append('monitor internal errors: %d' % c['monitor_internal_error'])
    return out


def replay(ctx, case):
    from dateutil import relativedelta as mod
    sink = CtxSink(ctx)
    inst = mon_rd.install(sink, check_add=True, check_invariant=False)
    try:
        op = case['operand']
        if 'date' in op:
            dt = D.date(*op['date'])
        else:
            dt = D.datetime(*op['datetime'])
            if op.get('tz'):
                zs = {repr(z): z for z in zones()}
                dt = dt.replace(tzinfo=zs.get(op['tz']), fold=op.get('fold', 0))
        kw = dict(case['kw'])
        if isinstance(kw.get('weekday'), list):
            kw['weekday'] = mod.weekday(*kw['weekday'])
        one_case(ctx, dt, kw, mod.relativedelta)
    finally:
        inst.uninstall()
