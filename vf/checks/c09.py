"""C09 - relativedelta(dt1, dt2) is the calendar difference that carries dt2 onto dt1."""
import calendar
import datetime as D

from vf import mon_rd
from vf.oracles import rd_ref

PROPERTY = 'C09'
LEVEL = 'exploration'
RULE = ('Seeded ordered pairs (both orders) of dates / naive datetimes / aware datetimes sharing one tzinfo object, '
        'mixed date-datetime pairs; years from boundary years (1, 4, 100, 1900, 2000, 2100, 9999) and random years; '
        'day-of-month drawn from {1, 28, 29, 30, 31} so that month-length combinations trigger the overshoot '
        'correction; partners generated a few microseconds/seconds/days/months apart (exact month multiples, month-end '
        'clips, one-minute and one-second remainders) as well as millennia apart.  For each pair the real constructor '
        'is executed and its result is checked against: the inverse law dt2 + rd == dt1 (through the real operator, '
        'itself monitored by the C03 model), only-relative-fields, field bounds, years*12+months == the largest '
        'whole-month clipped shift of dt2 not passing dt1 computed by an independent search (rd_ref.diff), remaining '
        'fields == dt1 - shifted dt2 as an exact duration, relativedelta(dt, dt) empty and falsy.  Non-trivial = the '
        'pair needs the overshoot correction (estimate != final month count) or a clip, or has a negative remainder '
        'with microseconds; distinct = (sign, type mix, clip, overshoot, remainder class, year class) tuples.')
ASSUMPTIONS = ['CPython datetime arithmetic', 'vf/oracles/rd_ref.py diff() (self-tested)',
               'aware operands share the same tzinfo object (wall-clock difference)']
MANIFEST = {
    'technique': 'runtime differential monitor: real relativedelta(dt1, dt2) vs independent month-shift search + inverse law; plus the same differences from four free-running threads with injected yields (sys.monitoring), compared with the single-threaded outcomes',
    'level_text': 'Tens of thousands of seeded pairs aimed at month-end/leap-day/microsecond/sign boundaries are pushed '
                  'through the real two-date constructor and the real addition; an independent definition of the '
                  'calendar difference decides every result.  Exploration: held on the pairs observed.',
    'level_note': 'Trusts CPython datetime and rd_ref (self-tested each run); pairs whose month shift leaves year 1..9999 '
                  'on the way are skipped by construction (cannot occur for in-range operands).',
}
PLAN = {'quick': {'shards': 2, 'timeout': 1800, 'budget': 900},
        'thorough': {'shards': 16, 'timeout': 7200, 'budget': 2400}}
N_CASES = {'quick': 15000, 'thorough': 150000}

YEARS = [1, 2, 4, 100, 400, 1600, 1899, 1900, 1999, 2000, 2001, 2003, 2004, 2023, 2024, 2100, 9998, 9999]


def gen_base(rng):
    y = rng.choice(YEARS) if rng.random() < .6 else rng.randint(1, 9999)
    m = rng.randint(1, 12)
    d = min(rng.choice([1, 15, 28, 29, 30, 31, rng.randint(1, 31)]), calendar.monthrange(y, m)[1])
    return D.datetime(y, m, d, rng.choice([0, 23, rng.randint(0, 23)]), rng.randint(0, 59), rng.randint(0, 59),
                      rng.choice([0, 0, 1, 999999, rng.randint(0, 999999)]))


def gen_partner(rng, a):
    """A second datetime related to `a` by one of the interesting distances."""
    r = rng.random()
    try:
        if r < .15:
            return gen_base(rng)
        if r < .35:      # exact/clipped whole months away, plus a small remainder
            k = rng.choice([-1, 1]) * rng.choice([1, 2, 11, 12, 13, 24, rng.randint(1, 300)])
            b = rd_ref.shift_clip(a, k)
            rem = rng.choice([D.timedelta(0), D.timedelta(0), D.timedelta(microseconds=1), D.timedelta(microseconds=-1),
                              D.timedelta(seconds=60), D.timedelta(seconds=-60), D.timedelta(seconds=59, microseconds=999999),
                              D.timedelta(days=1), D.timedelta(days=-1), D.timedelta(hours=24), D.timedelta(seconds=-1, microseconds=500000)])
            return b + rem
        if r < .6:       # close by
            return a + D.timedelta(days=rng.choice([0, 0, 1, -1, 27, 28, 29, 30, 31, -31, rng.randint(-400, 400)]),
                                   seconds=rng.choice([0, 1, -1, 59, 60, 61, 3599, 3600, 86399, rng.randint(-90000, 90000)]),
                                   microseconds=rng.choice([0, 1, -1, 500000, 999999, rng.randint(-10 ** 6, 10 ** 6)]))
        if r < .8:       # same day-of-month class in another month/year
            y = rng.choice(YEARS)
            m = rng.randint(1, 12)
            d = min(rng.choice([a.day, 28, 29, 30, 31]), calendar.monthrange(y, m)[1])
            return a.replace(year=y, month=m, day=d)
        return gen_base(rng)
    except (OverflowError, ValueError, rd_ref.OutOfRange):
        return gen_base(rng)


def shape(rng, a, b, zs):
    """Turn the two naive datetimes into the operand types of the case."""
    r = rng.random()
    if r < .2:
        return a.date(), b.date(), 'date-date'
    if r < .3:
        return a.date(), b, 'date-datetime'
    if r < .4:
        return a, b.date(), 'datetime-date'
    if r < .55:
        z = rng.choice(zs)
        return a.replace(tzinfo=z), b.replace(tzinfo=z), 'aware-aware'
    return a, b, 'naive-naive'


def check_pair(ctx, dt1, dt2, kind, relativedelta):
    case = {'dt1': mon_rd.dt_json(dt1), 'dt2': mon_rd.dt_json(dt2), 'types': kind}
    ctx.ev()
    try:
        rd = relativedelta(dt1, dt2)
    except Exception as e:
        ctx.violation('constructor-raised', case, '%s: %s' % (type(e).__name__, e))
        return
    fields = {k: getattr(rd, k) for k in mon_rd.REL_FIELDS}
    case['result'] = repr(rd)
    bad = []
    # (1) inverse law through the real operator
    try:
        back = dt2 + rd
    except Exception as e:
        back = e
        bad.append('dt2 + rd raised %r' % (e,))
    else:
        n1 = dt1 if isinstance(dt1, D.datetime) else D.datetime(dt1.year, dt1.month, dt1.day)
        nb = back if isinstance(back, D.datetime) else D.datetime(back.year, back.month, back.day)
        if nb.replace(tzinfo=None) != n1.replace(tzinfo=None):
            bad.append('dt2 + rd = %r != dt1' % (back,))
    # (2) only relative fields
    for k in mon_rd.ABS_FIELDS:
        if getattr(rd, k) is not None:
            bad.append('absolute field %s=%r set' % (k, getattr(rd, k)))
    if rd.weekday is not None or rd.leapdays:
        bad.append('weekday/leapdays set')
    # (3) bounds
    for name, lim in (('months', 12), ('hours', 24), ('minutes', 60), ('seconds', 60), ('microseconds', 10 ** 6)):
        v = fields[name]
        if not (isinstance(v, int) and abs(v) < lim):
            bad.append('%s=%r not normalised' % (name, v))
    # (4) largest whole-month shift, (5) exact remainder
    a = dt1.replace(tzinfo=None) if isinstance(dt1, D.datetime) else dt1
    b = dt2.replace(tzinfo=None) if isinstance(dt2, D.datetime) else dt2
    if isinstance(a, D.datetime) != isinstance(b, D.datetime):
        # mixed operands are compared as datetimes at midnight (documented coercion)
        if not isinstance(a, D.datetime):
            a = D.datetime(a.year, a.month, a.day)
        else:
            b = D.datetime(b.year, b.month, b.day)
    k, rem = rd_ref.diff(a, b)
    if rd.years * 12 + rd.months != k:
        bad.append('months part %d, model %d' % (rd.years * 12 + rd.months, k))
    try:
        got_rem = D.timedelta(days=rd.days, hours=rd.hours, minutes=rd.minutes, seconds=rd.seconds,
                              microseconds=rd.microseconds)
        if got_rem != rem and rd.years * 12 + rd.months == k:
            bad.append('remainder %r, model %r' % (got_rem, rem))
    except Exception as e:
        bad.append('remainder fields unusable: %r' % (e,))
    if dt1 == dt2 and (bool(rd) or any(fields.values())):
        bad.append('relativedelta(dt, dt) is not empty: %r' % (rd,))
    if bad:
        ctx.violation('calendar-difference', case, '; '.join(bad))
    # classification
    est = (a.year - b.year) * 12 + (a.month - b.month)
    flags = []
    if est != k:
        flags.append('overshoot')
    try:
        if rd_ref.shift_clip(b, k).day != b.day:
            flags.append('clip')
    except rd_ref.OutOfRange:
        pass
    if rem.days < 0 and rem.microseconds:
        flags.append('negrem-us')
    if abs(rem) in (D.timedelta(seconds=60), D.timedelta(seconds=3600), D.timedelta(days=1)):
        flags.append('unit-boundary')
    if flags:
        sign = 'fwd' if a > b else ('rev' if a < b else 'eq')
        ycls = 'edge' if min(a.year, b.year) < 5 or max(a.year, b.year) > 9990 else 'mid'
        ctx.distinct('%s|%s|%s|%s|%d' % (sign, kind, ','.join(flags), ycls, min(abs(k), 13)))
        for f in flags:
            ctx.count('flag_' + f)
    ctx.count('kind_' + kind)
    ctx.sample({'dt1': case['dt1'], 'dt2': case['dt2'], 'result': repr(rd)})


def run(ctx):
    from dateutil import relativedelta as mod
    from dateutil import tz
    if not rd_ref.selftest():
        ctx.inconclusive_because('rd_ref self-test failed')
        return
    sink = mon_rd.Sink(ctx)
    sink.ev = lambda n=1: None          # C03's evaluations are not counted as C09 evaluations
    inst = mon_rd.install(sink, check_add=True, check_invariant=True)
    try:
        zs = [tz.UTC, tz.tzoffset('X', -3 * 3600 - 1800)]
        z = tz.gettz('Europe/London')
        if z is not None:
            zs.append(z)
        rng = ctx.rng
        for i in range(N_CASES[ctx.tier]):
            if i % 500 == 0 and not ctx.time_left():
                ctx.count('stopped_by_time_budget')
                break
            a = gen_base(rng)
            b = gen_partner(rng, a)
            x, y, kind = shape(rng, a, b, zs)
            check_pair(ctx, x, y, kind, mod.relativedelta)
            check_pair(ctx, y, x, '-'.join(reversed(kind.split('-'))), mod.relativedelta)
            if rng.random() < .05:
                check_pair(ctx, x, x, kind.split('-')[0] + '-same', mod.relativedelta)
            ctx.count('pairs')
        directed(ctx, mod.relativedelta)
    finally:
        inst.uninstall()
    if ctx.shard == 0:
        concurrent_differences(ctx, mod, 12 if ctx.tier == 'quick' else 200, 4)


def concurrent_differences(ctx, mod, rounds, nthreads):
    """the law is a statement about values: it holds in every thread of a process computing differences at the same time.
    Free-running threads over month-end pairs of *different* months, with the GIL given up at random statement boundaries
    of the module's own code (vf/concurrent.py); the concurrent outcome must be the single-threaded one, and carry dt2 onto dt1."""
    from vf import concurrent as CC
    import dateutil._common as common
    R = mod.relativedelta
    ends = [D.date(y, m, d) for y in (2020, 2021) for m in range(1, 13) for d in (28, calendar.monthrange(y, m)[1])]
    pairs = [(a, b) for a in ends for b in ends if a != b]

    def f(p):
        d = R(p[0], p[1])
        return repr(d), p[1] + d, (p[1] + d) == p[0]
    CC.concurrent_pure(ctx, 'differences', [mod, common], f, pairs, rounds, nthreads)


def relativedelta_rule(month, week, hour=2):
    from dateutil import relativedelta as mod
    return mod.relativedelta(hours=+hour, month=month, day=1, weekday=mod.SU(+week))


def directed(ctx, R):
    # every month-end against every other month-end within two years, both orders (dates)
    ends = [D.date(y, m, calendar.monthrange(y, m)[1]) for y in (1999, 2000) for m in range(1, 13)]
    for a in ends:
        for b in ends:
            check_pair(ctx, a, b, 'date-date', R)
            ctx.count('directed_month_ends')
    # exact N-month distances with identical time, both orders
    base = D.datetime(2003, 3, 15, 10, 20, 30, 400000)
    for k in range(-26, 27):
        other = rd_ref.shift_clip(base, k)
        check_pair(ctx, base, other, 'naive-naive', R)
        check_pair(ctx, other, base, 'naive-naive', R)
        ctx.count('directed_exact_months')
    # remainders around unit boundaries, both signs
    for s in (59, 60, 61, 3599, 3600, 3601, 86399, 86400, 86401):
        for us in (0, 1, 999999):
            for sign in (1, -1):
                other = base + sign * D.timedelta(seconds=s, microseconds=us)
                check_pair(ctx, other, base, 'naive-naive', R)
                check_pair(ctx, base, other, 'naive-naive', R)
                ctx.count('directed_unit_boundaries')
    # aware datetimes of a zone with daylight saving time: the difference is wall-clock arithmetic, also when the
    # month-shifted dt2 is a wall time that the zone skips (or repeats) on that day
    from dateutil import tz
    for z, gap, fold in ((tz.tzstr('EST5EDT,M3.2.0/2,M11.1.0/2'), D.datetime(2021, 3, 14, 2, 30), D.datetime(2021, 11, 7, 1, 30)),
                         (tz.gettz('Europe/London'), D.datetime(2021, 3, 28, 1, 30), D.datetime(2021, 10, 31, 1, 30)),
                         (tz.tzrange('AEST', 36000, 'AEDT', 39600, relativedelta_rule(10, 1), relativedelta_rule(4, 1, 3)), D.datetime(2021, 10, 3, 2, 30), D.datetime(2021, 4, 4, 2, 30))):
        if z is None:
            continue
        for special in (gap, fold):
            for months in (-13, -1, 1, 2, 12):
                dt2 = rd_ref.shift_clip(special, -months).replace(tzinfo=z)
                for rest in (D.timedelta(days=6, hours=9, minutes=30), D.timedelta(hours=-5), D.timedelta(seconds=1), D.timedelta(0)):
                    dt1 = (special + rest).replace(tzinfo=z)
                    check_pair(ctx, dt1, dt2, 'aware-aware', R)
                    check_pair(ctx, dt2, dt1, 'aware-aware', R)
                    ctx.count('directed_dst_zone_pairs')
    # ... inside the repeated hour the two passes are told apart by fold only: the difference of same-zone datetimes is
    # wall-clock arithmetic whatever their instants' order; and aware operands at the ends of the year range
    for z, day in ((tz.tzstr('EST5EDT,M3.2.0/2,M11.1.0/2'), D.datetime(2021, 11, 7)), (tz.gettz('Europe/London'), D.datetime(2021, 10, 31))):
        if z is None:
            continue
        for m1, f1, m2, f2 in ((50, 0, 10, 1), (10, 1, 50, 0), (10, 0, 10, 1), (30, 1, 30, 0)):
            a = day.replace(hour=1, minute=m1, tzinfo=z, fold=f1)
            b = day.replace(hour=1, minute=m2, tzinfo=z, fold=f2)
            for other in (b, rd_ref.shift_clip(b.replace(tzinfo=None), -1).replace(tzinfo=z, fold=f2), rd_ref.shift_clip(b.replace(tzinfo=None), 12).replace(tzinfo=z, fold=f2)):
                check_pair(ctx, a, other, 'aware-aware', R)
                check_pair(ctx, other, a, 'aware-aware', R)
                ctx.count('directed_fold_pairs')
    for off in (5 * 3600, -5 * 3600, 14 * 3600, -12 * 3600):
        z = tz.tzoffset('X', off)
        for edge in (D.datetime(1, 1, 1, 2, 0), D.datetime(9999, 12, 31, 21, 0), D.datetime(1, 1, 1), D.datetime(9999, 12, 31, 23, 59, 59, 999999)):
            a, b = edge.replace(tzinfo=z), D.datetime(2000, 6, 15, 12, tzinfo=z)
            check_pair(ctx, a, b, 'aware-aware', R)
            check_pair(ctx, b, a, 'aware-aware', R)
            ctx.count('directed_aware_range_ends')
    # extremes
    lo, hi = D.datetime(1, 1, 1), D.datetime(9999, 12, 31, 23, 59, 59, 999999)
    for a, b in ((lo, hi), (hi, lo), (lo.date(), hi.date()), (hi.date(), lo), (D.date(1, 1, 31), D.date(9999, 2, 28))):
        check_pair(ctx, a, b, 'extreme', R)
        ctx.count('directed_extremes')


def floors(agg, tier):
    c, out = agg['counters'], []
    need = {'quick': 40000, 'thorough': 400000}[tier]
    if agg['evaluations'] < need:
        out.append('only %d evaluations (< %d)' % (agg['evaluations'], need))
    for f in ('flag_overshoot', 'flag_clip', 'flag_negrem-us', 'flag_unit-boundary'):
        if c.get(f, 0) < 50:
            out.append('%s reached only %d times' % (f, c.get(f, 0)))
    for k in ('kind_date-date', 'kind_naive-naive', 'kind_aware-aware', 'kind_date-datetime', 'kind_datetime-date'):
        if c.get(k, 0) < 100:
            out.append('%s only %d' % (k, c.get(k, 0)))
    if len(agg['distinct']) < 150:
        out.append('only %d distinct non-trivial classes' % len(agg['distinct']))
    if c.get('monitor_internal_error'):
        out.append('monitor internal errors')
    from vf import concurrent as CC
    CC.floor(c, 'differences', 1500, 1000, out)
    if c.get('directed_dst_zone_pairs', 0) < 60:
        out.append('only %d directed pairs in daylight-saving zones' % c.get('directed_dst_zone_pairs', 0))
    return out


def _dt(j, zs):
    if 'date' in j:
        return D.date(*j['date'])
    dt = D.datetime(*j['datetime'])
    if j.get('tz'):
        dt = dt.replace(tzinfo=zs.get(j['tz']))
    return dt


def replay(ctx, case):
    from dateutil import relativedelta as mod
    from dateutil import tz
    zs = {repr(z): z for z in (tz.UTC, tz.tzoffset('X', -3 * 3600 - 1800), tz.gettz('Europe/London'))}
    sink = mon_rd.Sink(ctx)
    inst = mon_rd.install(sink)
    try:
        check_pair(ctx, _dt(case['dt1'], zs), _dt(case['dt2'], zs), case.get('types', '?'), mod.relativedelta)
    finally:
        inst.uninstall()
