"""C16 - relativedelta is a well-behaved value: normalised, comparable, hashable."""
import datetime as D

from vf import mon_rd

PROPERTY = 'C16'
LEVEL = 'exploration'
RULE = ('Seeded relativedeltas: any subset of signed relative fields (small, unit-boundary values 59/60/61, 23/24/25, '
        '11/12/13, 999999/10^6, and large carrying values), float day/hour/minute/second fields, leapdays, absolute '
        'fields, weekday given as int / weekday / weekday(n) with n in {None, 0, 1, -1, 2, -3}.  An invariant hook on '
        'relativedelta.__init__ evaluates the normal form (field bounds, integer years/months, carries preserving '
        'total months and total duration - exact for integers, within 1 us for floats) on EVERY instance constructed '
        'by any code, including the results of +, -, unary -, abs, *, /, normalized().  The workload then checks, per '
        'delta: reconstruction from own fields == self, reflexive/symmetric equality, == vs !=, -(-d) == d, d + (-d) '
        'has no relative part, bool(d) iff a field is set, integer scaling multiplies the totals, normalized() gives '
        'integer fields within 2 us of the total; per pair built equal-by-construction through different spellings '
        '(carried vs uncarried units, weeks vs days, weekday n absent/0/1, int vs weekday object): ==, equal hashes, '
        'set/dict collapse, equal results on a panel of dates; per triple: transitivity; non-integer years/months '
        'must raise ValueError.  Non-trivial = the law instance involves a carry, a float, a weekday, or >= 2 field '
        'kinds; distinct = (law, field-kind set / spelling kind, carry-or-float flag).'
        ' Also: pairs differing in exactly one field (whatever the library calls equal must be interchangeable: same sums, hash, truth value) and assignment through the weeks property after hashing.')
ASSUMPTIONS = ['CPython numerics and datetime', 'equality of deltas is the library\'s own __eq__ (the property is about its '
               'consistency, not about an external notion of equality)']
MANIFEST = {
    'technique': 'invariant hook on relativedelta.__init__ (every constructed instance) + algebraic-law monitor over seeded deltas and equal-by-construction spelling pairs',
    'level_text': 'Runtime invariant checking on the real class: every instance any operation constructs passes through the '
                  'normal-form hook, and the algebraic laws of the property are evaluated on tens of thousands of seeded deltas '
                  'and pairs aimed at carry boundaries, floats and the weekday n=None/0/1 aliasing.  Exploration level.',
    'level_note': 'Trusts CPython arithmetic; float totals are compared with a 1 us tolerance (2 us for normalized(), which '
                  'documents rounding to "roughly" the nearest microsecond).',
}
PLAN = {'quick': {'shards': 2, 'timeout': 1800, 'budget': 900},
        'thorough': {'shards': 16, 'timeout': 7200, 'budget': 2400}}
N_CASES = {'quick': 6000, 'thorough': 60000}

REL = ('years', 'months', 'days', 'hours', 'minutes', 'seconds', 'microseconds')
LIMS = {'years': 30, 'months': 40, 'days': 800, 'hours': 100, 'minutes': 5000, 'seconds': 200000,
        'microseconds': 5 * 10 ** 6}
EDGE = {'months': [11, 12, 13, 23, 24, 25], 'hours': [23, 24, 25, 47, 48], 'minutes': [59, 60, 61, 119, 120],
        'seconds': [59, 60, 61, 3599, 3600, 86399, 86400], 'microseconds': [999999, 10 ** 6, 10 ** 6 + 1, 6 * 10 ** 7],
        'days': [6, 7, 8, 365], 'years': [1, 2]}
PANEL = [D.date(2000, 1, 31), D.date(2001, 2, 28), D.date(2004, 2, 29), D.datetime(2003, 9, 17, 20, 54, 47, 282310),
         D.datetime(1999, 12, 31, 23, 59, 59, 999999), D.date(2023, 3, 1)]


def gen_kw(rng, W, floats=True):
    kw = {}
    p = rng.choice([.15, .3, .5])
    for k in REL:
        if rng.random() < p:
            r = rng.random()
            if r < .4:
                v = rng.choice(EDGE[k]) * rng.choice([1, -1])
            elif r < .8:
                v = rng.randint(-LIMS[k], LIMS[k])
            else:
                v = rng.randint(-3, 3)
            kw[k] = v
    if rng.random() < .15:
        kw['weeks'] = rng.randint(-60, 60)
    if floats and rng.random() < .2:
        k = rng.choice(['days', 'hours', 'minutes', 'seconds'])
        kw[k] = rng.choice([0.5, 1.5, -1.5, 2.25, -0.25, 23.5, 59.5, rng.randint(-1000, 1000) / 8.0,
                            round(rng.uniform(-50, 50), rng.choice([1, 2, 3]))])
    if rng.random() < .12:
        kw['leapdays'] = rng.choice([-1, 1, 2])
    if rng.random() < .1:
        kw['year'] = rng.choice([1, 2000, 9999, rng.randint(1, 9999)])
    if rng.random() < .1:
        kw['month'] = rng.randint(1, 12)
    if rng.random() < .1:
        kw['day'] = rng.choice([1, 28, 29, 30, 31])
    for k, hi in (('hour', 23), ('minute', 59), ('second', 59), ('microsecond', 999999)):
        if rng.random() < .07:
            kw[k] = rng.choice([0, hi, rng.randint(0, hi)])
    if rng.random() < .3:
        kw['weekday'] = gen_weekday(rng, W)
    return kw


def gen_weekday(rng, W):
    w = rng.randrange(7)
    n = rng.choice(['int', None, 0, 1, -1, 2, -3])
    if n == 'int':
        return w
    return W(w) if n is None else W(w, n)


def fields_of(d):
    out = {k: getattr(d, k) for k in mon_rd.REL_FIELDS + mon_rd.ABS_FIELDS}
    out['weekday'] = d.weekday
    return out


def any_field_set(d):
    return bool(any(getattr(d, k) for k in mon_rd.REL_FIELDS) or
                any(getattr(d, k) is not None for k in mon_rd.ABS_FIELDS) or d.weekday is not None)


def months_total(d):
    return d.years * 12 + d.months


def dur_total(d):
    return ((((d.days * 24 + d.hours) * 60 + d.minutes) * 60 + d.seconds) * 10 ** 6 + d.microseconds)


def is_float(kw):
    return any(isinstance(v, float) for v in kw.values())


def carries(kw):
    lim = {'months': 12, 'hours': 24, 'minutes': 60, 'seconds': 60, 'microseconds': 10 ** 6}
    return any(abs(kw.get(k, 0)) >= l for k, l in lim.items())


def try_(f):
    try:
        return ('ok', f())
    except Exception as e:
        return ('exc', e)


def add_outcome(dt, d):
    try:
        return ('ok', dt + d)
    except (ValueError, OverflowError) as e:
        return ('err', type(e).__name__)


_SUB = {}


def SubDelta(R):
    if R not in _SUB:
        _SUB[R] = type('MyDelta', (R,), {})
    return _SUB[R]


class Laws(object):
    def __init__(self, ctx, R, W):
        self.ctx, self.R, self.W = ctx, R, W

    def law(self, name, ok, case, detail, key):
        self.ctx.ev()
        self.ctx.count('law_' + name)
        if key is not None:
            self.ctx.distinct('%s|%s' % (name, key))
        if not ok:
            self.ctx.violation('law-' + name, case, detail)

    def unary(self, kw):
        R = self.R
        case = {'kw': mon_rd.kw_json(kw)}
        r = try_(lambda: R(**kw))
        if r[0] == 'exc':
            self.ctx.violation('constructor-raised', case, repr(r[1]))
            return None
        d = r[1]
        flt, car = is_float(kw), carries(kw)
        nt = flt or car or 'weekday' in kw or len(kw) >= 2
        key = (','.join(sorted(kw)) + ('|f' if flt else '') + ('|c' if car else '')) if nt else None
        # reconstruction from own fields
        rr = try_(lambda: R(**fields_of(d)))
        self.law('reconstruct', rr[0] == 'ok' and rr[1] == d and d == rr[1] and hash(rr[1]) == hash(d), case,
                 'R(**fields(d)) = %r, d = %r' % (rr[1], d), key)
        # equality basics
        self.law('reflexive', d == d and not (d != d), case, repr(d), key)
        other = R(**kw)
        self.law('fresh-equal', other == d and d == other and hash(other) == hash(d) and not (other != d), case,
                 'two constructions from the same arguments differ: %r %r' % (d, other), key)
        # negation
        nn = try_(lambda: -(-d))
        self.law('double-negation', nn[0] == 'ok' and nn[1] == d, case, '-(-d) = %r, d = %r' % (nn[1], d), key)
        z = try_(lambda: d + (-d))
        ok = z[0] == 'ok' and all(abs(getattr(z[1], k)) < 1e-9 for k in REL)
        self.law('add-negation-cancels', ok, case, 'd + (-d) = %r' % (z[1],), key)
        # truthiness
        self.law('bool', bool(d) == any_field_set(d), case, 'bool=%r fields=%r' % (bool(d), fields_of(d)), key)
        # abs
        a = try_(lambda: abs(d))
        self.law('abs', a[0] == 'ok' and all(getattr(a[1], k) >= 0 for k in REL), case, 'abs(d) = %r' % (a[1],), key)
        # integer scaling multiplies the totals (integer deltas only)
        if not flt:
            k = self.ctx.rng.choice([-3, -1, 0, 1, 2, 7, 12, 60])
            m = try_(lambda: d * k)
            ok = (m[0] == 'ok' and months_total(m[1]) == k * months_total(d) and dur_total(m[1]) == k * dur_total(d)
                  and m[1] == try_(lambda: k * d)[1])
            self.law('int-scaling', ok, dict(case, scalar=k), 'd*%d = %r' % (k, m[1]), key)
        # float scaling / division only need to produce normal-form values (checked by the __init__ hook)
        s = self.ctx.rng.choice([0.5, 1.5, -2.5, 0.1, 3])
        m = try_(lambda: d * s)
        q = try_(lambda: d / s)
        self.law('scaling-total-function', m[0] == 'ok' and q[0] == 'ok', dict(case, scalar=s),
                 'd*s -> %r ; d/s -> %r' % (m[1], q[1]), None)
        # normalized(): integer relative fields, total preserved up to rounding
        n = try_(lambda: d.normalized())
        if n[0] != 'ok':
            self.law('normalized', False, case, 'normalized() raised %r' % (n[1],), key)
        else:
            nd = n[1]
            ints = all(isinstance(getattr(nd, k), int) for k in REL)
            close = abs(dur_total(nd) - dur_total(d)) <= (2 if flt else 0) and months_total(nd) == months_total(d)
            same_abs = all(getattr(nd, k) == getattr(d, k) for k in mon_rd.ABS_FIELDS + ('leapdays',)) and nd.weekday == d.weekday
            self.law('normalized', ints and close and same_abs, case, 'normalized() = %r of %r' % (nd, d), key)
        # an instance of a subclass with the same fields (the operators return self.__class__, so subclasses are part of
        # the design): where the library calls the two equal, they hash equal and collapse in sets / dicts, and sums of
        # mixed classes are equal whichever operand comes first
        sub = try_(lambda: SubDelta(R)(**kw))
        if sub[0] == 'ok':
            sd = sub[1]
            eq = (sd == d) and (d == sd)
            ok = (not eq) or (hash(sd) == hash(d) and len({sd, d}) == 1 and {d: 1}.get(sd) == 1)
            m1, m2 = try_(lambda: sd + d), try_(lambda: d + sd)
            if ok and eq and m1[0] == 'ok' and m2[0] == 'ok' and m1[1] == m2[1]:
                ok = hash(m1[1]) == hash(m2[1])
            self.law('subclass-equal-hash-equal', ok and eq, case, 'subclass instance %r vs %r: == %r, hashes %r / %r' % (sd, d, eq, hash(sd), hash(d)), key)
        # a delta is a value: being added to dates (either operand order, leap years included) leaves it as it was, and a
        # used delta keeps giving the sums of a freshly built equal one
        before = (fields_of(d), hash(d), repr(d))
        first = [add_outcome(dt, d) for dt in PANEL] + [try_(lambda dt=dt: d + dt)[0] for dt in PANEL[:4]]
        after = (fields_of(d), hash(d), repr(d))
        fresh = R(**kw)
        again = [(add_outcome(dt, d), add_outcome(dt, fresh)) for dt in PANEL]
        ok = before == after and d == fresh and all(x[0] == y[0] and (x[0] != 'ok' or mon_rd.same_value(x[1], y[1])) for x, y in again)
        self.law('use-leaves-value-unchanged', ok, case, 'before use %r, after %r; used vs fresh sums %r' % (
            before[2], after[2], [r for r in again if r[0] != r[1]][:2]), key)
        self.ctx.sample({'kw': case['kw'], 'repr': repr(d), 'hash': hash(d)})
        return d

    def equal_pair(self, kind, kw1, kw2):
        R = self.R
        case = {'kind': kind, 'kw1': mon_rd.kw_json(kw1), 'kw2': mon_rd.kw_json(kw2)}
        a, b = try_(lambda: R(**kw1)), try_(lambda: R(**kw2))
        if a[0] == 'exc' or b[0] == 'exc':
            self.ctx.violation('constructor-raised', case, '%r %r' % (a[1], b[1]))
            return
        a, b = a[1], b[1]
        self.law('spelling-eq', a == b and b == a and not (a != b), case, '%r vs %r' % (a, b), kind)
        self.law('spelling-hash', hash(a) == hash(b), case, 'hash %r vs %r for %r / %r' % (hash(a), hash(b), a, b), kind)
        self.law('spelling-set', len({a, b}) == 1 and {a: 1}.get(b) == 1, case, 'set/dict does not collapse %r / %r' % (a, b), kind)
        res = [(add_outcome(dt, a), add_outcome(dt, b)) for dt in PANEL]
        ok = all(x[0] == y[0] and (x[0] != 'ok' or mon_rd.same_value(x[1], y[1])) for x, y in res)
        self.law('spelling-same-sums', ok, case, 'sums differ: %r' % ([r for r in res if r[0] != r[1]][:2],), kind)
        # operations preserve the equality
        self.law('spelling-ops', (-a) == (-b) and abs(a) == abs(b) and a * 3 == b * 3 and (a + a) == (b + b)
                 and hash(-a) == hash(-b), case, 'derived values differ for %r / %r' % (a, b), kind)

    def near_pair(self, kw, rng):
        """a delta and a copy that differs in exactly one field: if the library calls them equal, they must be
        interchangeable (same sums on the panel, same hash, same truth value)"""
        R, W = self.R, self.W
        base = dict(kw)
        field = rng.choice(mon_rd.REL_FIELDS + mon_rd.ABS_FIELDS + ('weekday', 'leapdays', 'resplit', 'resplit'))
        other = dict(base)
        if field == 'resplit':
            # the same total of months split differently between years and months (mixed signs are legal normal forms)
            y, m = base.get('years', 0), base.get('months', 0)
            if isinstance(y, float) or isinstance(m, float):
                return
            s_ = rng.choice([1, -1])
            if abs(m - 12 * s_) >= 12:
                m = rng.choice([1, 5, 11]) * s_
                base['months'] = m
            other = dict(base, years=y + s_, months=m - 12 * s_)
            field = 'years'
        alt = {'year': [1999, 2024], 'month': [2, 11], 'day': [1, 28], 'hour': [0, 13], 'minute': [0, 59], 'second': [11, 12],
               'microsecond': [0, 999999], 'weekday': [W(0), W(3, 2), W(6, -1)], 'leapdays': [0, 1, -1]}
        if 'months' in other and other is not base and other.get('months') != base.get('months'):
            pass
        elif field in alt:
            cands = [v for v in alt[field] if v != base.get(field)]
            other[field] = rng.choice(cands)
            if field in base and rng.random() < .3:
                other.pop(field)
                if field not in base:
                    return
        else:
            cur = base.get(field, 0)
            if isinstance(cur, float):
                return
            other[field] = cur + rng.choice([1, -1, 2])
        a, b = try_(lambda: R(**base)), try_(lambda: R(**other))
        if a[0] == 'exc' or b[0] == 'exc':
            return
        a, b = a[1], b[1]
        case = {'kind': 'one-field-' + field, 'kw1': mon_rd.kw_json(base), 'kw2': mon_rd.kw_json(other)}
        eq = (a == b)
        self.ctx.count('near_pairs_equal' if eq else 'near_pairs_unequal')
        self.law('near-symmetric', eq == (b == a) and eq == (not (a != b)), case, '%r vs %r' % (a, b), field)
        if eq:
            res = [(add_outcome(dt, a), add_outcome(dt, b)) for dt in PANEL]
            ok = all(x[0] == y[0] and (x[0] != 'ok' or mon_rd.same_value(x[1], y[1])) for x, y in res)
            self.law('equal-means-interchangeable', ok and hash(a) == hash(b) and bool(a) == bool(b), case,
                     '%r == %r although they differ in %s and %s' % (a, b, field,
                                                                     'give different sums' if not ok else 'hash / truth value differ'), field)

    def mutated(self, kw, rng):
        """the weeks property writes through to days: equality / hash must follow the new value"""
        R = self.R
        if is_float(kw):
            return
        d = R(**kw)
        h0 = hash(d)
        w = rng.randint(-3, 3)
        d.weeks = w
        rebuilt = try_(lambda: R(**fields_of(d)))
        case = {'kind': 'weeks-assigned', 'kw1': mon_rd.kw_json(kw), 'weeks': w}
        if rebuilt[0] == 'exc':
            return
        r = rebuilt[1]
        # values derived from a delta are objects of their own: editing one (through the only public setter) leaves the
        # source as it was - also when the operation had nothing to change (normalized() of an integer delta, abs() of a
        # positive one, * 1, + an empty delta)
        src = R(**kw)
        before = (fields_of(src), hash(src), repr(src))
        for name, derive in (('normalized', lambda x: x.normalized()), ('abs', abs), ('mul-1', lambda x: x * 1), ('add-empty', lambda x: x + R()),
                             ('neg-neg', lambda x: -(-x)), ('div-1', lambda x: x / 1)):
            dv = try_(lambda: derive(src))
            if dv[0] != 'ok':
                continue
            dv[1].weeks = dv[1].weeks + rng.choice([1, -2, 5])
            after = (fields_of(src), hash(src), repr(src))
            self.law('derived-value-independent', after == before and src == R(**kw), dict(case, derived_by=name),
                     'after editing the result of %s: source %s, was %s' % (name, after[2], before[2]), 'derived-' + name)
            if after != before:
                break
        self.law('weeks-setter-consistent', (d == r) and hash(d) == hash(r) and len({d, r}) == 1, case,
                 'after d.weeks = %d: d = %r (hash %r), rebuilt from its fields %r (hash %r), hash before %r' % (w, d, hash(d), r, hash(r), h0), 'weeks')

    def float_scaling(self):
        """scaling a float field by a number that makes it whole gives exactly that whole value (every relative field is
        scaled as a number, none is truncated first); the same through k * d and d / (1 / k)"""
        R = self.R
        for field in ('days', 'hours', 'minutes', 'seconds'):
            for v in (0.5, 1.5, -2.5, 11.5, 0.25):
                for k in (2, 4, -2, 8):
                    if (v * k) != int(v * k):
                        continue
                    case = {'kw': {field: v}, 'scalar': k}
                    want = R(**{field: int(v * k)})
                    got = [try_(lambda: R(**{field: v}) * k), try_(lambda: k * R(**{field: v})), try_(lambda: R(**{field: v}) / (1.0 / k)),
                           try_(lambda: R(days=2, **({field: v} if field != 'days' else {'hours': 3})) * k if field != 'days' else R(**{field: v}) * k)]
                    ok = all(g[0] == 'ok' for g in got) and got[0][1] == want and got[1][1] == want and got[2][1] == want
                    if ok and field != 'days':
                        ok = got[3][1] == R(days=2 * k, **{field: int(v * k)})
                    self.law('float-scaling-exact', ok, case, 'd*k, k*d, d/(1/k), (d with days=2)*k = %r, expected %r' % ([g[1] for g in got], want), field)

    def triple(self, kws):
        R = self.R
        x, y, z = [R(**k) for k in kws]
        case = {'kws': [mon_rd.kw_json(k) for k in kws]}
        if x == y and y == z:
            self.law('transitive', x == z and hash(x) == hash(z), case, '%r %r %r' % (x, y, z), 'triple')


def spellings(rng, W):
    """-> (kind, [kw, kw, kw]) equal by construction."""
    r = rng.randrange(8)
    s = rng.choice([1, -1])
    if r == 0:
        w = rng.randrange(7)
        extra = {'days': rng.randint(-3, 3)} if rng.random() < .5 else {}
        forms = [w, W(w), W(w, None), W(w, 0), W(w, 1), W(w)(1), W(w, 2)(None)]
        rng.shuffle(forms)
        return 'weekday-n-alias', [dict(extra, weekday=f) for f in forms[:3]]
    if r == 1:
        h = rng.randint(24, 200)
        return 'hours-carry', [{'hours': s * h}, {'days': s * (h // 24), 'hours': s * (h % 24)},
                               {'minutes': s * h * 60}]
    if r == 2:
        m = rng.randint(12, 100)
        return 'months-carry', [{'months': s * m}, {'years': s * (m // 12), 'months': s * (m % 12)},
                                {'years': s * (m // 12 - 1), 'months': s * (m % 12 + 12)}]
    if r == 3:
        w = rng.randint(1, 60)
        d = rng.randint(0, 6)
        return 'weeks-days', [{'weeks': s * w, 'days': s * d}, {'days': s * (7 * w + d)},
                              {'weeks': s * (w - 1), 'days': s * (d + 7)}]
    if r == 4:
        us = rng.randint(10 ** 6, 10 ** 8)
        return 'microseconds-carry', [{'microseconds': s * us}, {'seconds': s * (us // 10 ** 6), 'microseconds': s * (us % 10 ** 6)},
                                      {'seconds': s * (us // 10 ** 6 - 1), 'microseconds': s * (us % 10 ** 6 + 10 ** 6)}]
    if r == 5:
        sec = rng.randint(60, 200000)
        return 'seconds-carry', [{'seconds': s * sec}, {'minutes': s * (sec // 60), 'seconds': s * (sec % 60)},
                                 {'hours': s * (sec // 3600), 'seconds': s * (sec % 3600)}]
    if r == 6:
        w = rng.randrange(7)
        n = rng.choice([2, -1, -2, 3])
        return 'weekday-same-n', [{'weekday': W(w, n)}, {'weekday': W(w)(n)}, {'weekday': W(w, 1)(n), 'days': 0}]
    x = rng.randint(1, 30)
    return 'int-vs-integral-float', [{'years': x, 'months': x}, {'years': float(x), 'months': float(x)},
                                     {'years': x, 'months': x, 'days': 0}]


def run(ctx):
    _repo_tests(ctx)
    from dateutil import relativedelta as mod
    R, W = mod.relativedelta, mod.weekday
    sink = mon_rd.Sink(ctx)
    sink.ev = lambda n=1: None
    inst = mon_rd.install(sink, check_add=False, check_invariant=True)
    laws = Laws(ctx, R, W)
    if ctx.shard == 0:
        laws.float_scaling()
    try:
        rng = ctx.rng
        for i in range(N_CASES[ctx.tier]):
            if i % 200 == 0 and not ctx.time_left():
                ctx.count('stopped_by_time_budget')
                break
            laws.unary(gen_kw(rng, W))
            kind, kws = spellings(rng, W)
            laws.equal_pair(kind, kws[0], kws[1])
            laws.equal_pair(kind, kws[1], kws[2])
            laws.triple(kws)
            laws.near_pair(gen_kw(rng, W, floats=False), rng)
            laws.near_pair(gen_kw(rng, W, floats=False), rng)
            laws.mutated(gen_kw(rng, W, floats=False), rng)
            ctx.count('rounds')
        # binary operations between unrelated deltas: results must be in normal form (hook) and consistent
        for i in range(N_CASES[ctx.tier] // 4):
            a, b = R(**gen_kw(rng, W, floats=False)), R(**gen_kw(rng, W, floats=False))
            s1, s2 = try_(lambda: a + b), try_(lambda: a - b)
            case = {'a': repr(a), 'b': repr(b)}
            ok = (s1[0] == 'ok' and s2[0] == 'ok' and
                  months_total(s1[1]) == months_total(a) + months_total(b) and dur_total(s1[1]) == dur_total(a) + dur_total(b) and
                  months_total(s2[1]) == months_total(a) - months_total(b) and dur_total(s2[1]) == dur_total(a) - dur_total(b))
            laws.law('binary-totals', ok, case, 'a+b=%r a-b=%r' % (s1[1], s2[1]), 'binary')
            td = D.timedelta(days=rng.randint(-5, 5), seconds=rng.randint(0, 86399), microseconds=rng.randint(0, 999999))
            s3 = try_(lambda: a + td)
            ok = s3[0] == 'ok' and dur_total(s3[1]) == dur_total(a) + (td.days * 86400 + td.seconds) * 10 ** 6 + td.microseconds
            laws.law('timedelta-add', ok, dict(case, td=repr(td)), 'a+td=%r' % (s3[1],), 'timedelta')
        # non-integer years / months must be rejected
        for kw in ({'years': 1.5}, {'months': 0.5}, {'years': -0.25, 'days': 1}, {'months': 2.75}, {'years': 1, 'months': 1.1},
                   {'years': 1e-9}):
            ctx.ev()
            ctx.count('law_non-integer-rejected')
            ctx.distinct('non-integer|%s' % ','.join(sorted(kw)))
            r = try_(lambda: R(**kw))
            if not (r[0] == 'exc' and isinstance(r[1], ValueError)):
                ctx.violation('law-non-integer-rejected', {'kw': kw}, 'got %r' % (r[1],))
        # ... whatever the numeric type
        import decimal
        import fractions
        for kw in ({'months': fractions.Fraction(3, 2)}, {'years': fractions.Fraction(-7, 4)}, {'years': decimal.Decimal('1.75')},
                   {'months': decimal.Decimal('0.5'), 'days': 2}, {'years': fractions.Fraction(1, 3), 'months': 1}):
            ctx.ev()
            ctx.count('law_non-integer-rejected')
            ctx.distinct('non-integer|%s|%s' % (','.join(sorted(kw)), type(list(kw.values())[0]).__name__))
            r = try_(lambda: R(**kw))
            if not (r[0] == 'exc' and isinstance(r[1], ValueError)):
                ctx.violation('law-non-integer-rejected', {'kw': {k: repr(v) for k, v in kw.items()}}, 'got %r' % (r[1],))
        for kw in ({'years': fractions.Fraction(4, 2)}, {'months': decimal.Decimal('3')}):
            r = try_(lambda: R(**kw))
            if r[0] != 'ok' or (r[1].years, r[1].months) not in ((2, 0), (0, 3)):
                ctx.violation('law-integral-value-accepted', {'kw': {k: repr(v) for k, v in kw.items()}}, 'got %r' % (r[1],))
        for kw in ({'years': 2.0}, {'months': -3.0}):
            r = try_(lambda: R(**kw))
            if r[0] != 'ok' or not isinstance(r[1].years, int) or not isinstance(r[1].months, int):
                ctx.violation('law-integral-float-accepted', {'kw': kw}, 'got %r' % (r[1],))
        ctx.note('invariant_hook', 'evaluated on every relativedelta constructed in this process (see counters.invariant_evaluations)')
    finally:
        inst.uninstall()


def _repo_tests(ctx):
    # thorough tier: the repository's own tests as one more workload under the same monitors
    if ctx.tier == 'thorough' and ctx.shard == 0:
        from vf import repo_tests
        repo_tests.run_under_monitors(ctx, ['rd'], 'C16')


def floors(agg, tier):
    c, out = agg['counters'], []
    need = {'quick': 100000, 'thorough': 1000000}[tier]
    if agg['evaluations'] < need:
        out.append('only %d law evaluations (< %d)' % (agg['evaluations'], need))
    if c.get('invariant_evaluations', 0) < need:
        out.append('invariant hook evaluated only %d times' % c.get('invariant_evaluations', 0))
    for law in ('reconstruct', 'double-negation', 'add-negation-cancels', 'bool', 'int-scaling', 'normalized', 'spelling-eq',
                'spelling-hash', 'spelling-same-sums', 'transitive', 'binary-totals', 'non-integer-rejected'):
        if c.get('law_' + law, 0) < 6:
            out.append('law %s evaluated only %d times' % (law, c.get('law_' + law, 0)))
    if len(agg['distinct']) < 300:
        out.append('only %d distinct non-trivial classes' % len(agg['distinct']))
    if c.get('monitor_internal_error'):
        out.append('monitor internal errors')
    return out


def _kw(j, W):
    kw = dict(j)
    if isinstance(kw.get('weekday'), list):
        kw['weekday'] = W(*kw['weekday'])
    return kw


def replay(ctx, case):
    from dateutil import relativedelta as mod
    R, W = mod.relativedelta, mod.weekday
    sink = mon_rd.Sink(ctx)
    inst = mon_rd.install(sink, check_add=False, check_invariant=True)
    laws = Laws(ctx, R, W)
    try:
        if 'kw1' in case:
            laws.equal_pair(case.get('kind', '?'), _kw(case['kw1'], W), _kw(case['kw2'], W))
        elif 'kws' in case:
            laws.triple([_kw(k, W) for k in case['kws']])
        elif 'kw' in case:
            laws.unary(_kw(case['kw'], W))
    finally:
        inst.uninstall()
