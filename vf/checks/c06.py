"""C06 - tzfile reports exactly what the TZif data says at every instant."""
import copy
import datetime as D
import io
import os
import pickle
import tarfile
import tempfile

from vf import tzzoo
from vf.oracles import tzif_ref

PROPERTY = 'C06'
LEVEL = 'exploration'
RULE = ('Zones: every distinct TZif file of the system database (quick: a stratified sample that contains every file showing a rare '
        'transition shape - fold into a DST-flagged type, DST-to-DST, same-offset type change, first-transition fold, >= 24 h jump, '
        'sub-minute change, 30-minute / 2-hour saving, transitions < 3 days apart - the shapes are found by scanning the data) plus '
        'synthetic files from an independent TZif writer (no transitions, one type, negative DST, double summer time, same-offset '
        'changes, first-transition fold / gap, date-line moves, indicators, leap records, shared abbreviation suffixes, DST type '
        'first, and - here only - offset changes larger than the transition spacing).  For every transition i of the version-1 '
        'block and offsets {-7200, -3600, -1800, -1, 0, 1, 59, 1799, 3599, 3600, 3601, 7199, 7200, 10800} s (clipped to the '
        'neighbouring transitions), plus instants before the first transition and random interior instants, the UTC instant is '
        'converted with astimezone(); the wall reading minus UTC, utcoffset(), tzname() and dst() of the result are compared '
        'with the type the independent reader tzif_ref assigns to the interval containing the instant (dst() must be zero where '
        'the data says standard).  Load paths gettz(name), tzfile(path), tzfile(stream), ZoneInfoFile(tar built by the harness '
        'with regular, hard-link and symlink members), copy, deepcopy and pickle (all protocols) must be equal and answer '
        'identically.  Non-trivial = instant within 3 h of a transition; distinct = (file hash, transition index, offset).'
        ' Also: fractions of a second on both sides of every transition (>= 500 before 1970), data with 200 types and abbreviation tables beyond 127 bytes, and the wall-side reading of single-pre-image wall times under both fold values.')
ASSUMPTIONS = ['vf/oracles/tzif_ref.py is the reading of the TZif bytes (cross-checked against stdlib zoneinfo each run)',
               'only the version-1 block is claimed (the block dateutil reads); after its last transition nothing is claimed',
               '/usr/share/zoneinfo is used as data only']
MANIFEST = {
    'technique': 'runtime differential monitor: real tzfile (all load paths) vs an independent TZif interval reader, probing every transition boundary of real and synthetic files',
    'level_text': 'Every recorded transition of every sampled/real file and of synthetic shapes absent from real data is probed at '
                  'second resolution around the boundary; truth is what the bytes say, computed by an independent reader.  '
                  'Thorough tier sweeps the whole database.  Exploration: held on the instants observed.',
    'level_note': 'Trusts tzif_ref (checked against stdlib zoneinfo in the same run) and CPython datetime.',
}
PLAN = {'quick': {'shards': 4, 'timeout': 1800, 'budget': 900},
        'thorough': {'shards': 16, 'timeout': 7200, 'budget': 2400}}
EPOCH = D.datetime(1970, 1, 1)
OFFSETS = (-7200, -3600, -1800, -1, 0, 1, 59, 1799, 3599, 3600, 3601, 7199, 7200, 10800)


def probe_instants(rz, rng, extra_random=3):
    tr = rz.trans
    out = []
    for i, t in enumerate(tr):
        lo = tr[i - 1] if i > 0 else None
        hi = tr[i + 1] if i + 1 < len(tr) else None
        for off in OFFSETS:
            ts = t + off
            if hi is None and off >= 0:
                continue                      # at / after the last transition nothing is claimed
            if lo is not None and ts < lo:
                continue
            if hi is not None and ts >= hi:
                continue
            out.append((i, off, ts))
        if hi is not None and hi - t > 7200:
            for _ in range(extra_random):
                out.append((i, 'r', rng.randrange(t, hi)))
    if tr:
        for off in (-86400 * 400, -86400, -3600):
            out.append((-1, off, tr[0] + off))
    else:
        for ts in (tzzoo.ts(1950), tzzoo.ts(2000), tzzoo.ts(2030)):
            out.append((-1, 'none', ts))
    return [(i, off, ts) for (i, off, ts) in out if -62135596800 + 200000 < ts < 253402300799 - 200000]


def wall_positions_unsorted(rz):
    """are the wall-clock positions of the transitions (instant + smaller of the two offsets around it) out of order?"""
    pos = []
    for i, t in enumerate(rz.trans):
        pos.append(t + min(rz.type_at(t - 1)[0], rz.type_at(t)[0]))
    return any(a > b for a, b in zip(pos, pos[1:]))


def check_zone(ctx, tz, label, z, rz, rng, fhash, full=True):
    UTC = tz.UTC
    n_bad = 0
    if not rz.trans and len(rz.types) > 1:
        # no transition recorded: the property claims nothing about which of several types applies
        ctx.count('zones_without_transitions_and_several_types')
        return 0
    wild = label.startswith('synthetic:wild')
    for i, off, ts in probe_instants(rz, rng):
        # fractions of a second next to a transition (the interval containing ts + us is that of ts)
        us = rng.choice([0, 1, 250000, 750000, 999999]) if off in (-1, 0, 1, 59, -1800) else 0
        if us:
            ctx.count('subsecond_probes' + ('_pre1970' if ts < 0 else ''))
        u = (EPOCH + D.timedelta(seconds=ts, microseconds=us)).replace(tzinfo=UTC)
        exp = rz.type_at(ts)
        ctx.ev()
        try:
            loc = u.astimezone(z)
            wall = loc.replace(tzinfo=None)
            got_off = loc.utcoffset()
            got = (int((wall - u.replace(tzinfo=None)).total_seconds()), int(got_off.total_seconds()), loc.tzname(), loc.dst())
        except Exception as e:
            ctx.violation('conversion-raised', {'zone': label, 'utc': ts, 'transition': i, 'offset': off}, '%s: %s' % (type(e).__name__, e))
            continue
        bad = []
        if got[0] != exp[0]:
            bad.append('fromutc moved the clock by %d s, the data says %d s' % (got[0], exp[0]))
        wall_side = []
        if got[1] != exp[0]:
            wall_side.append('utcoffset() of the converted datetime is %d s, the data says %d s' % (got[1], exp[0]))
        if got[2] != exp[2]:
            wall_side.append('tzname() %r, the data says %r' % (got[2], exp[2]))
        if not exp[1] and got[3] != D.timedelta(0):
            wall_side.append('dst() is %r at a standard-time instant' % (got[3],))
        if wild and wall_side and not bad:
            # offset changes larger than the transition spacing: utcoffset()/tzname() are read from wall time + fold, which
            # can tell two instants apart - a wall time with more than two pre-images is a don't-care; with at most two
            # the reading is expressible, and a wrong one is the open finding K7 (wall-clock transition list not ascending)
            if len(rz.preimages(ts + exp[0])) > 2:
                ctx.count('wild_more_than_two_preimages')
            elif wall_positions_unsorted(rz):
                ctx.known_finding('K7', '%s utc %d: %s' % (label, ts, '; '.join(wall_side)), {'zone': label, 'utc': ts})
            else:
                bad += wall_side
        elif not wild:
            bad += wall_side
        if not wild and not bad and ts + 200000 < (rz.trans[-1] if rz.trans else 0):
            # the same reading from the wall side: a wall time with exactly one pre-image in the data carries the type of
            # that instant whatever its fold bit says
            w = ts + exp[0]
            if len(rz.preimages(w)) == 1:
                ctx.count('single_preimage_wall_checks')
                for f in (0, 1):
                    ww = wall.replace(tzinfo=z, fold=f)
                    if ww.utcoffset() != D.timedelta(seconds=exp[0]) or ww.tzname() != exp[2]:
                        bad.append('wall time %s fold=%d reports %s %r, its only instant has %d s %r' % (wall.isoformat(), f, ww.utcoffset(), ww.tzname(), exp[0], exp[2]))
        if bad:
            n_bad += 1
            if n_bad <= 3:
                ctx.violation('tzif-mismatch', {'zone': label, 'utc': ts, 'us': us, 'utc_iso': u.replace(tzinfo=None).isoformat(), 'transition': i,
                                                'offset': off, 'expected_type': list(exp)}, '; '.join(bad))
        if i >= 0 and (off == 'r' or abs(off) <= 10800):
            ctx.distinct('%s|%d|%s' % (fhash, i, off))
    ctx.count('zones_checked')
    ctx.count('transitions_probed', len(rz.trans))
    return n_bad


def behaviour(tz, z, rz, rng, k=12):
    """a fingerprint of a zone's answers at a few instants (used to compare load paths)"""
    out = []
    pts = probe_instants(rz, rng)
    for i, off, ts in (pts if len(pts) <= k else rng.sample(pts, k)):
        u = (EPOCH + D.timedelta(seconds=ts)).replace(tzinfo=tz.UTC)
        loc = u.astimezone(z)
        out.append((ts, loc.replace(tzinfo=None), loc.utcoffset(), loc.tzname(), loc.dst(), loc.fold))
    return out


class ForwardOnly(object):
    """a readable stream without seek()/tell(); optionally hands out fewer bytes than asked for, never more"""

    def __init__(self, data, chunk=None):
        self._b, self._chunk = io.BytesIO(data), chunk
        self.name = 'forward-only'

    def read(self, n=-1):
        return self._b.read(n)

    def __repr__(self):
        return '<forward-only stream>'


def check_load_paths(ctx, tz, name, path, data, rz, rng):
    from dateutil.zoneinfo import ZoneInfoFile
    import random
    zs = {}
    zs['path'] = tz.tzfile(path)
    zs['stream'] = tz.tzfile(io.BytesIO(data))
    with open(path, 'rb') as f:
        zs['open-file'] = tz.tzfile(f)

    def attempt(key, make):
        # a load path that raises is an observation about the library, not about the harness
        try:
            zs[key] = make()
        except Exception as e:
            ctx.ev()
            ctx.violation('load-path-raised', {'zone': name, 'load_path': key}, '%s: %s' % (type(e).__name__, e))
    # an open stream that can only be read forward (pipe, socket, HTTP body): read() is all a TZif reader needs
    attempt('forward-only-stream', lambda: tz.tzfile(ForwardOnly(data)))
    attempt('forward-only-stream-small-reads', lambda: tz.tzfile(ForwardOnly(data, chunk=7)))
    g = tz.gettz(name)
    if g is not None and isinstance(g, tz.tzfile):
        zs['gettz'] = g
    elif os.path.exists(os.path.join('/usr/share/zoneinfo', name)) and not name.startswith('/'):
        # a name of the database loads the file of that name, whatever the name is ('UTC' and 'GMT' included)
        ctx.ev()
        ctx.violation('load-path-by-name', {'zone': name, 'load_path': 'gettz'}, 'gettz(%r) returned %r, not the tzfile of that name' % (name, g))
    g = tz.gettz(path)
    if g is not None:
        zs['gettz-abspath'] = g
    base = zs['path']
    for proto in range(pickle.HIGHEST_PROTOCOL + 1):
        attempt('pickle-%d' % proto, lambda: pickle.loads(pickle.dumps(base, proto)))
        attempt('pickle-%d-of-aware-datetime' % proto, lambda: pickle.loads(pickle.dumps(D.datetime(2020, 6, 1, 12, tzinfo=base), proto)).tzinfo)
    attempt('copy', lambda: copy.copy(base))
    attempt('deepcopy', lambda: copy.deepcopy(base))
    seed = rng.random()
    ref = behaviour(tz, base, rz, random.Random(seed))
    for k, z in zs.items():
        ctx.ev()
        ctx.count('loadpath_' + k.split('-')[0])
        case = {'zone': name, 'load_path': k}
        if not (z == base and base == z and not (z != base)):
            ctx.violation('load-paths-unequal', case, '%r != %r' % (z, base))
        elif behaviour(tz, z, rz, random.Random(seed)) != ref:
            ctx.violation('load-paths-behave-differently', case, 'answers differ from tzfile(path)')
        ctx.distinct('loadpath|%s|%s' % (name, k))


def check_archive(ctx, tz, members, rng, metadata='last', links_first=False):
    """ZoneInfoFile over a tar archive built by the harness, including link entries"""
    from dateutil.zoneinfo import ZoneInfoFile
    import random
    buf = io.BytesIO()
    meta = b'{"tzversion": "test"}'
    mti = tarfile.TarInfo('METADATA')
    mti.size = len(meta)
    ctx.count('archives_metadata_' + metadata)
    with tarfile.open(fileobj=buf, mode='w:gz') as tf:
        if metadata == 'first':
            tf.addfile(mti, io.BytesIO(meta))

        def add_members():
            for name, path, data, rz in members:
                ti = tarfile.TarInfo(name)
                ti.size = len(data)
                tf.addfile(ti, io.BytesIO(data))

        def add_links():
            # (a link entry may precede its target in the archive: an alphabetically written tree)
            hl = tarfile.TarInfo('Link/Hard')
            hl.type = tarfile.LNKTYPE
            hl.linkname = members[0][0]
            tf.addfile(hl)
            sl = tarfile.TarInfo('Link/Sym')
            sl.type = tarfile.SYMTYPE
            sl.linkname = members[-1][0]
            tf.addfile(sl)
        if links_first:
            ctx.count('archives_links_first')
            add_links()
            add_members()
        else:
            add_members()
            add_links()
        if metadata == 'last':
            tf.addfile(mti, io.BytesIO(meta))
    buf.seek(0)
    try:
        zf = ZoneInfoFile(buf)
    except Exception as e:
        ctx.violation('archive-rejected', {'load_path': 'archive', 'metadata_member': metadata, 'links_first': links_first},
                      'ZoneInfoFile raised %s: %s on a well-formed archive' % (type(e).__name__, e))
        return
    # an archive without the METADATA member is supported: zones and link entries load, metadata is None
    if (zf.metadata is None) != (metadata == 'none'):
        ctx.violation('archive-metadata', {'load_path': 'archive', 'metadata_member': metadata}, 'ZoneInfoFile.metadata = %r' % (zf.metadata,))
    for name, path, data, rz in members:
        ctx.ev()
        ctx.count('loadpath_archive')
        z = zf.get(name)
        base = tz.tzfile(io.BytesIO(data))
        seed = rng.random()
        case = {'zone': name, 'load_path': 'archive'}
        if z is None:
            ctx.violation('archive-member-missing', case, '')
            continue
        if not (z == base and base == z):
            ctx.violation('load-paths-unequal', case, 'archive zone != stream zone')
        elif behaviour(tz, z, rz, random.Random(seed)) != behaviour(tz, base, rz, random.Random(seed)):
            ctx.violation('load-paths-behave-differently', case, 'archive zone answers differently')
        for proto in (0, 2, pickle.HIGHEST_PROTOCOL):
            try:
                z2 = pickle.loads(pickle.dumps(z, proto))
            except Exception as e:
                ctx.violation('archive-pickle-raised', dict(case, protocol=proto), '%s: %s' % (type(e).__name__, e))
                continue
            if z2 is None or not (z2 == z) or behaviour(tz, z2, rz, random.Random(seed)) != behaviour(tz, z, rz, random.Random(seed)):
                ctx.violation('archive-pickle-differs', dict(case, protocol=proto), 'pickle round trip of an archive zone gave %r' % (z2,))
            ctx.count('loadpath_archive_pickle')
        ctx.distinct('loadpath|%s|archive' % name)
    for link, target in (('Link/Hard', members[0]), ('Link/Sym', members[-1])):
        ctx.ev()
        ctx.count('loadpath_archive_link')
        z = zf.get(link)
        case = {'zone': link, 'load_path': 'archive-link'}
        if z is None or not (z == zf.get(target[0])):
            ctx.violation('archive-link-wrong', case, 'link entry resolves to %r' % (z,))
        elif behaviour(tz, z, target[3], random.Random(1)) != behaviour(tz, tz.tzfile(io.BytesIO(target[2])), target[3], random.Random(1)):
            ctx.violation('load-paths-behave-differently', case, 'link entry answers differently')
        else:
            try:
                z2 = pickle.loads(pickle.dumps(z))
                if z2 is None or not (z2 == z):
                    ctx.violation('archive-pickle-differs', case, 'pickle of a link entry gave %r' % (z2,))
            except Exception as e:
                ctx.violation('archive-pickle-raised', case, repr(e))


def run(ctx):
    from dateutil import tz
    rng = ctx.rng
    files = tzzoo.real_files()
    ctx.note('distinct_real_tzif_files', len(files))
    if files:
        n = tzif_ref.selftest([p for _, p, _ in files[:: max(1, len(files) // 12)]])
        ctx.count('oracle_crosschecks_vs_stdlib_zoneinfo', n)
    hits = {}
    unhook = tzzoo.install_hit_counters(hits)
    try:
        if ctx.tier == 'quick':
            import random
            sample = tzzoo.stratified_sample(files, random.Random(ctx.seed), 64)
        else:
            sample = tzzoo.stratified_sample(files, rng, len(files))
        mine = [s for k, s in enumerate(sample) if k % ctx.nshards == ctx.shard]
        shapes = set()
        for name, path, data, rz, sh in mine:
            if not ctx.time_left():
                ctx.count('stopped_by_time_budget')
                break
            shapes |= sh
            fh = tzzoo.hashlib.sha1(data).hexdigest()[:10]
            try:
                z = tz.tzfile(path)
            except Exception as e:
                ctx.violation('load-raised', {'zone': name}, repr(e))
                continue
            check_zone(ctx, tz, name, z, rz, rng, fh)
            ctx.count('real_zones')
        for s in shapes:
            ctx.count('shape_' + s)
        # load paths on a few real files per shard
        for name, path, data, rz, sh in mine[:6]:
            check_load_paths(ctx, tz, name, path, data, rz, rng)
        if ctx.shard == 0:
            # directed: the names that look like designators are names of database files like any other
            for name in ('UTC', 'GMT', 'Etc/UTC', 'Zulu', 'GMT0', 'Etc/GMT+5', 'EST'):
                path = os.path.join('/usr/share/zoneinfo', name)
                if os.path.isfile(path):
                    with open(path, 'rb') as f:
                        data = f.read()
                    check_load_paths(ctx, tz, name, path, data, tzif_ref.RefZone(data), rng)
                    ctx.count('loadpath_designator_like_names')
        if mine:
            for metadata, links_first in (('last', False), ('none', False), ('first', False), ('last', True), ('none', True)):
                check_archive(ctx, tz, [(n, p, d, r) for n, p, d, r, s in mine[:5]], rng, metadata, links_first)
        # synthetic files (every shard takes a slice)
        syn = tzzoo.synthetic(rng, wild=True)
        tmpd = tempfile.mkdtemp(prefix='vfc06')
        try:
            for k, (label, data) in enumerate(syn):
                if k % ctx.nshards != ctx.shard:
                    continue
                rz = tzif_ref.RefZone(data)
                z = tz.tzfile(io.BytesIO(data), filename='synthetic-' + label)
                check_zone(ctx, tz, 'synthetic:' + label, z, rz, rng, 'syn-' + label)
                ctx.count('synthetic_zones')
                p = os.path.join(tmpd, label)
                with open(p, 'wb') as f:
                    f.write(data)
                check_load_paths(ctx, tz, p, p, data, rz, rng)
                if k % 5 == 0:
                    ctx.sample({'zone': 'synthetic:' + label, 'transitions': len(rz.trans), 'types': [list(t) for t in rz.types]})
        finally:
            for fn in os.listdir(tmpd):
                os.remove(os.path.join(tmpd, fn))
            os.rmdir(tmpd)
        for k, v in hits.items():
            ctx.hit(k, v)
        if mine:
            ctx.sample({'zone': mine[0][0], 'transitions': len(mine[0][3].trans), 'shapes': sorted(mine[0][4])})
    finally:
        unhook()


def floors(agg, tier):
    c, h, out = agg['counters'], agg['hits'], []
    if c.get('real_zones', 0) < (40 if tier == 'quick' else 300):
        out.append('only %d real zone files checked' % c.get('real_zones', 0))
    if c.get('synthetic_zones', 0) < 20:
        out.append('only %d synthetic zones' % c.get('synthetic_zones', 0))
    if agg['evaluations'] < (40000 if tier == 'quick' else 300000):
        out.append('only %d evaluations' % agg['evaluations'])
    if c.get('subsecond_probes_pre1970', 0) < 500:
        out.append('only %d sub-second probes before 1970' % c.get('subsecond_probes_pre1970', 0))
    for s in ('fold-into-dst-flagged', 'dst-to-dst', 'same-offset-type-change', 'first-transition-fold'):
        if c.get('shape_' + s, 0) < 1:
            out.append('no real file with shape %s was reached' % s)
    for k in ('loadpath_path', 'loadpath_stream', 'loadpath_gettz', 'loadpath_pickle', 'loadpath_copy', 'loadpath_deepcopy',
              'loadpath_archive', 'loadpath_archive_link', 'loadpath_archive_pickle', 'archives_metadata_last', 'archives_metadata_none',
              'archives_metadata_first', 'archives_links_first', 'loadpath_designator_like_names'):
        if c.get(k, 0) < 4:
            out.append('load path %s exercised only %d times' % (k, c.get(k, 0)))
    for k in ('tzfile.fromutc', 'tzfile.utcoffset', 'tzfile.tzname', 'tzfile.dst'):
        if h.get(k, 0) < 10000:
            out.append('monitored %s reached only %d times' % (k, h.get(k, 0)))
    if c.get('oracle_crosschecks_vs_stdlib_zoneinfo', 0) < 1000:
        out.append('oracle cross-check against stdlib zoneinfo too small')
    return out


def replay(ctx, case):
    from dateutil import tz
    name = case.get('zone', '')
    if name.startswith('synthetic:'):
        import random
        for label, data in tzzoo.synthetic(random.Random(0), wild=True):
            if 'synthetic:' + label == name:
                rz = tzif_ref.RefZone(data)
                check_zone(ctx, tz, name, tz.tzfile(io.BytesIO(data)), rz, random.Random(0), 'replay')
        return
    path = os.path.join(tzzoo.ZONEINFO, name)
    if os.path.exists(path):
        import random
        with open(path, 'rb') as f:
            data = f.read()
        check_zone(ctx, tz, name, tz.tzfile(path), tzif_ref.RefZone(data), random.Random(0), 'replay')
