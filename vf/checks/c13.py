"""C13 - rrulestr and str(rrule) are inverse; RFC text means the same as keywords."""
import datetime as D
import itertools
import os

from vf import mon_rrule as M, rr_util as U
from vf.oracles import rrule_ref as RR

PROPERTY = 'C13'
LEVEL = 'exploration'
RULE = ('(a) str round trip: rules drawn from C01\'s generator (all frequencies and BY-parts, naive starts) -> rrulestr(str(rule)) must '
        'yield the same occurrences (first 25 within C01\'s horizon, both sides iterated under the period probe) and str() must '
        'be repeatable and leave the rule usable (second str(), replace()).  (b) RFC spellings from an independent renderer: '
        'parts in random order and letter case, BYDAY / BYWEEKDAY with "+1MO" / "1MO" / "MO(+1)" forms, DTSTART inline (naive, '
        '"Z", ";TZID=name"), start passed as dtstart=, "RRULE:" prefix present or absent, lines folded at random positions '
        '(1-4 continuation lines) and parsed with unfold=True; result must have the occurrences and tzinfo of the keyword '
        'construction.  (c) multi-line texts with RRULE / RDATE / EXRULE / EXDATE (incl. ;TZID= with tzids mapping / callable '
        'and tzinfos, VALUE=DATE-TIME) must build the set given by the C10 set-algebra model; forceset, compatible (adds the '
        'start as an inclusion date), ignoretz, cache are checked against their documented meaning.  (d) malformed texts '
        '(unknown part or property, empty value, bad weekday / frequency / number, duplicate VALUE parameter, RRULE '
        'parameters, several DTSTART values, empty string) must raise ValueError.  Non-trivial = every case; distinct = '
        '(workload, BY-key set, spelling variant, option set).'
        ' Also: ignoretz with Z on every value of a set text, compatible=True on folded text, and cold-start calls (eight texts given to a fresh interpreter as its very first call, compared with the warm answer).')
ASSUMPTIONS = ['the keyword construction is the meaning of a rule (C01)', 'vf renderer produces RFC 5545 property text independently of str(rrule)']
MANIFEST = {
    'technique': 'runtime round-trip / differential monitor: real str(rrule) and an independent RFC 5545 renderer -> real rrulestr -> occurrence comparison with the keyword-built rule (period probe bounded), set model for multi-line input',
    'level_text': 'Thousands of seeded rules and spellings per run through the real str()/rrulestr pair; occurrences and time zones '
                  'are compared with the keyword construction, multi-line inputs with the set-algebra model, malformed texts '
                  'with the ValueError contract.  Exploration: held on the texts observed.',
    'level_note': 'Trusts the renderer and the keyword-built rule as reference; horizon-bounded like C01.',
}
PLAN = {'quick': {'shards': 4, 'timeout': 1800, 'budget': 900},
        'thorough': {'shards': 16, 'timeout': 7200, 'budget': 2400}}
N_CASES = {'quick': 700, 'thorough': 9000}
WD = ['MO', 'TU', 'WE', 'TH', 'FR', 'SA', 'SU']


def occurrences(R, probe, rule, hz, budget):
    """first 25 occurrences of an already constructed rule, bounded by the probe"""
    items, status = [], 'exhausted'
    probe.arm(hz, budget)
    try:
        for x in rule:
            items.append(x)
            if len(items) >= 25:
                status = 'cut'
                break
    except M.Horizon as h:
        status = str(h)
    except ValueError as e:
        status = 'valueerror'
    except Exception as e:
        status = 'exc:%s: %s' % (type(e).__name__, e)
    finally:
        probe.disarm()
    return status, items


def horizon_of(kw):
    ref_kw = M.kw_to_ref(kw)
    spec = RR.Spec(**ref_kw)
    _, hz = spec.generate(M.P_PERIODS[kw['freq']], max_items=1)
    # generate() stops evaluating after max_items but still walks the periods to give the horizon
    return hz


def same_occurrences(a, b, hz):
    sa, ia = a
    sb, ib = b
    if sa.startswith('exc') or sb.startswith('exc'):
        return False, 'exception: %s / %s' % (sa, sb)

    def below(seq):
        return [x for x in seq if hz is None or x.replace(tzinfo=None).toordinal() < hz]
    ga, gb = below(ia), below(ib)
    n = min(len(ga), len(gb)) if ('cut' in (sa, sb) or 'period-budget' in (sa, sb)) else max(len(ga), len(gb))
    if [x.replace(tzinfo=None) for x in ga[:n]] != [x.replace(tzinfo=None) for x in gb[:n]]:
        return False, 'occurrences differ: %s vs %s' % ([U.iso(x) for x in ga[:4]], [U.iso(x) for x in gb[:4]])
    if (sa == 'valueerror') != (sb == 'valueerror'):
        return False, 'one side raised ValueError: %s / %s' % (sa, sb)
    return True, ''


# ---- independent RFC renderer -----------------------------------------------------------------

def fmt_dt(v, z=False):
    if not isinstance(v, D.datetime):
        v = D.datetime(v.year, v.month, v.day)
    return v.strftime('%Y%m%dT%H%M%S').rjust(15, '0') + ('Z' if z else '')


def fmt4(v):
    return '%04d%02d%02dT%02d%02d%02d' % (v.year, v.month, v.day, v.hour, v.minute, v.second)


def wd_text(w, form):
    if isinstance(w, int):
        return WD[w]
    name, n = WD[w.weekday], w.n
    if not n:
        return name
    if form == 0:
        return '%+d%s' % (n, name)
    if form == 1:
        return ('%d%s' % (n, name)) if n > 0 else '%d%s' % (n, name)
    return '%s(%+d)' % (name, n)


def render_rrule_value(rng, kw, utc_until=False):
    parts = ['FREQ=' + RR.FREQNAMES[kw['freq']]]
    if 'interval' in kw:
        parts.append('INTERVAL=%d' % kw['interval'])
    if 'wkst' in kw:
        w = kw['wkst']
        parts.append('WKST=' + WD[w if isinstance(w, int) else w.weekday])
    if 'count' in kw:
        parts.append('COUNT=%d' % kw['count'])
    if 'until' in kw:
        u = kw['until']
        if not isinstance(u, D.datetime):
            u = D.datetime(u.year, u.month, u.day)
        parts.append('UNTIL=' + fmt4(u) + ('Z' if utc_until else ''))
    names = {'bysetpos': 'BYSETPOS', 'bymonth': 'BYMONTH', 'bymonthday': 'BYMONTHDAY', 'byyearday': 'BYYEARDAY', 'byweekno': 'BYWEEKNO',
             'byhour': 'BYHOUR', 'byminute': 'BYMINUTE', 'bysecond': 'BYSECOND', 'byeaster': 'BYEASTER'}
    for k, name in names.items():
        if k in kw:
            v = kw[k]
            v = [v] if isinstance(v, int) else list(v)
            parts.append('%s=%s' % (name, ','.join(str(x) for x in v)))
    if 'byweekday' in kw:
        v = kw['byweekday']
        v = [v] if (isinstance(v, int) or hasattr(v, 'n')) else list(v)
        form = rng.randrange(3)
        parts.append('%s=%s' % (rng.choice(['BYDAY', 'BYDAY', 'BYWEEKDAY']), ','.join(wd_text(w, form) for w in v)))
    rng.shuffle(parts)
    text = ';'.join(parts)
    c = rng.random()
    if c < .25:
        text = text.lower()
    elif c < .4:
        text = ''.join(ch.lower() if rng.random() < .5 else ch for ch in text)
    return text


def fold(rng, line, pieces):
    cuts = sorted(rng.sample(range(1, len(line)), min(pieces, len(line) - 1))) if len(line) > 2 else []
    out, prev = [], 0
    for c in cuts:
        out.append(line[prev:c])
        prev = c
    out.append(line[prev:])
    return '\n '.join(out)


def naive_kw(kw):
    k = dict(kw)
    st = k['dtstart']
    if isinstance(st, D.datetime):
        k['dtstart'] = st.replace(tzinfo=None)
    if isinstance(k.get('until'), D.datetime):
        k['until'] = k['until'].replace(tzinfo=None)
    return k


# ---- workloads ----------------------------------------------------------------------------------

def wl_str_roundtrip(ctx, R, probe, rng):
    kw, meta = M.gen_rule(rng, R, [])
    kw = naive_kw(kw)
    case = {'workload': 'str', 'kw': M.kw_json(kw)}
    try:
        rule = R.rrule(**kw)
    except ValueError:
        ctx.count('str_constructor_valueerror')
        return
    hz = horizon_of(kw)
    budget = 4 * M.P_PERIODS[kw['freq']] + 200
    try:
        text = str(rule)
        text2 = str(rule)
        back = R.rrulestr(text)
    except Exception as e:
        ctx.ev()
        ctx.violation('str-roundtrip-raised', case, '%s: %s' % (type(e).__name__, e))
        return
    ctx.ev()
    ctx.count('str_roundtrips')
    case['text'] = text
    if text != text2:
        ctx.violation('str-not-repeatable', case, '%r then %r' % (text, text2))
    ok, why = same_occurrences(occurrences(R, probe, rule, hz, budget), occurrences(R, probe, back, hz, budget), hz)
    if not ok:
        ctx.violation('str-roundtrip', case, why)
    try:
        again = rule.replace()
        ok2, why2 = same_occurrences(occurrences(R, probe, rule, hz, budget), occurrences(R, probe, again, hz, budget), hz)
        if not ok2:
            ctx.violation('rule-damaged-by-str', case, why2)
    except Exception as e:
        ctx.violation('rule-damaged-by-str', case, 'replace() after str(): %s: %s' % (type(e).__name__, e))
    ctx.distinct('str|%s|%s' % (RR.FREQNAMES[kw['freq']], ','.join(sorted(k for k in kw if k.startswith('by') or k in ('count', 'until', 'wkst', 'interval')))))
    if ctx.evaluations % 150 == 1:
        ctx.sample({'workload': 'str', 'text': text})


def wl_spelling(ctx, R, probe, rng, tz, zones):
    kw, meta = M.gen_rule(rng, R, zones)
    st = kw['dtstart']
    if not isinstance(st, D.datetime):
        st = kw['dtstart'] = D.datetime(st.year, st.month, st.day)
    st = kw['dtstart'] = st.replace(microsecond=0)
    zone = st.tzinfo
    if zone is not None and 'until' in kw:
        u = kw['until']
        if not isinstance(u, D.datetime):
            u = D.datetime(u.year, u.month, u.day)
        try:
            kw['until'] = u.replace(tzinfo=None).replace(tzinfo=tz.UTC) if u.tzinfo is None else u.astimezone(tz.UTC)
        except (OverflowError, ValueError):
            kw.pop('until')
    elif zone is None and isinstance(kw.get('until'), D.datetime):
        kw['until'] = kw['until'].replace(tzinfo=None)
    if st.year < 1000 and zone is not None:
        return
    try:
        ref_rule = R.rrule(**kw)
    except ValueError:
        ctx.count('spelling_constructor_valueerror')
        return
    value = render_rrule_value(rng, kw, utc_until=zone is not None)
    variant, opts = [], {}
    how = rng.choice(['inline', 'inline', 'kwarg']) if zone is None else rng.choice(['inline-tz', 'kwarg'])
    lines = []
    if how == 'kwarg':
        opts['dtstart'] = st
        variant.append('dtstart=')
    elif how == 'inline':
        lines.append('DTSTART:' + fmt4(st))
        variant.append('DTSTART')
    else:
        if zone is tz.UTC:
            lines.append('DTSTART:' + fmt4(st) + 'Z')
            variant.append('DTSTART-Z')
        elif getattr(zone, '_filename', None) and 'New_York' in repr(zone):
            lines.append('DTSTART;TZID=America/New_York:' + fmt4(st))
            variant.append('DTSTART-TZID')
        else:
            lines.append('DTSTART;TZID=Custom/Zone:' + fmt4(st))
            opts['tzids'] = rng.choice([{'Custom/Zone': zone}, lambda name, z=zone: z if name == 'Custom/Zone' else None])
            variant.append('DTSTART-TZID-tzids')
    if how != 'kwarg' and rng.random() < .25:
        # dtstart= is only a default for texts without DTSTART: the inline start wins over a different one passed along
        decoys = [D.datetime(2001, 1, 31, 17, 30)]
        for delta in (D.timedelta(days=3, minutes=7), D.timedelta(hours=-1)):
            try:
                decoys.append(st.replace(tzinfo=None) + delta if delta < D.timedelta(0) else st + delta)
            except OverflowError:
                pass
        opts['dtstart'] = rng.choice(decoys)
        variant.append('inline-wins-over-dtstart=')
    prefix = 'RRULE:' if (lines or rng.random() < .5) else ''
    if prefix and rng.random() < .2:
        prefix = prefix.lower()
    rline = prefix + value
    if rng.random() < .3 and len(rline) > 8:
        rline = fold(rng, rline, rng.randint(1, 4))
        opts['unfold'] = True
        variant.append('folded')
    lines.append(rline)
    text = '\n'.join(lines)
    if 'unfold' not in opts and len(lines) > 1 and rng.random() < .3:
        # without unfold the text is split on any blank: the parts may stand on one line
        text = rng.choice([' ', '  ', '\t', ' \n']).join(lines)
        variant.append('one-line')
    if rng.random() < .1:
        opts['cache'] = True
        variant.append('cache')
    case = {'workload': 'spelling', 'kw': M.kw_json(kw), 'text': text, 'options': sorted(k for k in opts), 'variant': variant}
    if 'inline-wins-over-dtstart=' in variant:
        case['decoy_dtstart'] = opts['dtstart'].isoformat()
    ctx.ev()
    ctx.count('spellings')
    for v in variant:
        ctx.count('variant_' + v)
    try:
        if opts.get('cache'):
            # the period probe aborts generators, which would lose a half-filled cache batch: check the flag on one
            # parse and compare occurrences on an uncached parse of the same text
            cached = R.rrulestr(text, **opts)
            if getattr(cached, '_cache', None) is None:
                ctx.violation('option-cache', case, 'cache=True did not enable caching')
            opts = {k: v for k, v in opts.items() if k != 'cache'}
        got = R.rrulestr(text, **opts)
    except Exception as e:
        ctx.violation('spelling-rejected', case, '%s: %s' % (type(e).__name__, e))
        return
    if not isinstance(got, R.rrule):
        ctx.violation('spelling-type', case, 'rrulestr returned %r' % (got,))
        return
    hz = horizon_of(kw)
    budget = 4 * M.P_PERIODS[kw['freq']] + 200
    a = occurrences(R, probe, ref_rule, hz, budget)
    b = occurrences(R, probe, got, hz, budget)
    ok, why = same_occurrences(a, b, hz)
    try:
        starts = (str(ref_rule).split('\n')[0], str(got).split('\n')[0])
    except Exception:
        starts = ('', '')
    if not ok:
        ctx.violation('spelling-meaning', case, why)
    elif starts[0] != starts[1]:
        # (also decides rules whose occurrences all lie beyond the compared horizon)
        ctx.violation('spelling-start', case, 'start of the parsed rule %r, of the keyword rule %r' % (starts[1], starts[0]))
    elif a[1] and b[1]:
        tza, tzb = a[1][0].tzinfo, b[1][0].tzinfo
        if (tza is None) != (tzb is None) or (tza is not None and not (tzb is tza or (tzb == tza and b[1][0].utcoffset() == a[1][0].utcoffset()))):
            ctx.violation('spelling-timezone', case, 'tzinfo %r vs keyword rule %r' % (tzb, tza))
    ctx.distinct('spelling|%s|%s|%s' % (RR.FREQNAMES[kw['freq']], ','.join(variant), ','.join(sorted(k for k in kw if k.startswith('by')))))
    if ctx.evaluations % 150 == 2:
        ctx.sample({'workload': 'spelling', 'text': text, 'options': case['options']})


def wl_set(ctx, R, rng, tz):
    """multi-line texts -> set model"""
    st = U.BASE + D.timedelta(days=rng.randrange(3))
    aware = rng.random() < .3
    zone = tz.tzoffset('Custom/Zone', 3600 * rng.choice([-5, 2])) if aware else None
    rr = [U.finite_rule_kw(rng, R, grid=True, maxlen=14) for _ in range(rng.randint(0, 3))]
    ex = [U.finite_rule_kw(rng, R, grid=True, maxlen=14) for _ in range(rng.randint(0, 1))]
    rd = [U.BASE + D.timedelta(days=rng.randrange(25), hours=rng.choice([0, 12])) for _ in range(rng.randint(0, 3))]
    exd = [U.BASE + D.timedelta(days=rng.randrange(25), hours=rng.choice([0, 0, 12])) for _ in range(rng.randint(0, 3))]
    for k in rr + ex:
        k['dtstart'] = st          # one DTSTART for the whole text
        if 'until' in k:
            k['until'] = k['until'].replace(tzinfo=None)
    opts, variant = {}, []
    lines = []
    if aware:
        lines.append('DTSTART;TZID=Custom/Zone:' + fmt4(st))
        opts['tzids'] = rng.choice([{'Custom/Zone': zone}, lambda name, z=zone: z])
        variant.append('tzid')
    else:
        # ignoretz: every value carries a Z that must be dropped everywhere (DTSTART, UNTIL of RRULE and EXRULE, RDATE, EXDATE)
        zs = 'Z' if rng.random() < .3 else ''
        if zs:
            opts['ignoretz'] = True
            variant.append('ignoretz')
        lines.append('DTSTART:' + fmt4(st) + zs)
    if not aware:
        for k in rr:
            lines.append('RRULE:' + render_rrule_value(rng, k, utc_until=bool(zs)))
        for k in ex:
            lines.append('EXRULE:' + render_rrule_value(rng, k, utc_until=bool(zs)))
    if rd and not aware:
        lines.append(rng.choice(['RDATE:', 'RDATE;VALUE=DATE-TIME:']) + ','.join(fmt4(d) + zs for d in rd))
    else:
        rd = []
    if exd:
        if aware:
            lines.append('EXDATE;TZID=Custom/Zone:' + ','.join(fmt4(d) for d in exd))
        else:
            lines.append(rng.choice(['EXDATE:', 'EXDATE;VALUE=DATE-TIME:']) + ','.join(fmt4(d) + zs for d in exd))
    if aware:
        for k in rr + ex:
            if 'until' in k:
                k.pop('until')
                k['count'] = 5
        # re-render with the until removed
        lines = [lines[0]] + ['RRULE:' + render_rrule_value(rng, k) for k in rr] + ['EXRULE:' + render_rrule_value(rng, k) for k in ex] + \
                [l for l in lines if l.startswith('EXDATE')]
    forceset = rng.random() < .3
    compatible = rng.random() < .2
    if forceset:
        opts['forceset'] = True
        variant.append('forceset')
    if compatible:
        opts['compatible'] = True
        variant.append('compatible')
    if rng.random() < .3:
        rng.shuffle(lines)
        variant.append('shuffled')
    text = '\n'.join(lines)
    if rng.random() < .2:
        text = text.lower() if not aware else text
    case = {'workload': 'set', 'text': text, 'options': sorted(opts), 'variant': variant}
    ctx.ev()
    ctx.count('set_texts')
    try:
        got = R.rrulestr(text, **opts)
    except Exception as e:
        if not rr and not ex and not rd and not exd and not forceset and not compatible:
            ctx.count('set_text_without_members_rejected')
            return
        if not rr and not forceset and not compatible and not rd and not ex and not exd:
            return
        if not rr and isinstance(e, (IndexError,)):
            # a text without any RRULE and without forceset has no documented result
            ctx.count('set_text_without_rrule')
            return
        ctx.violation('set-text-rejected', case, '%s: %s' % (type(e).__name__, e))
        return
    z = zone

    def aw(x):
        return x.replace(tzinfo=z) if z is not None else x
    inc = set(aw(d) for d in rd)
    for k in rr:
        inc |= set(R.rrule(**dict(k, dtstart=aw(st))))
    exc = set(aw(d) for d in exd)
    for k in ex:
        exc |= set(R.rrule(**dict(k, dtstart=aw(st))))
    if compatible:
        inc.add(aw(st))
    expect_set = forceset or compatible or len(rr) > 1 or rd or ex or exd
    if expect_set:
        if not isinstance(got, R.rruleset):
            ctx.violation('set-type', case, 'expected an rruleset, got %r' % (got,))
            return
    else:
        if not rr:
            return
        if not isinstance(got, R.rrule):
            ctx.violation('set-type', case, 'expected a plain rrule, got %r' % (got,))
            return
    L = sorted(inc - exc)
    try:
        G = list(got)
    except Exception as e:
        ctx.violation('set-iteration-raised', case, '%s: %s' % (type(e).__name__, e))
        return
    if G != L:
        ctx.violation('set-meaning', case, 'got %d items %s..., model %d items %s...' % (len(G), [U.iso(x) for x in G[:4]], len(L), [U.iso(x) for x in L[:4]]))
    ctx.distinct('set|%d|%d|%d|%d|%s' % (len(rr), len(ex), bool(rd), bool(exd), ','.join(variant)))
    if ctx.evaluations % 150 == 3:
        ctx.sample({'workload': 'set', 'text': text, 'options': case['options'], 'n': len(L)})


def wl_options(ctx, R, tz):
    st = D.datetime(1997, 9, 2, 9)
    ny = tz.gettz('America/New_York')
    checks = []
    # ignoretz drops the zone of DTSTART / UNTIL
    r = R.rrulestr('DTSTART:19970902T090000Z\nRRULE:FREQ=DAILY;COUNT=3', ignoretz=True)
    checks.append(('ignoretz', list(r) == [st + D.timedelta(days=i) for i in range(3)]))
    r = R.rrulestr('DTSTART:19970902T090000Z\nRRULE:FREQ=DAILY;COUNT=3')
    checks.append(('utc-start', [x.tzinfo for x in r] == [tz.UTC] * 3 and [x.replace(tzinfo=None) for x in r] == [st + D.timedelta(days=i) for i in range(3)]))
    r = R.rrulestr('RRULE:FREQ=DAILY;COUNT=3', dtstart=st, forceset=True)
    checks.append(('forceset', isinstance(r, R.rruleset) and list(r) == [st + D.timedelta(days=i) for i in range(3)]))
    r = R.rrulestr('FREQ=DAILY;COUNT=3', dtstart=st)
    checks.append(('no-prefix', isinstance(r, R.rrule) and list(r) == [st + D.timedelta(days=i) for i in range(3)]))
    r = R.rrulestr('DTSTART:19970902T090000\nRRULE:FREQ=DAILY;INTERVAL=2;COUNT=2', compatible=True)
    checks.append(('compatible', isinstance(r, R.rruleset) and list(r) == [st, st + D.timedelta(days=2)]))
    r = R.rrulestr('DTSTART:19970903T090000\nRRULE:FREQ=WEEKLY;COUNT=2;BYDAY=FR', compatible=True)
    checks.append(('compatible-adds-start', list(r) == [D.datetime(1997, 9, 3, 9), D.datetime(1997, 9, 5, 9), D.datetime(1997, 9, 12, 9)]))
    r = R.rrulestr('RRULE:FREQ=DAILY;COUNT=3', dtstart=st, cache=True)
    checks.append(('cache', r._cache is not None and list(r) == list(r)))
    r = R.rrulestr('DTSTART:19970902T090000\nRRULE:FREQ=DAILY;\n COUNT=3', unfold=True)
    checks.append(('unfold', list(r) == [st + D.timedelta(days=i) for i in range(3)]))
    r = R.rrulestr('DTSTART:19970902T090000 BRST\nRRULE:FREQ=DAILY;COUNT=2', tzinfos={'BRST': -10800}, unfold=True)
    checks.append(('tzinfos', [x.utcoffset() for x in r] == [D.timedelta(hours=-3)] * 2))
    if ny is not None:
        r = R.rrulestr('DTSTART;TZID=America/New_York:19970902T090000\nRRULE:FREQ=DAILY;COUNT=2')
        checks.append(('tzid-default-gettz', [x.tzinfo for x in r] == [ny, ny]))
    r = R.rrulestr('DTSTART;TZID=X/Y:19970902T090000\nRRULE:FREQ=DAILY;COUNT=2', tzids={'X/Y': tz.tzoffset('X/Y', 3600)})
    checks.append(('tzids-mapping', [x.utcoffset() for x in r] == [D.timedelta(hours=1)] * 2))
    # an explicit WKST=MO in the text is Monday whatever the process-wide default week start is (calendar.setfirstweekday)
    import calendar
    saved = calendar.firstweekday()
    try:
        for first in (calendar.SUNDAY, calendar.WEDNESDAY, calendar.MONDAY):
            calendar.setfirstweekday(first)
            for wk_text, wk_kw in (('MO', R.MO), ('SU', R.SU), ('WE', R.WE)):
                want2 = list(R.rrule(R.WEEKLY, interval=2, wkst=wk_kw, byweekday=(R.TU, R.SU), count=8, dtstart=st))
                try:
                    got2 = list(R.rrulestr('DTSTART:19970902T090000\nRRULE:FREQ=WEEKLY;INTERVAL=2;WKST=%s;BYDAY=TU,SU;COUNT=8' % wk_text))
                    back = list(R.rrulestr(str(R.rrule(R.WEEKLY, interval=2, wkst=wk_kw, byweekday=(R.TU, R.SU), count=8, dtstart=st))))
                    checks.append(('wkst-text-vs-keyword-under-firstweekday-%d' % first, got2 == want2 and back == want2))
                except Exception:
                    checks.append(('wkst-text-vs-keyword-under-firstweekday-%d' % first, False))
    finally:
        calendar.setfirstweekday(saved)
    # tzinfos reaches every date of the text: a start and an UNTIL written with names only tzinfos knows give the keyword rule
    qst, qwt = tz.tzoffset('QST', -5 * 3600), tz.tzoffset('QWT', 3 * 3600)
    names = {'QST': qst, 'QWT': qwt}
    want = list(R.rrule(R.DAILY, dtstart=D.datetime(1997, 9, 2, 9, tzinfo=qst), until=D.datetime(1997, 9, 5, 16, tzinfo=qwt)))
    for label, tzinfos in (('mapping', names), ('callable', lambda name, off: names.get(name))):
        for text, opts in (('RRULE:FREQ=DAILY;UNTIL=19970905T160000QWT', {'dtstart': D.datetime(1997, 9, 2, 9, tzinfo=qst)}),
                           ('DTSTART:19970902T090000QST\nRRULE:FREQ=DAILY;UNTIL=19970905T160000QWT', {}),
                           ('DTSTART:19970902T090000QST\nRRULE:FREQ=DAILY;UNTIL=19970905T160000QWT\nEXDATE:19970801T090000QST', {})):
            try:
                got = list(R.rrulestr(text, tzinfos=tzinfos, **opts))
                checks.append(('tzinfos-reaches-until-' + label, len(want) == 3 and got == want and all(g.tzinfo is qst for g in got)))
            except Exception:
                checks.append(('tzinfos-reaches-until-' + label, False))
        # ... and a naive start with such an UNTIL is refused like any naive / aware mix
        try:
            R.rrulestr('DTSTART:19970902T090000\nRRULE:FREQ=DAILY;UNTIL=19970905T160000QWT', tzinfos=tzinfos)
            checks.append(('tzinfos-until-naive-start-refused-' + label, False))
        except ValueError:
            checks.append(('tzinfos-until-naive-start-refused-' + label, True))
        except Exception:
            checks.append(('tzinfos-until-naive-start-refused-' + label, False))
    # a TZID the tzids option does not know gives a naive start - whether the option is a callable returning None, a mapping
    # without the name, or an empty mapping (which is not "option absent")
    import collections
    for label, tzids in (('callable-none', lambda name: None), ('mapping-miss', {'Other/Zone': tz.UTC}), ('empty-dict', {}),
                         ('empty-ordereddict', collections.OrderedDict())):
        for name in ('UTC', 'America/New_York', 'X/Y'):
            try:
                r = R.rrulestr('DTSTART;TZID=%s:19970902T090000\nRRULE:FREQ=DAILY;COUNT=2\nEXDATE;TZID=%s:19970903T090000' % (name, name), tzids=tzids)
                checks.append(('tzids-unknown-name-' + label, list(r) == [st]))
            except Exception:
                checks.append(('tzids-unknown-name-' + label, False))
    # compatible=True implies unfold (and forceset): folded text needs no explicit unfold
    for nl in ('\n', '\r\n'):
        try:
            r = R.rrulestr('DTSTART:19970902T090000%sRRULE:FREQ=DAILY;INTERVAL=2;%s COUNT=2;BYD%s AY=TU,TH' % (nl, nl, nl), compatible=True)
            checks.append(('compatible-implies-unfold', isinstance(r, R.rruleset) and list(r) == [st, D.datetime(1997, 9, 4, 9)]))
        except Exception as e:
            checks.append(('compatible-implies-unfold', False))
    for name, ok in checks:
        ctx.ev()
        ctx.count('option_checks')
        ctx.distinct('option|' + name)
        if not ok:
            ctx.violation('option-' + name, {'workload': 'options', 'option': name}, 'documented behaviour of %s not observed' % name)


COLD_CALLS = [
    ("RRULE:FREQ=DAILY;COUNT=2\nRDATE:19970910T090000", {'dtstart': 'D.datetime(1997, 9, 2, 9)'}),
    ("RDATE:19970910T090000,19970911T090000", {'forceset': 'True'}),
    ("RRULE:FREQ=DAILY;COUNT=2\nEXDATE:19970903T090000", {'dtstart': 'D.datetime(1997, 9, 2, 9)'}),
    ("RRULE:FREQ=DAILY;UNTIL=19970904T090000", {'dtstart': 'D.datetime(1997, 9, 2, 9)'}),
    ("DTSTART:19970902T090000\nRRULE:FREQ=DAILY;COUNT=2", {}),
    ("FREQ=WEEKLY;COUNT=2;BYDAY=TU", {'dtstart': 'D.datetime(1997, 9, 2, 9)', 'cache': 'True'}),
    ("DTSTART;TZID=America/New_York:19970902T090000\nRRULE:FREQ=DAILY;COUNT=2", {}),
    ("RRULE:FREQ=DAILY;COUNT=2\nEXRULE:FREQ=DAILY;COUNT=1", {'dtstart': 'D.datetime(1997, 9, 2, 9)', 'compatible': 'True'}),
]


def wl_cold(ctx, R):
    """the meaning of a text must not depend on what was parsed earlier in the process: each text is also given to a fresh
    interpreter as its very first call and the printed occurrences are compared with the in-process (warm) answer"""
    import subprocess
    import sys
    for text, opts in COLD_CALLS:
        optsrc = ', '.join('%s=%s' % kv for kv in sorted(opts.items()))
        code = ('import datetime as D\nfrom dateutil import rrule as R\n'
                'try:\n    r = R.rrulestr(%r%s)\n    print("ok", [x.isoformat() for x in r])\n'
                'except Exception as e:\n    print("exc", type(e).__name__, e)\n' % (text, (', ' + optsrc) if optsrc else ''))
        env = dict(os.environ)
        try:
            p = subprocess.run([sys.executable, '-B', '-c', code], stdout=subprocess.PIPE, stderr=subprocess.PIPE, text=True, timeout=120, env=env)
        except subprocess.TimeoutExpired:
            ctx.inconclusive_because('cold-start interpreter did not finish')
            continue
        cold = p.stdout.strip() or ('crash ' + p.stderr.strip()[-200:])
        ns = {'D': D, 'R': R}
        try:
            warm = 'ok ' + repr([x.isoformat() for x in eval('R.rrulestr(%r%s)' % (text, (', ' + optsrc) if optsrc else ''), ns)])
        except Exception as e:
            warm = 'exc %s %s' % (type(e).__name__, e)
        ctx.ev()
        ctx.count('cold_start_calls')
        ctx.distinct('cold|' + text[:30])
        if cold != warm:
            ctx.violation('first-call-differs', {'workload': 'cold-start', 'text': text, 'options': opts},
                          'as the first call of a fresh process: %s; in a process that has parsed other texts before: %s' % (cold[:200], warm[:200]))


MALFORMED = [
    'FREQ=DAILY;FOO=1', 'FREQ=DAILY;BYDAY=', 'FREQ=DAILY;BYDAY=XX', 'FREQ=DAILY;BYDAY=1', 'FREQ=DAILY;BYDAY=+MO', 'FREQ=DAILY;BYDAY=MO(', 'FREQ=FORTNIGHTLY',
    'FREQ=DAILY;INTERVAL=x', 'FREQ=DAILY;COUNT=', 'FREQ=DAILY;BYMONTH=1,,2', 'FREQ=DAILY;BYMONTH=a', 'FREQ=DAILY;WKST=XX', 'FREQ=DAILY;=3',
    'FREQ=DAILY;UNTIL=notadate', 'FREQ=DAILY;BYSETPOS=0', 'FREQ=DAILY;BYSETPOS=400', '', '   ', '\n', 'FOO:FREQ=DAILY',
    'DTSTART:19970902T090000\nFOO:BAR', 'DTSTART:19970902T090000\nRRULE;X=1:FREQ=DAILY;COUNT=2', 'DTSTART:19970902T090000\nEXRULE;X=1:FREQ=DAILY;COUNT=2',
    'DTSTART;VALUE=DATE-TIME;VALUE=DATE-TIME:19970902T090000\nRRULE:FREQ=DAILY;COUNT=2', 'DTSTART;FOO=BAR:19970902T090000\nRRULE:FREQ=DAILY;COUNT=2',
    'DTSTART:19970902T090000,19970903T090000\nRRULE:FREQ=DAILY;COUNT=2', 'DTSTART:19970902T090000\nRRULE:FREQ=DAILY;COUNT=2\nRDATE;VALUE=DATE:19970902',
    'DTSTART:19970902T090000\nRRULE:FREQ=DAILY;COUNT=2\nEXDATE;FOO=1:19970902T090000', 'DTSTART:notadate\nRRULE:FREQ=DAILY;COUNT=2',
    'DTSTART;TZID=X/Y:19970902T090000Z\nRRULE:FREQ=DAILY;COUNT=2', 'RRULE:FREQ=DAILY;COUNT=2;FREQ', 'DTSTART:19970902T090000Z\nRRULE:FREQ=DAILY;UNTIL=19971224T000000',
    'DTSTART;VALUE=DATE-TIME;VALUE=DATE:19970902T090000\nRRULE:FREQ=DAILY;COUNT=2', 'DTSTART:19970902T090000\nRRULE:FREQ=DAILY;COUNT=2\nEXDATE;VALUE=DATE;VALUE=DATE-TIME:19970903T090000',
    # ... and the opposite mismatch: naive start, UNTIL in UTC (inline start, start through dtstart=, inside an EXRULE)
    'DTSTART:19970902T090000\nRRULE:FREQ=DAILY;UNTIL=19970905T090000Z', 'RRULE:FREQ=DAILY;UNTIL=19970905T090000Z',
    'DTSTART:19970902T090000\nRRULE:FREQ=DAILY;COUNT=3\nEXRULE:FREQ=DAILY;UNTIL=19970905T090000Z',
]


def wl_malformed(ctx, R, tz, rng):
    for text in MALFORMED:
        for opts in ({}, {'forceset': True}, {'unfold': True}):
            if 'TZID=X/Y' in text:
                opts = dict(opts, tzids={'X/Y': tz.tzoffset('X/Y', 3600)})
            ctx.ev()
            ctx.count('malformed_texts')
            ctx.distinct('malformed|%s|%s' % (text[:40], ','.join(sorted(opts))))
            case = {'workload': 'malformed', 'text': text, 'options': sorted(opts)}
            try:
                r = R.rrulestr(text, dtstart=D.datetime(1997, 9, 2, 9) if 'DTSTART' not in text else None, **opts)
                list(itertools.islice(r, 3))
            except ValueError:
                continue
            except Exception as e:
                ctx.violation('malformed-wrong-exception', case, '%s: %s' % (type(e).__name__, e))
            else:
                ctx.violation('malformed-accepted', case, 'returned %r' % (r,))


def run(ctx):
    from dateutil import rrule as R
    from dateutil import tz
    probe = M.PeriodProbe(R)
    probe.start()
    try:
        rng = ctx.rng
        zones = [tz.UTC, tz.tzoffset('Custom/Zone', -3 * 3600)]
        ny = tz.gettz('America/New_York')
        if ny is not None:
            zones.append(ny)
        for i in range(N_CASES[ctx.tier]):
            if i % 25 == 0 and not ctx.time_left():
                ctx.count('stopped_by_time_budget')
                break
            try:
                wl_str_roundtrip(ctx, R, probe, rng)
                wl_spelling(ctx, R, probe, rng, tz, zones)
                wl_set(ctx, R, rng, tz)
            except M.Horizon:
                ctx.count('stray_horizon')
        wl_options(ctx, R, tz)
        if ctx.shard == 0:
            wl_cold(ctx, R)
        wl_malformed(ctx, R, tz, rng)
        ctx.count('periods_observed', probe.periods_total)
    finally:
        probe.stop()


def floors(agg, tier):
    c, out = agg['counters'], []
    for k, n in (('str_roundtrips', 1500 if tier == 'quick' else 20000), ('spellings', 1200 if tier == 'quick' else 15000),
                 ('set_texts', 1500 if tier == 'quick' else 20000), ('option_checks', 10), ('malformed_texts', 90),
                 ('variant_folded', 100), ('variant_DTSTART-TZID', 20), ('variant_DTSTART-Z', 20), ('variant_DTSTART-TZID-tzids', 20),
                 ('variant_dtstart=', 100), ('variant_inline-wins-over-dtstart=', 100), ('periods_observed', 5000)):
        if c.get(k, 0) < n:
            out.append('%s only %d (< %d)' % (k, c.get(k, 0), n))
    if len(agg['distinct']) < 1200:
        out.append('only %d distinct cases' % len(agg['distinct']))
    return out


def replay(ctx, case):
    from dateutil import rrule as R
    from dateutil import tz
    probe = M.PeriodProbe(R)
    probe.start()
    try:
        wl = case.get('workload')
        if wl == 'str':
            kw = M.kw_from_json(case['kw'], R, [])
            rule = R.rrule(**kw)
            hz = horizon_of(kw)
            back = R.rrulestr(str(rule))
            ok, why = same_occurrences(occurrences(R, probe, rule, hz, 5000), occurrences(R, probe, back, hz, 5000), hz)
            ctx.ev()
            if not ok:
                ctx.violation('str-roundtrip', case, why)
        elif wl == 'malformed':
            try:
                R.rrulestr(case['text'], dtstart=D.datetime(1997, 9, 2, 9) if 'DTSTART' not in case['text'] else None)
            except ValueError:
                pass
            except Exception as e:
                ctx.violation('malformed-wrong-exception', case, repr(e))
            else:
                ctx.violation('malformed-accepted', case, '')
        else:
            ctx.note('replay', 'text: %r - re-run the check with the recorded seed to reproduce option objects' % case.get('text'))
    finally:
        probe.stop()
