"""C11 - cached recurrences behave like uncached ones under any interleaving."""
import datetime as D
import itertools
import sys
import threading

from vf import locks, rr_util as U, sched as S

PROPERTY = 'C11'
LEVEL = 'exploration'
RULE = ('Objects: cached rrules and rrulesets whose length is one of {0,1,2,9,10,11,19,20,21,30} (straddling the cache fill batch '
        'of 10); model L = list(uncached twin).  (i) single thread: 2-4 iterators created before / after exhaustion, advanced in '
        'interleavings - a systematic sweep of all 1- and 2-preemption interleavings of two iterators (A runs k1 steps, B k2 steps, '
        'A to the end, B to the end, for all k1, k2) plus random interleavings of 2-4 iterators mixed with list / slice / index / '
        'between / count / contains queries; the rule\'s _cache_lock is replaced by a guard lock that reports a re-acquisition by '
        'the owning thread (which can never return) as a self-deadlock.  (ii) baton-scheduled threads: 2-4 workers (full iteration, '
        'partial iteration, count, index, between, contains) with switch points at every source line of rrulebase._iter_cached / '
        '__iter__ / __getitem__ / count / rrule._iter / rruleset._iter and at every proxy-lock acquire / release; schedules = all '
        'plans with at most one preemption on short scenarios (two in the thorough tier), PCT and uniformly random schedules; a '
        'state with no runnable task and parked tasks is a deadlock (wait-for state, no timer).  (iii) free-running threads '
        '(switch interval 1 us, sleep(0) injected at the same lines) with the guard lock.  Every next() value / query answer is '
        'compared with L; any exception, shortfall, surplus or reordering is a violation.  Non-trivial = run with >= 2 live '
        'iterators or >= 2 threads; distinct = distinct interleaving signatures (hash of the decision list) per scenario kind.'
        ' Also cached sets over cached member rules; guard locks are installed per distinct original lock object, so a lock that objects share stays shared.')
ASSUMPTIONS = ['statement-granularity schedules over-approximate the switch points CPython\'s GIL allows',
               'L = list(uncached twin) is the reference (C01/C10)',
               'free-running runs only add evidence; their hangs are decided by lock ownership (owner finished or self), a bare watchdog expiry is inconclusive']
MANIFEST = {
    'technique': 'runtime schedule-controlled monitor: baton scheduler on sys.monitoring line events + proxy locks (deadlock from wait-for state), systematic bounded-preemption sweep, PCT/random schedules, single-thread interleaving sweep, free-running stress; history checked against the uncached list',
    'level_text': 'Thousands of distinct interleavings per run of iterators and queries over cached rules and sets are executed '
                  'under a scheduler that controls every statement-level switch point and the cache lock; every observed value is '
                  'checked against the uncached sequence and deadlock is decided logically.  Exploration with a systematic '
                  'bounded-preemption component; not exhaustive over schedules.',
    'level_note': 'Trusts sys.monitoring, CPython threading primitives used by the scheduler itself, and the uncached listing.',
}
PLAN = {'quick': {'shards': 4, 'timeout': 1800, 'budget': 900},
        'thorough': {'shards': 16, 'timeout': 7200, 'budget': 2400}}
LENGTHS = [0, 1, 2, 9, 10, 11, 19, 20, 21, 30]
BASE = D.datetime(2000, 1, 1, 9)


def make(R, kind, n, cache):
    if kind == 'rule':
        return R.rrule(R.DAILY, dtstart=BASE, count=n, cache=cache)
    if kind == 'rule-until':
        return R.rrule(R.HOURLY, dtstart=BASE, interval=6, until=BASE + D.timedelta(hours=6 * (n - 1)) if n else BASE - D.timedelta(1), cache=cache)
    if kind == 'nested':
        # a cached set over cached member rules: filling the set advances the members' own cached iterators
        rs = R.rruleset(cache=cache)
        a = n // 2
        rs.rrule(R.rrule(R.DAILY, dtstart=BASE, count=a, cache=cache))
        rs.rrule(R.rrule(R.DAILY, dtstart=BASE + D.timedelta(hours=12), count=n - a, cache=cache))
        rs.exrule(R.rrule(R.DAILY, dtstart=BASE - D.timedelta(days=3), count=2, cache=cache))
        return rs
    rs = R.rruleset(cache=cache)
    a = n // 2
    rs.rrule(R.rrule(R.DAILY, dtstart=BASE, count=a))
    rs.rrule(R.rrule(R.DAILY, dtstart=BASE + D.timedelta(hours=12), count=n - a))
    rs.exdate(BASE - D.timedelta(days=1))
    return rs


BUDGET = [None]       # the StepBudget in force for single-threaded operations (reset before each one)


def outcome(f):
    if BUDGET[0] is not None:
        BUDGET[0].reset()
    return _outcome(f)


def _outcome(f):
    try:
        return ('ok', f())
    except StopIteration:
        return ('stop',)
    except IndexError:
        return ('IndexError',)
    except locks.SelfDeadlock as e:
        return ('DEADLOCK', str(e))
    except S.Livelock as e:
        return ('LIVELOCK', str(e))
    except BaseException as e:
        return ('exc', '%s: %s' % (type(e).__name__, e))


# ---------------------------------------------------------------------------------------------
# (i) single-threaded interleavings
# ---------------------------------------------------------------------------------------------

class IterTask(object):
    def __init__(self, name, obj):
        self.name, self.it, self.pos, self.done = name, iter(obj), 0, False


def step_iter(ctx, t, L, case):
    r = outcome(lambda: next(t.it))
    ctx.ev()
    exp = ('ok', L[t.pos]) if t.pos < len(L) else ('stop',)
    if r != exp:
        ctx.violation('iterator-diverges', case, 'iterator %s at position %d: got %s, uncached sequence gives %s' % (
            t.name, t.pos, brief(r), brief(exp)))
        t.done = True
        return False
    if r[0] == 'stop':
        t.done = True
    else:
        t.pos += 1
    return True


def brief(r):
    if r[0] == 'ok' and isinstance(r[1], D.datetime):
        return r[1].isoformat()
    if r[0] == 'ok' and isinstance(r[1], list):
        return '[%d items]' % len(r[1])
    return repr(r)


def guard(obj, log=None):
    """replace the cache lock of obj (and of the member rules of a set) by guard locks WITHOUT changing which objects
    share a lock: one guard per distinct original lock object (a lock shared between objects stays shared)"""
    registry = {}

    def g_for(o):
        real = getattr(o, '_cache_lock', None)
        if real is None or isinstance(real, locks.GuardLock):
            return real
        g = registry.get(id(real))
        if g is None:
            g = locks.GuardLock('_cache_lock', log)
            g.original = real                 # keeps the original alive, so its id stays unique
            registry[id(real)] = g
        o._cache_lock = g
        return g
    g = g_for(obj)
    for m in list(getattr(obj, '_rrule', [])) + list(getattr(obj, '_exrule', [])):
        g_for(m)
    if g is None:
        # the object has no lock (yet): nothing to replace; hand back an inert counter so that callers need not care
        g = locks.GuardLock('absent')
    return g


def sweep_two(ctx, R, kind, n):
    """all interleavings of two iterators with at most 2 preemptions"""
    L = list(make(R, kind, n, False))
    for k1 in range(0, len(L) + 2):
        for k2 in sorted(set([0, 1, len(L) // 2, len(L), len(L) + 1] + ([k1] if k1 <= len(L) + 1 else []))):
            obj = make(R, kind, n, True)
            g = guard(obj)
            a, b = IterTask('A', obj), IterTask('B', obj)
            case = {'scenario': 'two-iterators', 'kind': kind, 'n': n, 'k1': k1, 'k2': k2}
            ok = True
            for t, k in ((a, k1), (b, k2), (a, None), (b, None)):
                steps = 0
                while ok and not t.done and (k is None or steps < k):
                    ok = step_iter(ctx, t, L, case)
                    steps += 1
            ctx.distinct('single|%s|%d|%d|%d' % (kind, n, k1, k2))
            ctx.count('single_sweep_runs')
            ctx.count('guard_acquires', g.acquires)


def random_single(ctx, R, rng, kind, n):
    """2-4 iterators (some created after exhaustion) and queries, random interleaving"""
    L = list(make(R, kind, n, False))
    obj = make(R, kind, n, True)
    g = guard(obj)
    tasks = [IterTask('I%d' % i, obj) for i in range(rng.randint(2, 3))]
    script = []
    case = {'scenario': 'random-single', 'kind': kind, 'n': n, 'script': script}
    late = rng.random() < .5
    for _ in range(rng.randint(5, 4 * len(L) + 12)):
        r = rng.random()
        live = [t for t in tasks if not t.done]
        if r < .7 and live:
            t = rng.choice(live)
            script.append('next:' + t.name)
            if not step_iter(ctx, t, L, case):
                break
        elif r < .75 and late and len(tasks) < 4:
            tasks.append(IterTask('I%d' % len(tasks), obj))
            script.append('new-iterator')
        else:
            q = rng.choice(['count', 'list', 'index', 'slice', 'between', 'contains'])
            script.append(q)
            if q == 'count':
                got, exp = outcome(obj.count), ('ok', len(L))
            elif q == 'list':
                got, exp = outcome(lambda: list(obj)), ('ok', L)
            elif q == 'index':
                i = rng.randint(-len(L) - 1, len(L))
                got, exp = outcome(lambda: obj[i]), U.m_getitem(L, i)
            elif q == 'slice':
                sl = U.random_slice(rng, len(L))
                got, exp = outcome(lambda: obj[sl]), ('ok', L[sl])
            elif q == 'between':
                a, b = BASE + D.timedelta(days=rng.randint(-1, 12)), BASE + D.timedelta(days=rng.randint(0, 40))
                got, exp = outcome(lambda: obj.between(a, b, inc=True)), ('ok', U.m_between(L, a, b, True))
            else:
                x = rng.choice(L) if L and rng.random() < .6 else BASE + D.timedelta(days=3, hours=1)
                got, exp = outcome(lambda: x in obj), ('ok', x in L)
            ctx.ev()
            if got != exp:
                ctx.violation('query-diverges', case, '%s: got %s, uncached gives %s' % (q, brief(got), brief(exp)))
                break
    ctx.distinct('single-random|%s|%d|%s' % (kind, n, hash_list(script)))
    ctx.count('single_random_runs')
    ctx.count('guard_acquires', g.acquires)


def boundary_queries(ctx, R):
    """queries whose argument is exactly the last occurrence fetched so far (the 10th, 20th ... member of a partly filled
    cache), asked right after a partial iteration: after / before / between / contains / index around the fill level"""
    for kind in ('rule', 'set'):
        for n in (11, 20, 21, 30):
            L = list(make(R, kind, n, False))
            for consumed in (1, 5, 10, 11, 19, 20):
                if consumed >= n:
                    continue
                for q in ('after', 'after-inc', 'before', 'before-inc', 'between', 'contains', 'index', 'xafter'):
                    obj = make(R, kind, n, True)
                    guard(obj)
                    list(itertools.islice(iter(obj), consumed))
                    fill = len(obj._cache) if obj._cache is not None else consumed
                    for pos in sorted({fill - 1, fill, consumed - 1} & set(range(len(L)))):
                        x = L[pos]
                        nxt = L[pos + 1] if pos + 1 < len(L) else None
                        prv = L[pos - 1] if pos > 0 else None
                        if q == 'after':
                            got, exp = outcome(lambda: obj.after(x)), ('ok', nxt)
                        elif q == 'after-inc':
                            got, exp = outcome(lambda: obj.after(x, inc=True)), ('ok', x)
                        elif q == 'before':
                            got, exp = outcome(lambda: obj.before(x)), ('ok', prv)
                        elif q == 'before-inc':
                            got, exp = outcome(lambda: obj.before(x, inc=True)), ('ok', x)
                        elif q == 'between':
                            got, exp = outcome(lambda: obj.between(x, L[-1], inc=False)), ('ok', L[pos + 1:-1])
                        elif q == 'contains':
                            got, exp = outcome(lambda: x in obj), ('ok', True)
                        elif q == 'index':
                            got, exp = outcome(lambda: obj[pos]), ('ok', x)
                        else:
                            got, exp = outcome(lambda: list(itertools.islice(obj.xafter(x), 2))), ('ok', L[pos + 1:pos + 3])
                        ctx.ev()
                        ctx.count('boundary_queries')
                        ctx.distinct('boundary|%s|%d|%d|%s' % (kind, n, consumed, q))
                        if got != exp:
                            ctx.violation('query-diverges', {'scenario': 'boundary-query', 'kind': kind, 'n': n, 'consumed': consumed, 'query': q, 'position': pos},
                                          '%s at the occurrence in position %d with %d fetched: got %s, uncached gives %s' % (q, pos, fill, brief(got), brief(exp)))


def hash_list(x):
    import hashlib
    return hashlib.sha1(repr(x).encode()).hexdigest()[:12]


# ---------------------------------------------------------------------------------------------
# (ii) scheduled threads
# ---------------------------------------------------------------------------------------------

def switch_codes(R):
    # every method of the recurrence classes that exists in this tree (private helpers may be renamed, inlined or split)
    out = []
    for cls, names in ((R.rrulebase, ('_iter_cached', '__iter__', '__getitem__', 'count', '__contains__', 'between', 'before', 'after', 'xafter')),
                       (R.rrule, ('_iter',)), (R.rruleset, ('_iter',)), (getattr(R.rruleset, '_genitem', None), ('__next__',))):
        for n in names:
            f = getattr(cls, n, None) if cls is not None else None
            c = getattr(f, '__code__', None)
            if c is not None and c not in out:
                out.append(c)
    return out


def worker_ops(rng, L, nworkers):
    ops = []
    for _ in range(nworkers):
        r = rng.random()
        if r < .5:
            ops.append(('list',))
        elif r < .58:
            ops.append(('partial', rng.randint(0, len(L) + 1)))
        elif r < .65:
            ops.append(('partial-hold', rng.randint(0, len(L) + 1)))
        elif r < .75:
            ops.append(('count',))
        elif r < .85:
            ops.append(('index', rng.randint(-len(L) - 1, len(L))))
        elif r < .93:
            ops.append(('contains', rng.randint(0, max(0, len(L)))))
        else:
            ops.append(('two-iterators',))
    return ops


HELD = []


def op_callable(obj, op, L):
    k = op[0]
    if k == 'list':
        return lambda: list(obj)
    if k == 'partial':
        return lambda: list(itertools.islice(iter(obj), op[1]))
    if k == 'partial-hold':
        # takes op[1] items and keeps the suspended iterator alive until the scenario is over
        def g():
            it = iter(obj)
            HELD.append(it)
            return list(itertools.islice(it, op[1]))
        return g
    if k == 'count':
        return obj.count
    if k == 'index':
        return lambda: obj[op[1]]
    if k == 'contains':
        x = L[op[1]] if op[1] < len(L) else BASE - D.timedelta(days=5)
        return lambda: x in obj
    if k == 'two-iterators':
        def f():
            a, b = iter(obj), iter(obj)
            out = []
            for x, y in itertools.zip_longest(a, b):
                out.append((x, y))
            return out
        return f
    raise KeyError(k)


def op_expected(op, L):
    k = op[0]
    if k == 'list':
        return ('ok', L)
    if k in ('partial', 'partial-hold'):
        return ('ok', L[:op[1]])
    if k == 'count':
        return ('ok', len(L))
    if k == 'index':
        try:
            return ('ok', L[op[1]])
        except IndexError:
            return ('exc', 'IndexError', '')
    if k == 'contains':
        return ('ok', op[1] < len(L))
    if k == 'two-iterators':
        return ('ok', [(x, x) for x in L])
    raise KeyError(k)


def scheduled_run(ctx, R, codes, kind, n, ops, policy, label, sigs):
    L = list(make(R, kind, n, False))
    obj = make(R, kind, n, True)
    s = S.Sched(policy, codes, max_steps=60000)
    lock = S.ProxyLock(s, '_cache_lock')
    obj._cache_lock = lock
    s.install()
    del HELD[:]
    try:
        results, completed = s.run([op_callable(obj, op, L) for op in ops])
    finally:
        s.uninstall()
    held_lock = lock.locked() and not s.deadlock and completed and not s.aborted
    suspended = len(HELD)
    del HELD[:]
    ctx.ev()
    case = {'scenario': 'scheduled', 'kind': kind, 'n': n, 'ops': [list(o) for o in ops], 'policy': label,
            'schedule': [(a, b, str(c), d) for a, b, c, d in s.trace][:400]}
    sig = s.signature()
    sigs.add('%s|%d|%s|%s' % (kind, n, repr(ops), sig))
    ctx.distinct('sched|%s|%d|%s|%s' % (kind, n, hash_list(ops), sig))
    ctx.count('scheduled_runs')
    ctx.count('scheduled_switches', len(s.trace))
    ctx.count('lock_events', len(lock.events))
    if any(e[0] == 'wait' for e in lock.events):
        ctx.count('runs_with_lock_contention')
    if not completed:
        ctx.inconclusive_because('scheduler did not complete a run (harness problem)')
        return
    if s.aborted:
        ctx.count('step_budget_aborts')
        return
    if s.deadlock:
        ctx.violation('deadlock', case, 'no runnable task: %r; lock events tail %r' % (s.deadlock, lock.events[-6:]))
        return
    if suspended:
        ctx.count('runs_with_suspended_iterators')
    if held_lock:
        # every task has finished; an iterator that is merely suspended between two next() calls must not own the lock
        # (any other consumer reaching the end of the cache would block until that iterator is driven on or dropped)
        ctx.violation('lock-held-at-quiescence', case, 'all tasks finished, %d iterator(s) suspended, cache lock still owned; lock events tail %r' % (
            suspended, lock.events[-6:]))
        return
    for i, op in enumerate(ops):
        got = results.get('T%d' % i)
        exp = op_expected(op, L)
        if got is None:
            ctx.violation('worker-missing', case, 'T%d produced no result' % i)
        elif got[0] == 'exc':
            if not (exp[0] == 'exc' and got[1] == exp[1]):
                ctx.violation('worker-exception', case, 'T%d %r raised %s: %s' % (i, op, got[1], got[2]))
        elif got != exp:
            ctx.violation('worker-diverges', case, 'T%d %r: got %s, uncached gives %s' % (i, op, brief(got), brief(exp)))


def count_steps(R, codes, kind, n, ops):
    """steps of the non-preemptive schedule (used to bound the systematic sweep)"""
    L = list(make(R, kind, n, False))
    obj = make(R, kind, n, True)
    s = S.Sched(S.PlanPolicy({}), codes)
    obj._cache_lock = S.ProxyLock(s, '_cache_lock')
    s.install()
    try:
        s.run([op_callable(obj, op, L) for op in ops])
    finally:
        s.uninstall()
    return s.steps


# ---------------------------------------------------------------------------------------------
# (iii) free-running threads
# ---------------------------------------------------------------------------------------------

def free_running(ctx, R, rng, kind, n, nthreads, rounds, native=False):
    """native=True leaves the object's own lock in place (the way the lock comes into being is then part of what the
    threads race on); otherwise the lock is a guard lock whose ownership decides a hang"""
    L = list(make(R, kind, n, False))
    for _ in range(rounds):
        obj = make(R, kind, n, True)
        g = locks.GuardLock('unused') if native else guard(obj)
        ctx.count('free_running_native_rounds' if native else 'free_running_guarded_rounds')
        out = [None] * nthreads
        barrier = threading.Barrier(nthreads)

        def w(i):
            barrier.wait()
            out[i] = outcome(lambda: list(obj))
        ths = [threading.Thread(target=w, args=(i,), daemon=True) for i in range(nthreads)]
        [t.start() for t in ths]
        [t.join(timeout=20) for t in ths]
        ctx.ev()
        ctx.count('free_running_rounds')
        case = {'scenario': 'free-running', 'kind': kind, 'n': n, 'threads': nthreads}
        if any(t.is_alive() for t in ths):
            # decide from lock ownership: a lock that is held although its owner has finished can never be released
            owner = g.owner
            alive = {t.ident for t in ths if t.is_alive()}
            if g.locked() and owner not in alive:
                ctx.violation('deadlock', case, 'cache lock still held by a finished thread while %d workers wait' % len(alive))
                g._real.release()
            else:
                ctx.inconclusive_because('free-running round did not finish within the watchdog')
            return
        for i, r in enumerate(out):
            if r != ('ok', L):
                ctx.violation('worker-diverges', case, 'thread %d: %s, uncached gives %d items' % (i, brief(r), len(L)))
                return


def run(ctx):
    from dateutil import rrule as R
    rng = ctx.rng
    codes = switch_codes(R)
    sigs = set()
    # (i) systematic single-thread sweep on every length (sharded by length); one operation = at most 200 000 source lines
    budget = S.StepBudget(codes, 200000)
    budget.__enter__()
    BUDGET[0] = budget
    for idx, n in enumerate(LENGTHS):
        for kind in ('rule', 'set'):
            if (idx + (0 if kind == 'rule' else 1)) % ctx.nshards != ctx.shard:
                continue
            if ctx.tier == 'quick' and n == 30 and kind == 'set':
                continue
            sweep_two(ctx, R, kind, n)
    if ctx.shard == 0:
        for n in (2, 11, 20):
            sweep_two(ctx, R, 'nested', n)
            ctx.count('nested_sweeps')
    if ctx.shard == 0:
        boundary_queries(ctx, R)
    for _ in range(150 if ctx.tier == 'quick' else 2500):
        random_single(ctx, R, rng, rng.choice(['rule', 'set', 'rule-until', 'nested']), rng.choice(LENGTHS))
    BUDGET[0] = None
    budget.__exit__()
    # (ii) scheduled threads
    sys.setswitchinterval(0.005)
    rounds = 0
    # systematic: every single preemption (and, thorough, every pair) on short scenarios
    for kind, n, ops in (('rule', 11, [('list',), ('list',)]), ('rule', 10, [('list',), ('count',)]), ('set', 2, [('list',), ('list',)]),
                         ('rule', 1, [('list',), ('list',), ('list',)]), ('rule', 20, [('partial', 11), ('list',)]),
                         ('rule', 11, [('two-iterators',), ('list',)]), ('rule', 11, [('partial-hold', 11), ('list',)])):
        if (hash_list([kind, n, ops]) and (LENGTHS.index(n) if n in LENGTHS else 0)) % ctx.nshards != ctx.shard and ctx.nshards > 1:
            pass
        K = count_steps(R, codes, kind, n, ops)
        ctx.count('systematic_yield_points', K)
        targets = ['T%d' % i for i in range(len(ops))]
        steps = list(range(1, K + 1))
        mine = [k for k in steps if k % ctx.nshards == ctx.shard]
        for k in mine:
            for t in targets:
                scheduled_run(ctx, R, codes, kind, n, ops, S.PlanPolicy({k: t}), 'plan1', sigs)
                ctx.count('systematic_runs')
            if not ctx.time_left():
                break
        if ctx.tier == 'thorough' and K <= 120:
            for k1 in mine:
                for k2 in range(k1 + 1, K + 1, 3):
                    for t1 in targets:
                        for t2 in targets:
                            scheduled_run(ctx, R, codes, kind, n, ops, S.PlanPolicy({k1: t1, k2: t2}), 'plan2', sigs)
                            ctx.count('systematic_runs_2')
                if not ctx.time_left():
                    break
    while ctx.time_left() and rounds < (400 if ctx.tier == 'quick' else 20000):
        rounds += 1
        kind = rng.choice(['rule', 'rule', 'set', 'rule-until'])
        n = rng.choice(LENGTHS)
        L = list(make(R, kind, n, False))
        ops = worker_ops(rng, L, rng.randint(2, 4))
        if rng.random() < .5:
            pol, label = S.RandomPolicy(rng, rng.choice([.05, .15, .4])), 'random'
        else:
            pol, label = S.PCTPolicy(rng, len(ops), depth=rng.randint(1, 3), horizon=300), 'pct'
        scheduled_run(ctx, R, codes, kind, n, ops, pol, label, sigs)
    ctx.count('distinct_interleavings', len(sigs))
    # (iii) free-running
    sys.setswitchinterval(1e-6)
    try:
        with S.YieldInjector(codes, prob=.35, seed=ctx.seed) as inj:
            for k in range(6 if ctx.tier == 'quick' else 80):
                free_running(ctx, R, rng, rng.choice(['rule', 'set', 'nested']), rng.choice([10, 11, 21, 30]), rng.randint(2, 6), 10, native=bool(k % 2))
            ctx.count('injected_yields', inj.yields)
    finally:
        sys.setswitchinterval(0.005)
    ctx.sample({'scenario': 'scheduled', 'distinct_interleavings_this_shard': len(sigs)})
    ctx.sample({'scenario': 'two-iterators sweep', 'lengths': LENGTHS})


def floors(agg, tier):
    c, out = agg['counters'], []
    for k, n in (('single_sweep_runs', 800 if tier == 'quick' else 1500), ('single_random_runs', 400), ('scheduled_runs', 800 if tier == 'quick' else 20000),
                 ('systematic_runs', 300), ('runs_with_lock_contention', 50), ('runs_with_suspended_iterators', 40), ('boundary_queries', 500), ('free_running_rounds', 60), ('guard_acquires', 1000),
                 ('distinct_interleavings', 500 if tier == 'quick' else 10000)):
        if c.get(k, 0) < n:
            out.append('%s only %d (< %d)' % (k, c.get(k, 0), n))
    if c.get('step_budget_aborts', 0) > c.get('scheduled_runs', 1) * 0.02:
        out.append('too many step-budget aborts: %d' % c.get('step_budget_aborts', 0))
    return out


def replay(ctx, case):
    from dateutil import rrule as R
    import random
    sc = case.get('scenario')
    if sc == 'boundary-query':
        boundary_queries(ctx, R)
    elif sc == 'two-iterators':
        L = list(make(R, case['kind'], case['n'], False))
        obj = make(R, case['kind'], case['n'], True)
        guard(obj)
        a, b = IterTask('A', obj), IterTask('B', obj)
        ok = True
        for t, k in ((a, case['k1']), (b, case['k2']), (a, None), (b, None)):
            steps = 0
            while ok and not t.done and (k is None or steps < k):
                ok = step_iter(ctx, t, L, case)
                steps += 1
    elif sc == 'scheduled':
        # re-execute the recorded decisions as a plan
        plan = {}
        for st, frm, where, to in case.get('schedule', []):
            if not str(where).startswith('BLOCK') and where != 'END':
                plan[st] = to
        scheduled_run(ctx, R, switch_codes(R), case['kind'], case['n'], [tuple(o) for o in case['ops']], S.PlanPolicy(plan), 'replay', set())
    else:
        random_single(ctx, R, random.Random(0), case.get('kind', 'rule'), case.get('n', 10))
