"""C20 - isoparse never misreads: accepted text is an ISO-8601 spelling of the result."""
import io

from vf import mon_iso, render_iso
from vf.oracles import iso_ref

PROPERTY = 'C20'
LEVEL = 'exploration'
RULE = ('Seed corpus: valid ISO-8601 strings of every supported form produced by an independent renderer (3 date systems x '
        'basic/extended x reduced precision x 4 time precisions x 1-9 fraction digits x ./, x separators x offset forms, '
        '24:00) plus date-only, time-only and offset-only texts.  Each seed is mutated by 0-2 edits (substitute / insert / '
        'delete / transpose / duplicate over digits, "-:+.,TWZ", space, tab, "_", letters, NUL, non-ASCII digits and '
        'letters, Unicode minus) and fed, as str / bytes / text stream, to the four entry points (isoparse with sep None / '
        '"T" / " " and through the module-level alias, parse_isodate, parse_isotime, parse_tzstr); arbitrary short strings '
        'over the same alphabet are added.  A monitor on the entry points evaluates soundness on every call: an accepted '
        'value must be one of the denotations computed by the independent strict recogniser iso_ref, a text with no '
        'denotation must raise ValueError, and no other exception type may escape.  Non-trivial = mutated or random text '
        '(0-edit seeds only count when accepted); distinct = (entry, sep, input type, seed form, edit-kind multiset, '
        'outcome class).')
ASSUMPTIONS = ['vf/oracles/iso_ref.py is the definition of "well-formed ISO-8601 in a supported form" (strict digits/widths/'
               'ranges/consistency; liberal only on mixed basic/extended date vs time, any single separator character, '
               'lower-case z, -00:00)', 'well-formed but unrepresentable values (9999-12-31T24:00) are don\'t-cares']
MANIFEST = {
    'technique': 'runtime monitor on the isoparser entry points with an independent strict ISO-8601 recogniser as soundness oracle, driven by mutation fuzzing of rendered valid strings',
    'level_text': 'Every call of the four entry points is observed at the client boundary and judged by an independent '
                  'recogniser; the workload is a mutation fuzzer around valid renderings of every form, so the inputs sit '
                  'exactly where a lax field conversion would accept garbage.  Exploration: held on the strings observed.',
    'level_note': 'Trusts iso_ref (self-tested against datetime.fromisoformat / fromisocalendar in every run).  Soundness only: '
                  'valid-but-rejected text is C07\'s subject and is merely counted here.',
}
PLAN = {'quick': {'shards': 2, 'timeout': 1800, 'budget': 900},
        'thorough': {'shards': 16, 'timeout': 7200, 'budget': 2400}}
N_CASES = {'quick': 40000, 'thorough': 400000}

ALPHA_COMMON = '0123456789' * 3 + '-:+.,TWZ' * 2 + ' \t_tzwx/'
ALPHA_RARE = ['\\', ';', '!', '(', ')', '*', '=', '?', '@', '[', ']', '^', '|', '~', '"', "'", '#', '%', '&', '<', '>', '`', '{', '}', '$',
              '\x00', '\n', 'e', 'E', 'a', 'Q', '٣', '２', 'é', '−', '²', '٠', '+', '-',
              '00', '-0', '+1', ' 7', '1 ', '1_', '_1', '٣', '\xa0']


def mutate(rng, s, nedits):
    kinds = []
    for _ in range(nedits):
        op = rng.choice(['sub', 'sub', 'ins', 'ins', 'del', 'swap', 'dup'])
        ch = rng.choice(ALPHA_COMMON) if rng.random() < .8 else rng.choice(ALPHA_RARE)
        if not s:
            s = ch
            kinds.append('ins')
            continue
        i = rng.randrange(len(s) + (1 if op == 'ins' else 0))
        if op == 'sub':
            s = s[:i] + ch + s[i + 1:]
        elif op == 'ins':
            s = s[:i] + ch + s[i:]
        elif op == 'del':
            s = s[:i] + s[i + 1:]
        elif op == 'swap' and len(s) > 1:
            i = min(i, len(s) - 2)
            s = s[:i] + s[i + 1] + s[i] + s[i + 2:]
        else:
            s = s[:i] + s[i] + s[i:]
        kinds.append(op + ('*' if ord(ch[0]) > 127 or ch in ('\x00',) else ''))
    return s, kinds


def seed_text(rng):
    """-> (entry, form label, text)"""
    r = rng.random()
    dt = render_iso.random_datetime(rng)
    if r < .55:
        spec = render_iso.random_spec(rng)
        text, _, _ = render_iso.render(dt, spec)
        return 'isoparse', '%s%s/%s' % (spec['date'], 'x' if spec['dext'] else 'b', spec['prec']), text
    if r < .7:
        form = rng.choice(['Y', 'Y-M', 'Yw', 'cal', 'week', 'ord'])
        ext = rng.random() < .6
        if form == 'Y':
            text = '%04d' % dt.year
        elif form == 'Y-M':
            text = '%04d-%02d' % (dt.year, dt.month)
        elif form == 'Yw':
            y, w, _ = dt.isocalendar()
            text = '%04d%sW%02d' % (y, '-' if ext else '', w)
        else:
            text = render_iso.render_date(dt.date(), form, ext)
        return rng.choice(['isoparse', 'parse_isodate']), 'date:' + form, text
    if r < .88:
        spec = render_iso.random_spec(rng, date_only_ok=False)
        text, _, _ = render_iso.render_time(dt.time(), spec)
        return 'parse_isotime', 'time:' + spec['prec'], text
    spec = render_iso.random_spec(rng, date_only_ok=False)
    off = spec['off'] or ('Z', 0)
    return 'parse_tzstr', 'tz:' + off[0], render_iso.render_offset(*off)


def random_text(rng):
    n = rng.choice([0, 1, 2, 3, 4, 4, 5, 6, 7, 8, 8, 10, 12, 16, 20])
    return ''.join(rng.choice(ALPHA_COMMON) if rng.random() < .93 else rng.choice(ALPHA_RARE) for _ in range(n))


class Handler(object):
    def __init__(self, ctx):
        self.ctx = ctx
        self.current = None        # (form, kinds) of the case being driven

    def __call__(self, entry, sep, text, kind, out, kwargs):
        ctx = self.ctx
        if entry == '__monitor_error__':
            ctx.count('monitor_internal_error')
            ctx.violation('monitor-internal-error', {'detail': text}, text)
            return
        ctx.hit(entry)
        ctx.ev()
        form, kinds = self.current or ('?', [])
        verdict = mon_iso.soundness(entry, sep, text, out)
        case = {'entry': entry, 'sep': sep, 'text': text, 'input_type': kind, 'seed_form': form, 'edits': kinds}
        if isinstance(text, (str, bytes)):
            den = bool(mon_iso.denotations(entry, sep, text))
        else:
            den = False
        oc = {'ok': 'accepted', 'valueerror': 'rejected', 'exc': 'exception'}[out[0]] + ('-valid' if den else '-malformed')
        ctx.count('outcome_' + oc)
        if verdict is not None:
            ctx.violation(verdict[0], case, verdict[1])
        if kinds or oc == 'accepted-valid':
            ctx.distinct('%s|%s|%s|%s|%s|%s' % (entry, sep, kind, form, ','.join(sorted(kinds)), oc))
        if kinds and oc == 'accepted-valid':
            ctx.count('accepted_after_edit')
            ctx.sample({'entry': entry, 'sep': sep, 'text': text, 'edits': kinds, 'outcome': repr(out[1])})
        elif oc == 'rejected-malformed' and ctx.evaluations % 997 == 0:
            ctx.sample({'entry': entry, 'sep': sep, 'text': text, 'edits': kinds, 'outcome': 'ValueError'})


def drive(ctx, handler, parsers, module_isoparse, rng, entry, form, text, kinds):
    handler.current = (form, kinds)
    r = rng.random()
    arg = text
    if r < .15:
        try:
            arg = text.encode('utf-8')
        except UnicodeEncodeError:
            arg = text
    elif r < .22:
        arg = io.StringIO(text)
    sep = rng.choice([None, None, 'T', ' ']) if rng.random() < .8 else rng.choice([k for k in parsers if k not in (None, 'T', ' ')] or [None])
    p = parsers[sep]
    try:
        if entry == 'isoparse':
            if sep is None and rng.random() < .3:
                module_isoparse(arg)
                ctx.count('via_module_alias')
            else:
                p.isoparse(arg)
        elif entry == 'parse_isodate':
            p.parse_isodate(arg)
        elif entry == 'parse_isotime':
            p.parse_isotime(arg)
        else:
            if rng.random() < .3:
                p.parse_tzstr(arg, zero_as_utc=rng.random() < .5)
            else:
                p.parse_tzstr(arg)
    except Exception:
        pass         # the monitor has already judged the outcome
    handler.current = None


def run(ctx):
    _repo_tests(ctx)
    if not iso_ref.selftest():
        ctx.inconclusive_because('iso_ref self-test failed')
        return
    import dateutil.parser as P
    handler = Handler(ctx)
    uninstall = mon_iso.install(handler)
    try:
        parsers = {None: P.isoparser(), 'T': P.isoparser(sep='T'), ' ': P.isoparser(sep=' ')}
        # separators that also occur inside dates, times and offsets: only the character directly after the date counts
        for ch in ':-+.,ZzWx/_':
            parsers[ch] = P.isoparser(sep=ch)
        rng = ctx.rng
        for i in range(N_CASES[ctx.tier]):
            if i % 1000 == 0 and not ctx.time_left():
                ctx.count('stopped_by_time_budget')
                break
            r = rng.random()
            if r < .12:
                text = random_text(rng)
                entry = rng.choice(['isoparse', 'isoparse', 'parse_isodate', 'parse_isotime', 'parse_tzstr'])
                drive(ctx, handler, parsers, P.isoparse, rng, entry, 'random', text, ['random'])
                continue
            entry, form, text = seed_text(rng)
            nedits = rng.choice([0, 1, 1, 1, 2, 2])
            text, kinds = mutate(rng, text, nedits)
            if rng.random() < .1:
                entry = rng.choice(['isoparse', 'parse_isodate', 'parse_isotime', 'parse_tzstr'])
            drive(ctx, handler, parsers, P.isoparse, rng, entry, form, text, kinds)
        directed(ctx, handler, parsers, P)
    finally:
        uninstall()


DIRECTED = ['2_14', '+204-034', '2014- 7', '2003-09-25T1 ', '2014-01-01T10:00+01-0', '2000356 20', '4114-06-09 -2226',
            '2014-06-09T+01:00', '2014-06-09TZ', '2014-06-09T10Z', '2014-W53-1', '2015-W53-1', '9999-W53-1', '9999-W52-7',
            '0001-W01-1', '9999-365', '9999-12-31T24:00', '9999-12-31T23:59:59.9999999', '0000-01-01', '2014-02-29',
            '2016-02-29', '2014-00-10', '2014-10-00', '2014-1-10', '2014-10-1', '20141', '201410', '2014-W1', '2014-W01-',
            '2014-W01-0', '2014-W01-8', '2014W011', '2014W01-1', '2014-W011', '2014-001', '2014-000', '2014-366', '2016-366',
            '2014366', '2014-02-04T10:30:45.', '2014-02-04T10:30:45,', '2014-02-04T10:30:45.1.2', '2014-02-04T10.5',
            '2014-02-04T10:30.5', '2014-02-04T1030.5', '2014-02-04T103045.5', '2014-02-04T24', '2014-02-04T24:00:00.0',
            '2014-02-04T24:00:00.1', '2014-02-04T24:01', '2014-02-04T23:60', '2014-02-04T23:59:60', '2014-02-04T10:30+00',
            '2014-02-04T10:30-00:00', '2014-02-04T10:30+23:59', '2014-02-04T10:30-23:59', '2014-02-04T10:30+24:00',
            '2014-02-04T10:30+12:60', '2014-02-04T10:30+1', '2014-02-04T10:30+123', '2014-02-04T10:30+12345',
            '2014-02-04T10:30+12:3', '2014-02-04T10:30 +01:00', '2014-02-04T10:30Z+01', '2014-02-04T10:30ZZ',
            '2014-02-04T10:30z', '2014-02-04T', '2014-02-04TT10', '2014-02-04  10', u'2014-02-04T10:30é',
            u'２０１４-02-04', u'2014-02-04T1٠:30', u'2014−02−04', '', ' ', '2014 ', ' 2014',
            '20 14', '+2014', '-2014', '2014-+2-04', '2014-02-+4', '2014-02-04T+1:30', '2014-02-04T10:+3', '1e10', '0x14',
            '2014-02-04T10:30:45.123456789123456789', '2014-02-04T10:30:45,000000000000000000001',
            # day 366 of century years that are not leap years
            '1900-366', '2100366', '1700-366', '1800366', '1900-366T12:30', '2100-366T00:00Z', '2200-366',
            # offsets at and beyond a whole day, both signs, all three widths
            '2014-02-04T10:30-24:00', '2014-02-04T10:30-2400', '2014-02-04T10:30-24', '2014-02-04T10:30+2400', '2014-02-04T10:30+24',
            '2014-02-04T10:30-24:01', '2014-02-04T10:30-25', '2014-02-04T10:30+99:59', '2014-02-04T10:30-23:60', '10:30-24:00', '1030-24']


def directed(ctx, handler, parsers, P):
    # characters U+0080..U+00FF (and other non-ASCII) exactly in the separator position of otherwise valid texts
    import random
    r = random.Random(ctx.seed)
    for _ in range(60):
        dt = render_iso.random_datetime(r)
        spec = render_iso.random_spec(r, date_only_ok=False)
        for ch in ('\xa0', '\xe9', '\xb7', '\xff', '\x80', '\u2028', '\u0660', '\uff34'):
            text, _, _ = render_iso.render(dt, dict(spec, sep=ch))
            handler.current = ('sep-nonascii', ['sep*'])
            for p in (parsers[None], P):
                try:
                    p.isoparse(text)
                except Exception:
                    pass
            ctx.count('directed_nonascii_separator')
    for text in DIRECTED:
        for sep in (None, 'T', ' '):
            handler.current = ('directed', ['directed'])
            try:
                parsers[sep].isoparse(text)
            except Exception:
                pass
            ctx.count('directed')
        for entry in ('parse_isodate', 'parse_isotime', 'parse_tzstr'):
            for piece in {text, text.split('T')[-1], text.split('T')[0], text[-6:], text[-5:], text[-3:]}:
                handler.current = ('directed', ['directed'])
                try:
                    getattr(parsers[None], entry)(piece)
                except Exception:
                    pass
    # every printable ASCII character substituted at (and inserted before) every position of canonical texts of each
    # form: the monitor decides from the recogniser whether the result still has an ISO reading
    import string
    canon = ['2014-02-04T12:30:45.123456+05:30', '20140204T123045,5Z', '2014-W06-2T12:30', '2014W062 1230-0500', '2014-035T12:30:45', '2014035',
             '2014-02', '12:30:45.5', '123045,25', '+05:30', '-0500', 'Z', '2014-02-04 24:00']
    chars = string.punctuation + string.ascii_letters[::4] + ' \t'
    for k, text in enumerate(canon):
        if k % ctx.nshards != ctx.shard:
            continue
        entries = ['isoparse'] if len(text) > 10 or text.startswith('2014') else ['parse_isotime', 'parse_tzstr', 'isoparse']
        for i in range(len(text) + 1):
            for ch in chars:
                for new in ((text[:i] + ch + text[i + 1:]) if i < len(text) else None, text[:i] + ch + text[i:]):
                    if new is None:
                        continue
                    handler.current = ('ascii-sweep', ['sub' if len(new) == len(text) else 'ins'])
                    for entry in entries:
                        try:
                            getattr(parsers[None], entry)(new)
                        except Exception:
                            pass
                    if text.startswith('2014') and len(text) <= 10:
                        try:
                            parsers[None].parse_isodate(new)
                        except Exception:
                            pass
                    ctx.count('ascii_sweep_texts')
    # constructor: the configured separator must be a single non-numeric ASCII character
    for sep in ('', 'TT', '1', u'é', '−'):
        ctx.ev()
        ctx.count('bad_sep_constructor')
        try:
            P.isoparser(sep=sep)
        except ValueError:
            continue
        except Exception as e:
            ctx.violation('sep-constructor-wrong-exception', {'sep': sep}, repr(e))
        else:
            ctx.violation('sep-constructor-accepted', {'sep': sep}, 'isoparser(sep=%r) accepted' % (sep,))
    handler.current = None


def _repo_tests(ctx):
    # thorough tier: the repository's own tests as one more workload under the same monitors
    if ctx.tier == 'thorough' and ctx.shard == 0:
        from vf import repo_tests
        repo_tests.run_under_monitors(ctx, ['iso'], 'C20')


def floors(agg, tier):
    c, h, out = agg['counters'], agg['hits'], []
    need = {'quick': 60000, 'thorough': 600000}[tier]
    if agg['evaluations'] < need:
        out.append('only %d monitored calls (< %d)' % (agg['evaluations'], need))
    for e in mon_iso.ENTRIES:
        if h.get(e, 0) < need // 40:
            out.append('entry point %s reached only %d times' % (e, h.get(e, 0)))
    if c.get('via_module_alias', 0) < 100:
        out.append('module-level isoparse alias driven only %d times' % c.get('via_module_alias', 0))
    if c.get('accepted_after_edit', 0) < 200:
        out.append('only %d mutated texts were accepted (the oracle\'s accepting side was hardly exercised)' % c.get('accepted_after_edit', 0))
    if c.get('outcome_rejected-malformed', 0) < need // 4:
        out.append('only %d malformed texts were rejected' % c.get('outcome_rejected-malformed', 0))
    if len(agg['distinct']) < 2000:
        out.append('only %d distinct non-trivial classes' % len(agg['distinct']))
    if c.get('monitor_internal_error'):
        out.append('monitor internal errors')
    return out


def replay(ctx, case):
    import dateutil.parser as P
    handler = Handler(ctx)
    uninstall = mon_iso.install(handler)
    try:
        if 'entry' not in case:
            return
        text = case['text']
        if isinstance(text, dict) and '__bytes__' in text:
            text = text['__bytes__'].encode('latin-1')
        p = P.isoparser(sep=case.get('sep'))
        handler.current = (case.get('seed_form', '?'), case.get('edits', []))
        try:
            getattr(p, case['entry'])(text)
        except Exception:
            pass
    finally:
        uninstall()
