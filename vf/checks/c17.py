"""C17 - iCalendar VTIMEZONE zones agree with the same rules given as a TZ string."""
import datetime as D
import io

from vf import tz_sched, tzmodels as TM, tzzoo
from vf.checks import c05, c08
from vf.oracles import posix_tz_ref as PZ

PROPERTY = 'C17'
LEVEL = 'exploration'
RULE = ('Random POSIX rule triples expressible as yearly recurrence rules (both rules Mm.w.d, transition times < 24 h; either '
        'hemisphere, :30 / :45 offsets, 30 m / 1 h / 2 h savings) are rendered by an independent VTIMEZONE writer with STANDARD / '
        'DAYLIGHT in either order, optional line folding at 20-60 characters, "RRULE:FREQ=YEARLY;BYMONTH;BYDAY" or explicit RDATE '
        'lists, one or several zones per file.  The zone returned by tzical().get() is compared, from its first onset on, with '
        'the POSIX evaluator, with the tzrange built from the same triple and with tzstr of the rendered string (outside the K3 '
        'domain): offset, abbreviation and dst() at every transition of three years +- {1 s, 30 m, 1 h, 2 h, 1 d} and on a grid, '
        'visited in random order and re-queried so that the 10-entry component cache sees > 10 distinct (wall, fold) keys, evictions '
        'and hits; wall times across every gap and fold are classified as in C05 (exists / ambiguous / fold / resolve_imaginary); '
        'before the first onset the first STANDARD component must apply.  TZID addressing (get(name), get() with one / several '
        'zones, keys()), and malformed definitions (missing TZID, DTSTART, TZOFFSETFROM / TZOFFSETTO, unknown component or '
        'property, unclosed component, parameters on offsets, empty input) -> ValueError.  The zone\'s locked cache is also driven '
        'under the baton scheduler.  Non-trivial = instant within 2 h of a transition or a cache re-query; distinct = (triple '
        'class, component order, folding, rule form, probe offset).'
        ' Also: one-off components in both textual orders (before the first onset the textually first STANDARD applies), first-year probes (DTSTART is an onset), sub-minute offsets, single-component definitions, every required line deleted in turn (alone / as second zone, RRULE / RDATE variants), and a fold inserted at every position of every line (a tab marker may be rejected with ValueError).')
ASSUMPTIONS = ['POSIX evaluator (validated against glibc in C08)', 'VTIMEZONE writer in vf/tzzoo.py',
               'truth is claimed from one year after the first onset on (both components have started)']
MANIFEST = {
    'technique': 'runtime differential monitor: real tzical zones vs an independent POSIX evaluator and the sibling tzrange/tzstr objects, with cache-stressing query orders and schedule-controlled concurrent queries',
    'level_text': 'Hundreds of rule triples per run rendered as VTIMEZONE text in varying shapes, each probed on every transition '
                  'neighbourhood of three years in cache-hostile orders, classified on gaps/folds, and queried concurrently under '
                  'a controlled scheduler.  Exploration level.',
    'level_note': 'Trusts the POSIX evaluator, the VTIMEZONE writer and CPython datetime.',
}
PLAN = {'quick': {'shards': 4, 'timeout': 1800, 'budget': 900},
        'thorough': {'shards': 16, 'timeout': 7200, 'budget': 2400}}
N_TRIPLES = {'quick': 14, 'thorough': 250}


def gen_m_triple(rng):
    for _ in range(200):
        pz = tzzoo.gen_posix(rng)
        if pz.start[0] == 'M' and pz.end[0] == 'M' and pz.stime < 86400 and pz.etime < 86400:
            return pz
    raise RuntimeError('no M-form triple')


def answers_at(z, u, UTC):
    l = u.replace(tzinfo=UTC).astimezone(z)
    return (int((l.replace(tzinfo=None) - u).total_seconds()), int(l.utcoffset().total_seconds()), l.tzname(), l.dst(), l.fold)


def check_zone_vs_model(ctx, tz, label, z, pz, rng, siblings, shape):
    UTC = tz.UTC
    pts = c08.instants(pz)
    rng.shuffle(pts)
    # re-query a third of the instants later (cache hits after evictions)
    pts = pts + rng.sample(pts, len(pts) // 3)
    nbad = 0
    saving = D.timedelta(seconds=pz.dstoff - pz.stdoff)
    for u, d in pts:
        exp = pz.at(u)
        ctx.ev()
        case = {'zone': label, 'utc': u.isoformat(), 'delta': d, 'shape': shape}
        try:
            got = answers_at(z, u, UTC)
        except Exception as e:
            ctx.violation('conversion-raised', case, '%s: %s' % (type(e).__name__, e))
            continue
        bad = []
        if got[0] != exp[0] or got[1] != exp[0]:
            bad.append('offset %d / converted %d, rules say %d' % (got[1], got[0], exp[0]))
        if got[2] != exp[1]:
            bad.append('abbreviation %r, rules say %r' % (got[2], exp[1]))
        if got[3] != (saving if exp[2] else D.timedelta(0)):
            bad.append('dst() %r, rules say %r' % (got[3], saving if exp[2] else D.timedelta(0)))
        if got[4] == 1 and not tz.datetime_ambiguous(u + D.timedelta(seconds=got[0]), z):
            bad.append('converted with fold=1 to a wall time that datetime_ambiguous() calls unambiguous')
        for sname, sz in siblings:
            try:
                sg = answers_at(sz, u, UTC)
            except Exception as e:
                sg = ('exc', repr(e))
            if sg[:4] != got[:4] or sg[4] != got[4]:
                bad.append('%s answers %r, tzical %r' % (sname, sg, got))
        if bad:
            nbad += 1
            if nbad <= 2:
                ctx.violation('vtimezone-semantics', case, '; '.join(bad))
        if d != 'grid' and abs(d) <= 7200:
            ctx.distinct('%s|%s|%d|%s' % (shape, (pz.stime, pz.etime, pz.dstoff - pz.stdoff), d, 'N' if pz.transitions(2020)[0] < pz.transitions(2020)[1] else 'S'))
    ctx.count('zones_checked')
    ctx.count('queries', len(pts))


def check_last_year(ctx, tz, label, z, pz):
    """yearly rules keep producing onsets up to and including year 9999"""
    s, e = pz.transitions(9999)
    for u in (min(s, e) + D.timedelta(days=10), max(s, e) - D.timedelta(days=10), max(s, e) + D.timedelta(days=5), D.datetime(9999, 1, 10, 12)):
        if u.year != 9999 or u > D.datetime(9999, 12, 30):
            continue
        exp = pz.at(u)
        ctx.ev()
        ctx.count('year_9999_probes')
        try:
            got = answers_at(z, u, tz.UTC)
        except Exception as ex:
            ctx.violation('conversion-raised', {'zone': label, 'utc': u.isoformat()}, repr(ex))
            continue
        if got[0] != exp[0] or got[1] != exp[0] or got[2] != exp[1]:
            ctx.violation('vtimezone-semantics', {'zone': label, 'utc': u.isoformat()},
                          'in the last year of the calendar: converted %d / offset %d %r, rules say %d %r' % (got[0], got[1], got[2], exp[0], exp[1]))


def check_before_first_onset(ctx, tz, label, z, pz, first_year):
    for y in (first_year - 1, first_year - 30):
        for m in (1, 7):
            w = D.datetime(y, m, 15, 12)
            ctx.ev()
            dt = w.replace(tzinfo=z)
            got = (int(dt.utcoffset().total_seconds()), dt.tzname(), dt.dst())
            if got != (pz.stdoff, pz.std, D.timedelta(0)):
                ctx.violation('before-first-onset', {'zone': label, 'wall': w.isoformat()}, 'got %r, the first STANDARD component is (%d, %r)' % (got, pz.stdoff, pz.std))
            ctx.count('before_first_onset_probes')
            # ... and the same from the UTC side: the conversion uses that component too and comes back to the instant
            u = w.replace(tzinfo=tz.UTC)
            l = u.astimezone(z)
            if l.utcoffset() != D.timedelta(seconds=pz.stdoff) or l.replace(tzinfo=None) - w != D.timedelta(seconds=pz.stdoff) or l.astimezone(tz.UTC) != u:
                ctx.violation('before-first-onset', {'zone': label, 'utc': w.isoformat()},
                              'UTC %s converts to %s (utcoffset %s), the first STANDARD component has %d s; back-conversion %s'
                              % (w.isoformat(), l.replace(tzinfo=None).isoformat(), l.utcoffset(), pz.stdoff, l.astimezone(tz.UTC).replace(tzinfo=None).isoformat()))


def check_after_list_end(ctx, tz, label, text, pz, first_year, nyears):
    """onsets given as DTSTART + RDATE lists: after the last listed onset its observance stays in force - asked as the
    very first query of a fresh zone object (list lengths at and around the recurrence cache's fill batch)"""
    last_year = first_year + nyears - 1
    last = max(pz.transitions(last_year))
    exp = pz.at(last + D.timedelta(days=1))
    for days in (30, 200, 800):
        u = last + D.timedelta(days=days)
        z = tz.tzical(io.StringIO(text)).get()
        ctx.ev()
        ctx.count('after_list_end_probes')
        ctx.distinct('after-list|%d|%d' % (nyears, days))
        try:
            got = answers_at(z, u, tz.UTC)
        except Exception as ex:
            ctx.violation('conversion-raised', {'zone': label, 'utc': u.isoformat(), 'listed_onsets_per_component': nyears}, '%s: %s' % (type(ex).__name__, ex))
            continue
        if got[1] != exp[0] or got[2] != exp[1]:
            ctx.violation('after-last-listed-onset', {'zone': label, 'utc': u.isoformat(), 'listed_onsets_per_component': nyears},
                          'got offset %d %r, the last listed observance has %d %r' % (got[1], got[2], exp[0], exp[1]))


def check_first_year(ctx, tz, label, z, pz, first_year):
    """The DTSTART of each component is itself an onset: the first year must already follow the rules."""
    UTC = tz.UTC
    s, e = pz.transitions(first_year)
    first = min(s, e)
    pts = [first + D.timedelta(seconds=1), first + D.timedelta(minutes=20), first + D.timedelta(days=20), max(s, e) - D.timedelta(days=1), max(s, e) + D.timedelta(seconds=1),
           max(s, e) + D.timedelta(days=20)]
    for u in pts:
        if u.year != first_year:
            continue
        exp = pz.at(u)
        if u < max(s, e) and ((s < e) != exp[2]):
            # southern order: between the end rule and the start rule of the first year the zone is on standard time, which is
            # also what "before the first onset of the DAYLIGHT component" gives
            pass
        ctx.ev()
        ctx.count('first_year_probes')
        try:
            got = answers_at(z, u, UTC)
        except Exception as ex:
            ctx.violation('conversion-raised', {'zone': label, 'utc': u.isoformat()}, repr(ex))
            continue
        # same handling of folds: a conversion marks fold=1 only on a wall time that really occurs twice in this zone (at the
        # first onset nothing repeats when the observance in force before it - the first STANDARD one - has the same offset)
        wall = u + D.timedelta(seconds=got[0])
        if got[4] == 1 and not tz.datetime_ambiguous(wall, z):
            ctx.violation('fold-flag-on-unambiguous-time', {'zone': label, 'utc': u.isoformat(), 'first_year': first_year},
                          'UTC %s converts to %s fold=1, but datetime_ambiguous() of that wall time is False' % (u.isoformat(), wall.isoformat()))
        if got[0] != got[1]:
            ctx.violation('first-onset-ignored', {'zone': label, 'utc': u.isoformat(), 'first_year': first_year},
                          'in the first year the conversion moved the clock by %d s but utcoffset() of the result is %d s' % (got[0], got[1]))
        if got[1] != exp[0] or got[2] != exp[1]:
            ctx.violation('first-onset-ignored', {'zone': label, 'utc': u.isoformat(), 'first_year': first_year},
                          'in the first year (DTSTART onsets) got offset %d %r, rules say %d %r' % (got[1], got[2], exp[0], exp[1]))


ONE_OFF = '''BEGIN:VTIMEZONE
TZID:OneOff
BEGIN:STANDARD
DTSTART:19500101T000000
TZOFFSETFROM:+0100
TZOFFSETTO:+0100
TZNAME:OLD
END:STANDARD
BEGIN:STANDARD
DTSTART:19800406T020000
TZOFFSETFROM:+0100
TZOFFSETTO:+0200
TZNAME:NEW
END:STANDARD
END:VTIMEZONE
'''
SUBMINUTE = '''BEGIN:VTIMEZONE
TZID:Solar/West
BEGIN:STANDARD
DTSTART:19001028T020000
RRULE:FREQ=YEARLY;BYMONTH=10;BYDAY=-1SU
TZOFFSETFROM:-035602
TZOFFSETTO:-045602
TZNAME:LST
END:STANDARD
BEGIN:DAYLIGHT
DTSTART:19000401T020000
RRULE:FREQ=YEARLY;BYMONTH=4;BYDAY=1SU
TZOFFSETFROM:-045602
TZOFFSETTO:-035602
TZNAME:LDT
END:DAYLIGHT
END:VTIMEZONE
'''


def check_directed_zones(ctx, tz):
    # (1) one-off components (bare DTSTART, no RRULE), two differing STANDARD components
    for order in (0, 1):
        text = ONE_OFF
        if order:
            a = text.index('BEGIN:STANDARD')
            b = text.index('BEGIN:STANDARD', a + 1)
            c = text.index('END:VTIMEZONE')
            text = text[:a] + text[b:c] + text[a:b] + text[c:]
        z = tz.tzical(io.StringIO(text)).get()
        # before the earliest onset the textually first STANDARD component applies (the property's wording)
        pre = (7200, 'NEW') if order else (3600, 'OLD')
        for w, off, name in ((D.datetime(1900, 6, 1),) + pre, (D.datetime(1949, 12, 31, 23),) + pre, (D.datetime(1960, 6, 1), 3600, 'OLD'),
                             (D.datetime(1980, 4, 6, 1, 59), 3600, 'OLD'), (D.datetime(1980, 4, 6, 3, 0, 1), 7200, 'NEW'), (D.datetime(2020, 1, 1), 7200, 'NEW')):
            ctx.ev()
            ctx.count('directed_one_off')
            ctx.distinct('one-off|%d|%s' % (order, w.year))
            dt = w.replace(tzinfo=z)
            got = (int(dt.utcoffset().total_seconds()), dt.tzname())
            if got != (off, name):
                ctx.violation('one-off-components', {'zone': 'OneOff', 'order': order, 'wall': w.isoformat()}, 'got %r, the definition says %r' % (got, (off, name)))
    # (2) offsets with seconds (+-hhmmss), negative
    z = tz.tzical(io.StringIO(SUBMINUTE)).get()
    pz = PZ.PosixZone('LST', -(4 * 3600 + 56 * 60 + 2), 'LDT', -(3 * 3600 + 56 * 60 + 2), ('M', 4, 1, 0), 7200, ('M', 10, 5, 0), 7200)
    for u in (D.datetime(1950, 1, 15, 12), D.datetime(1950, 7, 15, 12), D.datetime(2015, 3, 1), D.datetime(2015, 6, 1)):
        ctx.ev()
        ctx.count('directed_subminute')
        ctx.distinct('subminute|%s' % u.isoformat())
        exp = pz.at(u)
        got = answers_at(z, u, tz.UTC)
        if got[0] != exp[0] or got[1] != exp[0] or got[2] != exp[1]:
            ctx.violation('subminute-offsets', {'zone': 'Solar/West', 'utc': u.isoformat()}, 'got %r, the definition says %r' % (got[:3], exp))


def check_single_component(ctx, tz):
    """a definition with one observance is a fixed-offset zone at every instant"""
    for off, name, extra in ((19800, 'IST', ''), (-12600, 'NST', 'RRULE:FREQ=YEARLY;BYMONTH=1;BYMONTHDAY=1\n'), (3600, 'CET', 'RDATE:19800101T000000\n')):
        for kind in ('STANDARD', 'DAYLIGHT'):
            text = ('BEGIN:VTIMEZONE\nTZID:Single\nBEGIN:%s\nDTSTART:19700101T000000\n%sTZOFFSETFROM:%s\nTZOFFSETTO:%s\nTZNAME:%s\nEND:%s\nEND:VTIMEZONE\n'
                    % (kind, extra, tzzoo.fmt_ical_offset(off), tzzoo.fmt_ical_offset(off), name, kind))
            case = {'zone': 'single-' + kind + '-' + name}
            try:
                z = tz.tzical(io.StringIO(text)).get()
                for u in (D.datetime(1950, 1, 1), D.datetime(1970, 1, 1), D.datetime(1999, 6, 30, 23, 59, 59), D.datetime(2030, 12, 31)):
                    ctx.ev()
                    ctx.count('single_component_probes')
                    ctx.distinct('single|%s|%s|%d' % (kind, name, u.year))
                    got = answers_at(z, u, tz.UTC)
                    if got[0] != off or got[1] != off or got[2] != name:
                        ctx.violation('single-component-zone', dict(case, utc=u.isoformat()), 'got %r, the definition says offset %d %r' % (got[:3], off, name))
            except Exception as e:
                ctx.violation('conversion-raised', case, '%s: %s' % (type(e).__name__, e))


MALFORMED = {
    'missing-tzid': 'BEGIN:VTIMEZONE\nBEGIN:STANDARD\nDTSTART:20001029T020000\nTZOFFSETFROM:-0400\nTZOFFSETTO:-0500\nEND:STANDARD\nEND:VTIMEZONE\n',
    'missing-dtstart': 'BEGIN:VTIMEZONE\nTZID:X\nBEGIN:STANDARD\nTZOFFSETFROM:-0400\nTZOFFSETTO:-0500\nEND:STANDARD\nEND:VTIMEZONE\n',
    'missing-offsetfrom': 'BEGIN:VTIMEZONE\nTZID:X\nBEGIN:STANDARD\nDTSTART:20001029T020000\nTZOFFSETTO:-0500\nEND:STANDARD\nEND:VTIMEZONE\n',
    'missing-offsetto': 'BEGIN:VTIMEZONE\nTZID:X\nBEGIN:STANDARD\nDTSTART:20001029T020000\nTZOFFSETFROM:-0400\nEND:STANDARD\nEND:VTIMEZONE\n',
    'unknown-component': 'BEGIN:VTIMEZONE\nTZID:X\nBEGIN:TWILIGHT\nDTSTART:20001029T020000\nTZOFFSETFROM:-0400\nTZOFFSETTO:-0500\nEND:TWILIGHT\nEND:VTIMEZONE\n',
    'unknown-property': 'BEGIN:VTIMEZONE\nTZID:X\nBEGIN:STANDARD\nDTSTART:20001029T020000\nTZOFFSETFROM:-0400\nTZOFFSETTO:-0500\nFOO:BAR\nEND:STANDARD\nEND:VTIMEZONE\n',
    'unknown-zone-property': 'BEGIN:VTIMEZONE\nTZID:X\nFOO:BAR\nBEGIN:STANDARD\nDTSTART:20001029T020000\nTZOFFSETFROM:-0400\nTZOFFSETTO:-0500\nEND:STANDARD\nEND:VTIMEZONE\n',
    'unclosed-component': 'BEGIN:VTIMEZONE\nTZID:X\nBEGIN:STANDARD\nDTSTART:20001029T020000\nTZOFFSETFROM:-0400\nTZOFFSETTO:-0500\nEND:VTIMEZONE\n',
    'wrong-end': 'BEGIN:VTIMEZONE\nTZID:X\nBEGIN:STANDARD\nDTSTART:20001029T020000\nTZOFFSETFROM:-0400\nTZOFFSETTO:-0500\nEND:DAYLIGHT\nEND:VTIMEZONE\n',
    'no-components': 'BEGIN:VTIMEZONE\nTZID:X\nEND:VTIMEZONE\n',
    'offset-parm': 'BEGIN:VTIMEZONE\nTZID:X\nBEGIN:STANDARD\nDTSTART:20001029T020000\nTZOFFSETFROM;X=1:-0400\nTZOFFSETTO:-0500\nEND:STANDARD\nEND:VTIMEZONE\n',
    'bad-offset': 'BEGIN:VTIMEZONE\nTZID:X\nBEGIN:STANDARD\nDTSTART:20001029T020000\nTZOFFSETFROM:-04\nTZOFFSETTO:-0500\nEND:STANDARD\nEND:VTIMEZONE\n',
    'empty-offset': 'BEGIN:VTIMEZONE\nTZID:X\nBEGIN:STANDARD\nDTSTART:20001029T020000\nTZOFFSETFROM:\nTZOFFSETTO:-0500\nEND:STANDARD\nEND:VTIMEZONE\n',
    'dtstart-parm': 'BEGIN:VTIMEZONE\nTZID:X\nBEGIN:STANDARD\nDTSTART;TZID=Y:20001029T020000\nTZOFFSETFROM:-0400\nTZOFFSETTO:-0500\nEND:STANDARD\nEND:VTIMEZONE\n',
    'tzid-parm': 'BEGIN:VTIMEZONE\nTZID;X=1:X\nBEGIN:STANDARD\nDTSTART:20001029T020000\nTZOFFSETFROM:-0400\nTZOFFSETTO:-0500\nEND:STANDARD\nEND:VTIMEZONE\n',
    'empty': '',
    'second-zone-without-tzid': ('BEGIN:VTIMEZONE\nTZID:First\nBEGIN:STANDARD\nDTSTART:20001029T020000\nTZOFFSETFROM:-0400\nTZOFFSETTO:-0500\nEND:STANDARD\nEND:VTIMEZONE\n'
                                 'BEGIN:VTIMEZONE\nBEGIN:STANDARD\nDTSTART:20001029T020000\nTZOFFSETFROM:-0700\nTZOFFSETTO:-0800\nEND:STANDARD\nEND:VTIMEZONE\n'),
}


def check_malformed(ctx, tz):
    defs = dict(MALFORMED)
    # component names that are not STANDARD / DAYLIGHT - also near misses, prefixes, suffixes and other iCalendar components
    for comp in ('DAYLIGH', 'STANDAR', 'DAY', 'STAND', 'LIGHT', 'D', 'S', 'STANDARDS', 'DAYLIGHTS', 'TANDARD', 'AYLIGHT', 'VALARM', 'VEVENT', 'standard ', ''):
        defs['unknown-component-%r' % comp] = MALFORMED['unknown-component'].replace('TWILIGHT', comp)
        defs['unknown-second-component-%r' % comp] = VALID_BASE.replace('BEGIN:DAYLIGHT', 'BEGIN:' + comp).replace('END:DAYLIGHT', 'END:' + comp)
    for name, text in defs.items():
        for t in (text, text.replace('\n', '\r\n')):
            ctx.ev()
            ctx.count('malformed_definitions')
            ctx.distinct('malformed|' + name)
            try:
                r = tz.tzical(io.StringIO(t))
                z = r.get() if len(r.keys()) <= 1 else r.keys()
            except ValueError:
                continue
            except Exception as e:
                ctx.violation('malformed-wrong-exception', {'definition': name}, '%s: %s' % (type(e).__name__, e))
                continue
            ctx.violation('malformed-accepted', {'definition': name}, 'tzical accepted it: keys %r -> %r' % (r.keys(), z))


VALID_BASE = '''BEGIN:VTIMEZONE
TZID:US Eastern Time
BEGIN:STANDARD
DTSTART:20001029T020000
RRULE:FREQ=YEARLY;BYDAY=-1SU;BYMONTH=10
TZOFFSETFROM:-0400
TZOFFSETTO:-0500
TZNAME:Eastern Standard Time
END:STANDARD
BEGIN:DAYLIGHT
DTSTART:20000402T020000
RRULE:FREQ=YEARLY;BYDAY=1SU;BYMONTH=4
TZOFFSETFROM:-0500
TZOFFSETTO:-0400
TZNAME:Eastern Daylight Time
END:DAYLIGHT
END:VTIMEZONE
'''
OTHER_ZONE = ('BEGIN:VTIMEZONE\nTZID:Other\nBEGIN:STANDARD\nDTSTART:20001029T020000\nTZOFFSETFROM:-0700\nTZOFFSETTO:-0800\n'
              'END:STANDARD\nEND:VTIMEZONE\n')


def check_required_lines(ctx, tz):
    """every required line (TZID, each component's DTSTART / TZOFFSETFROM / TZOFFSETTO) deleted in turn from a valid
    definition - with RRULEs, with RDATEs, alone and as the second of two zones - must give ValueError"""
    variants = {'rrule': VALID_BASE,
                'rdate': VALID_BASE.replace('RRULE:FREQ=YEARLY;BYDAY=-1SU;BYMONTH=10', 'RDATE:20011028T020000')
                                   .replace('RRULE:FREQ=YEARLY;BYDAY=1SU;BYMONTH=4', 'RDATE:20010401T020000')}
    for vname, base in variants.items():
        try:
            tz.tzical(io.StringIO(base)).get()
        except Exception as e:
            ctx.violation('definition-rejected', {'definition': 'valid-base-' + vname}, repr(e))
            continue
        lines = base.splitlines()
        for i, line in enumerate(lines):
            if not line.startswith(('TZID', 'DTSTART', 'TZOFFSETFROM', 'TZOFFSETTO')):
                continue
            broken = '\n'.join(lines[:i] + lines[i + 1:]) + '\n'
            for where, text in (('alone', broken), ('second', OTHER_ZONE + broken)):
                name = '%s-without-line-%d-%s-%s' % (vname, i, line.split(':')[0], where)
                ctx.ev()
                ctx.count('malformed_definitions')
                ctx.count('required_line_deletions')
                ctx.distinct('malformed|' + name)
                try:
                    r = tz.tzical(io.StringIO(text))
                    got = r.keys()
                except ValueError:
                    continue
                except Exception as e:
                    ctx.violation('malformed-wrong-exception', {'definition': name, 'text': text}, '%s: %s' % (type(e).__name__, e))
                    continue
                ctx.violation('malformed-accepted', {'definition': name, 'text': text}, 'tzical accepted it: keys %r' % (got,))


def check_fold_positions(ctx, tz):
    """a content line may be folded anywhere (CRLF or LF followed by ONE blank or tab), also directly in front of a blank
    that belongs to the value: every folding of the definition denotes the same zone, names and abbreviations"""
    ref = tz.tzical(io.StringIO(VALID_BASE))
    keys = ref.keys()
    zr = ref.get()
    probes = [D.datetime(2010, 1, 15, 12), D.datetime(2010, 7, 15, 12), D.datetime(1990, 7, 1)]
    want = [(w.replace(tzinfo=zr).utcoffset(), w.replace(tzinfo=zr).tzname()) for w in probes]
    lines = VALID_BASE.splitlines()
    for li, line in enumerate(lines):
        for pos in range(1, len(line)):
            for nl, ws in (('\r\n', ' '), ('\n', ' '), ('\n', '\t')):
                if (li + pos) % 3 and not (line[pos] == ' ' or line[pos - 1] == ' '):
                    continue          # every third position, and always around blanks of the value
                text = nl.join(lines[:li] + [line[:pos] + nl + ws + line[pos:]] + lines[li + 1:]) + nl
                ctx.ev()
                ctx.count('fold_positions')
                if line[pos] == ' ':
                    ctx.count('fold_before_value_blank')
                case = {'definition': 'fold', 'line': line, 'position': pos, 'newline': repr(nl), 'marker': repr(ws)}
                try:
                    r = tz.tzical(io.StringIO(text))
                    z = r.get()
                    got = [(w.replace(tzinfo=z).utcoffset(), w.replace(tzinfo=z).tzname()) for w in probes]
                except Exception as e:
                    if ws == '\t' and isinstance(e, ValueError):
                        # RFC 5545 also allows HTAB as the fold marker; dateutil's readers only unfold on a blank and reject
                        # the rest with ValueError - not a wrong zone, and the property does not spell out the marker
                        ctx.count('tab_fold_rejected')
                        continue
                    ctx.violation('folded-definition-rejected', case, '%s: %s' % (type(e).__name__, e))
                    continue
                if r.keys() != keys or got != want:
                    ctx.violation('folded-definition-differs', case, 'keys %r / answers %r; unfolded: %r / %r' % (r.keys(), got, keys, want))
    ctx.distinct('fold-sweep')


def check_addressing(ctx, tz, rng):
    a, b = gen_m_triple(rng), gen_m_triple(rng)
    text = tzzoo.vtimezone_text(a, tzid='Zone/A') + tzzoo.vtimezone_text(b, tzid='Zone/B', order='DS')
    r = tz.tzical(io.StringIO(text))
    ctx.ev()
    ctx.count('addressing_checks')
    bad = []
    if sorted(r.keys()) != ['Zone/A', 'Zone/B']:
        bad.append('keys %r' % r.keys())
    try:
        r.get()
        bad.append('get() without a name succeeded although two zones are defined')
    except ValueError:
        pass
    za, zb = r.get('Zone/A'), r.get('Zone/B')
    if za is None or zb is None or r.get('Zone/C') is not None:
        bad.append('get(name) -> %r %r %r' % (za, zb, r.get('Zone/C')))
    else:
        w = D.datetime(2015, 1, 15, 12)
        for z, pz in ((za, a), (zb, b)):
            exp = pz.at(w - D.timedelta(seconds=pz.stdoff))
            if int(w.replace(tzinfo=z).utcoffset().total_seconds()) not in (pz.stdoff, pz.dstoff):
                bad.append('zone of %s answers with a foreign offset' % pz.std)
    single = tz.tzical(io.StringIO(tzzoo.vtimezone_text(a, tzid='Only/One')))
    if single.get() is None or single.get() is not single.get('Only/One'):
        bad.append('single zone not returned without a name')
    empty = tz.tzical(io.StringIO('BEGIN:VCALENDAR\nEND:VCALENDAR\n'))
    try:
        empty.get()
        bad.append('get() on a file without zones succeeded')
    except ValueError:
        pass
    if bad:
        ctx.violation('tzid-addressing', {'text': text[:200]}, '; '.join(bad))


def run(ctx):
    from dateutil import relativedelta, tz
    hits = {}
    unhook = tzzoo.install_hit_counters(hits)
    rng = ctx.rng
    try:
        for i in range(N_TRIPLES[ctx.tier]):
            if i % 2 == 0 and not ctx.time_left():
                ctx.count('stopped_by_time_budget')
                break
            pz = gen_m_triple(rng)
            s = PZ.render(pz)
            order = rng.choice(['SD', 'DS'])
            fold_at = rng.choice([None, None, 20, 40, 60])
            rdate = rng.random() < .25
            nyears = rng.choice([15, 9, 10, 11, 20, 21]) if rdate else None      # listed onsets per component incl. DTSTART
            first_year = (2024 - nyears) if rdate else rng.choice([1990, 2000, 2015])
            shape = '%s|%s|%s' % (order, 'folded' if fold_at else 'flat', 'rdate' if rdate else 'rrule')
            try:
                text = tzzoo.vtimezone_text(pz, first_year=first_year, order=order, fold_at=fold_at, as_rdate_years=nyears if rdate else None)
                z = tz.tzical(io.StringIO(text)).get()
            except Exception as e:
                ctx.violation('definition-rejected', {'tz': s, 'shape': shape}, '%s: %s' % (type(e).__name__, e))
                continue
            ctx.count('shape_' + shape)
            siblings = [('tzrange', tzzoo.tzrange_equivalent(tz, relativedelta, pz))]
            if not tzzoo.k3_applies(pz):
                try:
                    siblings.append(('tzstr', tz.tzstr(s)))
                except ValueError:
                    if not tzzoo.subminute(pz):
                        raise
                    ctx.count('tzstr_subminute_rejected')
            label = 'tzical(%s)[%s]' % (s, shape)
            check_zone_vs_model(ctx, tz, label, z, pz, rng, siblings, shape)
            # wall-time classification across gaps and folds (fresh zone object: another query history)
            z2 = tz.tzical(io.StringIO(text)).get()
            c05.check_zone(ctx, tz, label, 'tzical', z2, TM.PosixModel(pz, [2019, 2020, 2021]), rng)
            check_before_first_onset(ctx, tz, label, z2, pz, first_year)
            if not rdate and ctx.counters.get('year_9999_probes', 0) < 60:
                check_last_year(ctx, tz, label, z2, pz)
            check_first_year(ctx, tz, label, tz.tzical(io.StringIO(text)).get(), pz, first_year)
            if rdate:
                check_after_list_end(ctx, tz, label, text, pz, first_year, nyears)
            if i % 4 == 0:
                ctx.sample({'tz_string': s, 'shape': shape, 'vtimezone_head': text[:160]})
        check_malformed(ctx, tz)
        check_addressing(ctx, tz, rng)
        check_directed_zones(ctx, tz)
        check_single_component(ctx, tz)
        check_required_lines(ctx, tz)
        check_fold_positions(ctx, tz)
        pz = PZ.PosixZone('EST', -18000, 'EDT', -14400, ('M', 3, 2, 0), 7200, ('M', 11, 1, 0), 7200)
        for n_onsets in (1, 2, 9, 10, 11, 19, 20, 21, 30):
            for order in ('SD', 'DS'):
                text = tzzoo.vtimezone_text(pz, first_year=2024 - n_onsets, order=order, as_rdate_years=n_onsets)
                check_after_list_end(ctx, tz, 'tzical(EST5EDT)[%s|rdate x %d]' % (order, n_onsets), text, pz, 2024 - n_onsets, n_onsets)
        tz_sched.sweep(ctx, tz, pz, rng, 150 if ctx.tier == 'quick' else 2500)
        for k, v in hits.items():
            ctx.hit(k, v)
    finally:
        unhook()


def floors(agg, tier):
    c, h, out = agg['counters'], agg['hits'], []
    n = 40 if tier == 'quick' else 1500
    for k, m in (('zones_checked', n), ('queries', n * 300), ('before_first_onset_probes', n * 2), ('malformed_definitions', 100),
                 ('addressing_checks', 3), ('tzical_scheduled_runs', 400), ('tzical_distinct_interleavings', 150),
                 ('class_0_preimages', 200), ('class_2_preimages', 200)):
        if c.get(k, 0) < m:
            out.append('%s only %d (< %d)' % (k, c.get(k, 0), m))
    shapes = [k for k in c if k.startswith('shape_')]
    if len(shapes) < 6:
        out.append('only %d VTIMEZONE shapes: %r' % (len(shapes), shapes))
    for k in ('_tzicalvtz.utcoffset', '_tzicalvtz.tzname', '_tzicalvtz.dst'):
        if h.get(k, 0) < 5000:
            out.append('monitored %s reached only %d times' % (k, h.get(k, 0)))
    # the conversion from UTC is the zone class's own method or the generic one it inherits
    if h.get('_tzicalvtz.fromutc', 0) + h.get('_tzinfo.fromutc', 0) < 5000:
        out.append('monitored fromutc of iCalendar zones reached only %d times' % (h.get('_tzicalvtz.fromutc', 0) + h.get('_tzinfo.fromutc', 0)))
    return out


def replay(ctx, case):
    from dateutil import tz
    if 'definition' in case:
        text = MALFORMED.get(case['definition'], '')
        try:
            tz.tzical(io.StringIO(text)).get()
        except ValueError:
            return
        except Exception as e:
            ctx.violation('malformed-wrong-exception', case, repr(e))
            return
        ctx.violation('malformed-accepted', case, '')
    else:
        ctx.note('replay', 're-run the check with the recorded seed; zone %r' % case.get('zone'))
