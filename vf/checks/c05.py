"""C05 - wall times are classified as normal, ambiguous or imaginary per PEP 495."""
import datetime as D

from vf import tzmodels as TM, tzzoo

PROPERTY = 'C05'
LEVEL = 'exploration'
RULE = ('Zones as in C04 (fixed offsets, real and synthetic TZif files incl. negative DST, double summer time, first-transition '
        'fold / gap, +-24 h date-line moves, 30 m / 2 h savings; POSIX rule triples as tzstr / tzrange / VTIMEZONE / tzlocal).  For '
        'every offset change, wall times at second resolution across the gap or fold: start-1, start, start+1, middle, end-1, '
        'end, end+1 (in wall seconds, for both the old and the new offset), and times far from any change; fold in {0, 1}.  '
        'Truth = pre(w), the set of UTC instants whose local reading is w, computed by interval arithmetic on the independent '
        'model.  Checked: datetime_exists(w) == (|pre| >= 1); datetime_ambiguous(w) == (|pre| == 2); with two pre-images '
        'utcoffset() of w with fold=0 / fold=1 selects the earlier / later one, and conversion from UTC sets fold=1 exactly '
        'for the later instant; with one pre-image fold does not change the offset; resolve_imaginary(w) returns the very same '
        'object when w exists and otherwise w moved forward by exactly the gap width, onto an existing time.  Wall times with '
        '> 2 pre-images are counted and skipped.  Non-trivial = wall time inside or at the edge of a gap / fold; distinct = '
        '(zone, transition, position class, fold).'
        ' The classification is asked in four argument forms (naive + tz with fold 0 / 1, aware with fold 0 / 1) which must agree; the scheduled shared-zone scenario of C04 is run with classification answers.')
ASSUMPTIONS = ['truth models as in C04 (TZif reader, POSIX evaluator)', 'tzfile: wall times whose pre-images could lie after the last '
               'recorded transition are not claimed', 'mechanism K5 (resolve_imaginary across gaps wider than 24 h or with a second '
               'offset change within 24 h) is classified on the truth model']
MANIFEST = {
    'technique': 'runtime differential monitor: datetime_exists / datetime_ambiguous / fold resolution / resolve_imaginary on wall times around every gap and fold vs pre-image sets from independent zone models',
    'level_text': 'Every gap and fold of the sampled real zones (thorough: whole database), of synthetic TZif shapes and of random '
                  'POSIX rules is probed at second resolution at its edges and middle with both fold values; the classification '
                  'is decided by an independent pre-image computation.  Exploration level; a resolve_imaginary mismatch in the K5 situation (repaired in the repository) is reported as a violation like any other.',
    'level_note': 'Trusts the truth models and CPython datetime; rule zones are probed for three years including a leap year.',
}
PLAN = {'quick': {'shards': 4, 'timeout': 1800, 'budget': 900},
        'thorough': {'shards': 16, 'timeout': 7200, 'budget': 2400}}
LOW, HIW = -62135596800 + 500000, 253402300799 - 500000


def offsets_around(model, i, t):
    """(old offset, new offset) at transition t, from the model"""
    return model.raw_at(t - 1)[0], model.raw_at(t)[0]


def wall_probes(model, rng):
    """[(transition index, position label, wall second)]"""
    out = []
    tr = model.transitions()
    for i, t in enumerate(tr):
        old, new = offsets_around(model, i, t)
        lo, hi = t + min(old, new), t + max(old, new)          # wall interval of the gap / repeated interval
        width = hi - lo
        pts = [('start-1', lo - 1), ('start', lo), ('start+1', lo + 1), ('end-1', hi - 1), ('end', hi), ('end+1', hi + 1),
               ('before', lo - 3600), ('after', hi + 3600), ('far', lo - 40 * 86400)]
        if width > 2:
            pts.append(('middle', lo + width // 2))
        kind = 'gap' if new > old else ('fold' if new < old else 'same')
        for lab, w in pts:
            out.append((i, kind + ':' + lab, w, width, 0))
            if lab in ('start-1', 'start', 'end-1', 'end'):
                # half a second later: same side of every (whole-second) boundary as the second it belongs to
                out.append((i, kind + ':' + lab + '+.5', w, width, 500000))
    if not tr:
        for w in (TM.to_ts(D.datetime(1960, 6, 1, 12)), TM.to_ts(D.datetime(2020, 2, 29, 23, 59, 59))):
            out.append((-1, 'none', w, 0, 0))
    return [p for p in out if LOW < p[2] < HIW]


def k5_applies(model, wall, width):
    """gap wider than 24 h, or another offset change within 24 h of the wall time (on the truth model)"""
    if width > 86400:
        return True
    tr = model.transitions()
    near = [t for t in tr if abs((t + model.raw_at(t)[0]) - wall) <= 86400 + 50400]
    return len(near) >= 2


def check_zone(ctx, tz, label, kind, z, model, rng):
    UTC = tz.UTC
    nbad = 0
    wall_claimed = getattr(model, 'wall_claimed', lambda w: True)
    for i, lab, w, width, us in wall_probes(model, rng):
        if not wall_claimed(w):
            ctx.count('unclaimed_wall_times')
            continue
        pre = model.preimages(w)
        wall = TM.to_dt(w).replace(microsecond=us)
        case = {'zone': label, 'kind': kind, 'wall': wall.isoformat(), 'transition': i, 'position': lab, 'preimages': pre}
        if getattr(model, 'data', None) is not None:
            case['tzif_hex'] = model.data.hex()
        ctx.ev()
        if len(pre) > 2:
            ctx.count('skipped_more_than_two_preimages')
            continue
        bad = []
        try:
            ex = tz.datetime_exists(wall, z)
            am = tz.datetime_ambiguous(wall, z)
            o0 = wall.replace(tzinfo=z, fold=0).utcoffset()
            o1 = wall.replace(tzinfo=z, fold=1).utcoffset()
            # the classification is a property of the wall time: it must not depend on the fold bit of the argument nor on
            # whether the zone comes attached or as the second argument
            w1 = wall.replace(fold=1)
            forms = {'fold=1 + tz': (tz.datetime_exists(w1, z), tz.datetime_ambiguous(w1, z)),
                     'aware fold=0': (tz.datetime_exists(wall.replace(tzinfo=z)), tz.datetime_ambiguous(wall.replace(tzinfo=z))),
                     'aware fold=1': (tz.datetime_exists(w1.replace(tzinfo=z)), tz.datetime_ambiguous(w1.replace(tzinfo=z)))}
        except Exception as e:
            ctx.violation('classification-raised', case, '%s: %s' % (type(e).__name__, e))
            continue
        if ex != (len(pre) >= 1):
            bad.append('datetime_exists=%r but %d instant(s) map to this wall time' % (ex, len(pre)))
        if am != (len(pre) == 2):
            bad.append('datetime_ambiguous=%r but %d instant(s) map to this wall time' % (am, len(pre)))
        for fname, v in forms.items():
            if v != (ex, am):
                bad.append('argument form %r gives exists/ambiguous %r, the naive fold=0 form gives %r' % (fname, v, (ex, am)))
        if len(pre) == 2:
            e0, e1 = D.timedelta(seconds=w - pre[0]), D.timedelta(seconds=w - pre[1])
            if o0 != e0 or o1 != e1:
                bad.append('fold=0/1 give offsets %s/%s, the earlier/later instants need %s/%s' % (o0, o1, e0, e1))
            for k, u in enumerate(pre):
                l = (TM.EPOCH + D.timedelta(seconds=u, microseconds=us)).replace(tzinfo=UTC).astimezone(z)
                if l.replace(tzinfo=None) != wall or l.fold != k:
                    bad.append('UTC %d converts to %s fold=%d, expected this wall time with fold=%d' % (u, l.replace(tzinfo=None).isoformat(), l.fold, k))
        elif len(pre) == 1:
            e = D.timedelta(seconds=w - pre[0])
            if o0 != e or o1 != e:
                bad.append('single instant but fold=0/1 give %s/%s (offset in force %s)' % (o0, o1, e))
            l = (TM.EPOCH + D.timedelta(seconds=pre[0], microseconds=us)).replace(tzinfo=UTC).astimezone(z)
            if l.fold != 0:
                bad.append('unambiguous time converted from UTC with fold=1')
            if l.replace(tzinfo=None) != wall:
                bad.append('its UTC instant converts to %s' % l.replace(tzinfo=None).isoformat())
        # resolve_imaginary
        aware = wall.replace(tzinfo=z)
        try:
            r = tz.resolve_imaginary(aware)
        except Exception as e:
            bad.append('resolve_imaginary raised %s: %s' % (type(e).__name__, e))
            r = None
        ri_bad = None
        if r is not None:
            if len(pre) >= 1:
                if r is not aware:
                    ri_bad = 'resolve_imaginary changed an existing time to %r' % (r,)
            else:
                moved = r.replace(tzinfo=None) - wall
                if moved != D.timedelta(seconds=width) or not model.preimages(w + width):
                    ri_bad = 'resolve_imaginary moved an imaginary time by %s (gap width %d s) to %s' % (moved, width, r.replace(tzinfo=None).isoformat())
        if ri_bad:
            if len(pre) == 0 and k5_applies(model, w, width):
                ctx.known_finding('K5', '%s %s: %s' % (label, wall.isoformat(), ri_bad), case)
            else:
                bad.append(ri_bad)
        if bad:
            nbad += 1
            if nbad <= 3:
                ctx.violation('classification', case, '; '.join(bad))
        if us:
            ctx.count('sub_second_probes' + ('_before_1970' if w < 0 else ''))
        if not lab.endswith(('far', 'before', 'after')):
            ctx.distinct('%s|%d|%s' % (label, i, lab))
            ctx.count('class_%d_preimages' % len(pre))
        w_cls = 'none'
        if lab.startswith(('gap', 'fold')):
            w_cls = lab.split(':')[0] + ('-30m' if width == 1800 else '-1h' if width == 3600 else '-2h' if width == 7200 else
                                         '-24h+' if width >= 86400 else '-odd')
            ctx.count('width_' + w_cls)
    ctx.count('zones_' + kind)


class ForeignZone(D.tzinfo):
    """a PEP 495 tzinfo that is not one of dateutil's classes (no is_ambiguous(), no _fold helpers): answers straight from
    a transition table.  datetime_exists / datetime_ambiguous / resolve_imaginary accept any tzinfo."""

    def __init__(self, model, zero_dst=False):
        self.m, self.zero_dst = model, zero_dst

    def _type(self, dt):
        w = TM.to_ts(dt.replace(tzinfo=None, microsecond=0))
        pre = self.m.preimages(w)
        if pre:
            u = pre[min(dt.fold, len(pre) - 1)]
        else:
            # a skipped wall time: read with the offset in force after the gap whatever the fold bit says, as dateutil's
            # own zones do (a zone that lets fold choose the side in a gap makes the generic datetime_ambiguous() call
            # the skipped time ambiguous - foreign zones are outside C05's quantifier, so that is only noted here)
            tr = [t for t in self.m.transitions()]
            u = None
            for t in tr:
                old, new = self.m.raw_at(t - 1)[0], self.m.raw_at(t)[0]
                if t + old <= w < t + new:
                    u = t
                    break
            if u is None:
                u = w
        return self.m.raw_at(u)

    def utcoffset(self, dt):
        return None if dt is None else D.timedelta(seconds=self._type(dt)[0])

    def tzname(self, dt):
        return None if dt is None else self._type(dt)[1]

    def dst(self, dt):
        if dt is None:
            return None
        return D.timedelta(0) if self.zero_dst or not self._type(dt)[2] else D.timedelta(hours=1)

    def fromutc(self, dt):
        u = TM.to_ts(dt.replace(tzinfo=None, microsecond=0))
        off = self.m.raw_at(u)[0]
        wall = dt + D.timedelta(seconds=off)
        pre = self.m.preimages(u + off)
        return wall.replace(fold=1 if len(pre) == 2 and pre[1] == u else 0)

    def __repr__(self):
        return 'ForeignZone()'


def foreign_zones(ctx, tz, rng):
    """the classification functions on tzinfo objects of another library: ordinary DST, and repeated / skipped intervals
    made by a change of the standard offset (dst() is zero on both sides)"""
    from vf.oracles import tzif_ref
    W = tzif_ref.write_tzif
    ts = tzzoo.ts
    tables = [('foreign: standard offset moves (dst always zero)', W([ts(2011, 3, 26, 23), ts(2014, 10, 25, 22), ts(2037)], [1, 2, 2],
                                                                      [(10800, False, 'MSK'), (14400, False, 'MSK4'), (10800, False, 'MSK3')]), True),
              ('foreign: ordinary DST', W([ts(2010, 3, 14, 7), ts(2010, 11, 7, 6), ts(2011, 3, 13, 7), ts(2011, 11, 6, 6), ts(2037)], [1, 0, 1, 0, 0],
                                          [(-18000, False, 'EST'), (-14400, True, 'EDT')]), False),
              ('foreign: half-hour set-back without dst', W([ts(1990, 5, 1, 0), ts(2037)], [1, 1], [(20700, False, 'AAA'), (18900, False, 'BBB')]), True)]
    for label, data, zero_dst in tables:
        m = TM.TzifModel(tzif_ref.RefZone(data))
        check_zone(ctx, tz, label, 'foreign', ForeignZone(m, zero_dst), m, rng)


def run(ctx):
    from dateutil import relativedelta, tz
    hits = {}
    if ctx.shard == 0:
        foreign_zones(ctx, tz, ctx.rng)
    unhook = tzzoo.install_hit_counters(hits)
    try:
        for label, kind, z, model, cleanup in TM.iter_zones(ctx, tz, relativedelta, ctx.rng, ctx.tier):
            try:
                check_zone(ctx, tz, label, kind, z, model, ctx.rng)
                if ctx.counters['zones_' + kind] <= 1:
                    ctx.sample({'zone': label, 'kind': kind, 'offset_changes': len(model.transitions())})
            finally:
                cleanup()
        for k, v in hits.items():
            ctx.hit(k, v)
    finally:
        unhook()
    # classification through the iCalendar zone's component cache under controlled thread schedules
    if ctx.shard == 0:
        from vf import tz_sched
        from vf.oracles import posix_tz_ref as PZ
        pz = PZ.PosixZone('EST', -18000, 'EDT', -14400, ('M', 3, 2, 0), 7200, ('M', 11, 1, 0), 7200)
        tz_sched.sweep(ctx, tz, pz, ctx.rng, 120 if ctx.tier == 'quick' else 1500)


def floors(agg, tier):
    c, out = agg['counters'], []
    if c.get('tzical_scheduled_runs', 0) < 100:
        out.append('only %d scheduled runs on a shared iCalendar zone' % c.get('tzical_scheduled_runs', 0))
    for k, n in (('zones_fixed', 8), ('zones_tzfile', 30 if tier == 'quick' else 300), ('zones_tzfile-synthetic', 15), ('zones_tzstr', 20),
                 ('zones_tzrange', 20), ('zones_foreign', 3), ('zones_tzical', 8), ('zones_tzlocal', 20), ('class_0_preimages', 2000), ('class_2_preimages', 2000),
                 ('class_1_preimages', 2000), ('width_gap-1h', 500), ('width_fold-1h', 500), ('width_gap-30m', 10), ('width_gap-2h', 10),
                 ('width_gap-24h+', 2), ('width_fold-24h+', 2), ('width_gap-odd', 20), ('width_fold-odd', 20), ('sub_second_probes', 5000),
                 ('sub_second_probes_before_1970', 1000)):
        if c.get(k, 0) < n:
            out.append('%s only %d (< %d)' % (k, c.get(k, 0), n))
    if agg['evaluations'] < (60000 if tier == 'quick' else 500000):
        out.append('only %d wall times' % agg['evaluations'])
    return out


def replay(ctx, case):
    from dateutil import relativedelta, tz
    import io
    import random
    from vf.oracles import tzif_ref
    if case.get('tzif_hex'):
        data = bytes.fromhex(case['tzif_hex'])
        m = TM.TzifModel(tzif_ref.RefZone(data))
        m.data = data
        check_zone(ctx, tz, case['zone'], 'tzfile-synthetic', tz.tzfile(io.BytesIO(data)), m, random.Random(0))
        return
    want = case.get('zone')
    k = case.get('kind', 'tzfile').replace('-synthetic', '').replace('-fixed', '')
    for label, kind, z, model, cleanup in TM.iter_zones(ctx, tz, relativedelta, random.Random(0), 'thorough' if k == 'tzfile' else 'quick', kinds=[k]):
        try:
            if label == want:
                check_zone(ctx, tz, label, kind, z, model, random.Random(0))
        finally:
            cleanup()
