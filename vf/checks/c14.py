"""C14 - parse() is total: a datetime, ParserError or OverflowError, always terminating."""
import datetime as D
import io
import sys

from vf import locks, mon_parse

PROPERTY = 'C14'
LEVEL = 'exploration'
RULE = ('Token-soup fuzzer: texts are concatenations of 1-14 tokens drawn from date-like vocabulary (numbers of length '
        '1-14 and 15-400 digits, decimals with . and ,, month / weekday names, AM/PM and h/m/s markers, zone names, signed '
        'offsets, jump words, separators), hostile atoms (Unicode digits and letters incl. case-folding changers, NUL, '
        'control characters, inf / nan / exponent words, underscores) and mutations of valid renderings; fed as str / UTF-8 '
        'bytes / bytearray / text stream under random option sets (fuzzy, fuzzy_with_tokens, dayfirst, yearfirst, ignoretz, '
        'default, parserinfo, tzinfos as dict of tzinfo / int / TZ string and as callable).  A monitor on parser.parse '
        'observes every call: the exception whitelist (ParserError / OverflowError; TypeError for non-text) is checked at '
        'the raise path, the return type at the return path; every call is re-issued with fresh equal arguments after a '
        'random other call and after a failing call (determinism / no state leak), and executed source lines inside '
        'parser/_parser.py are counted with sys.monitoring and bounded by 5000 + 1000*len(text) (promptness as logical '
        'steps); the zone-factory cache locks are replaced by guard locks that turn a re-acquisition by the owning thread '
        '(which can never return) into a reported self-deadlock, and process-global settings (decimal context, calendar '
        'first weekday, locale, int-digit limit) are compared before and after each call.  Overlapping calls: 2-3 tasks parse texts '
        'concurrently under the baton scheduler (switch points on every line of the tokenizer and the parser core; PCT and random '
        'schedules) and 6 free-running threads with a 1 us switch interval; every outcome must equal that of the same call alone.  Non-trivial = every text except the few fixed smoke inputs; distinct = (outcome class, token-kind '
        'multiset, input kind, option set).'
        ' Also: a three-member date shape sweep (number classes x month-name position x separators x flag combinations), overlapping calls under the baton scheduler and free-running threads (each outcome must equal that of the same call alone), in-process TZ switches between zones sharing abbreviations, non-text inputs incl. memoryview / array / set / complex.')
ASSUMPTIONS = ['bytes input is UTF-8 text (undecodable bytes are not "text input")',
               'tzinfos mappings/callables supplied by the harness return only documented value types',
               'promptness is judged on executed-line counts plus two relations between process-CPU times of calls made back to back '
               '(fuzzy_with_tokens vs fuzzy on one text; 20 000 vs 2 000 repetitions of a unit) with wide slack - never on wall clock']
MANIFEST = {
    'technique': 'runtime monitor on parser.parse (exception whitelist at the raise path, re-issue determinism check, sys.monitoring line-count bound) under a token-soup fuzzer; overlapping calls under a line-granular thread scheduler compared with the same calls alone',
    'level_text': 'The real parse() is driven with tens of thousands of hostile texts and option sets; the monitor sees every '
                  'call including its exceptional exit, re-issues calls to detect hidden state, and bounds the logical step '
                  'count per call.  Exploration: held on the inputs observed.',
    'level_note': 'Trusts CPython and sys.monitoring; termination is bounded progress (line budget), inputs up to 20k characters.',
}
PLAN = {'quick': {'shards': 2, 'timeout': 1800, 'budget': 900},
        'thorough': {'shards': 16, 'timeout': 7200, 'budget': 2400}}
N_CASES = {'quick': 9000, 'thorough': 90000}

MONTHS = ['Jan', 'January', 'feb', 'MAR', 'Sept', 'sep', 'December', 'may', 'Jun', 'jul', 'Aug', 'oct', 'Nov']
WEEKDAYS = ['Mon', 'monday', 'TUE', 'Wednesday', 'thu', 'Fri', 'sat', 'Sunday']
AMPM = ['am', 'pm', 'AM', 'PM', 'a', 'p', 'a.m.', 'p.m.', 'A.M', 'Pm']
HMS = ['h', 'm', 's', 'hour', 'hours', 'minute', 'minutes', 'second', 'seconds', 'H', 'M', 'S']
ZONES = ['UTC', 'GMT', 'Z', 'z', 'EST', 'EDT', 'BRST', 'CET', 'CEST', 'PST', 'IST', 'ABCDE', 'ABCDEF', 'utc', 'Gmt', 'T', 'LOCAL']
JUMP = ['at', 'on', 'and', 'of', 'th', 'st', 'nd', 'rd', 'ad', 'AD', 'm', 't']
SEPS = [' ', ' ', ' ', '-', '/', '.', ',', ':', ':', ';', "'", '(', ')', '  ', '\t', '\n', '+', '-']
HOSTILE = ['\x00', '\x00\x00', '٣', '２', '²', '½', 'é', 'ß', 'İ', 'ǅ', 'Ω', '١٢', '०१', 'inf', 'nan', 'NaN',
           'Infinity', '-inf', '1e5', '1E400', '1e-5', '0x10', '1_000', '1__0', '++', '--', '+-', '..', ',,', '::', ':.', '.:',
           '\x0b', '\x1f', ' ', '﻿', '\U0001d7d8', 'e', 'E', 'j', '1j', '%', '#', '@', '\\', '"', '[', ']', '{', '}',
           '+9900', '-9959', '+24:00', '-00:60', 'GMT+3', 'UTC-14:30', 'BRST+3', '(EST)', '-0300 (BRST)']
FILLER = ['Today', 'is', 'the', 'meeting', 'around', 'about', 'report', 'No', 'x', 'q', 'foo', 'bar', 'I', 'it', 'was', 'held']
VALID = ['2003-09-25T10:49:41', '2003-09-25 10:49:41.502', 'Thu Sep 25 10:36:28 2003', 'Thu, 25 Sep 2003 10:49:41 -0300',
         '20030925T104941-0300', '10h36m28.5s', '10:36:28 PM', 'Sep 25 2003', '25/09/2003', '09-25-03', '1996.July.10 AD 12:08 PM',
         'Tuesday, April 12, 1952 AD 3:30:42pm PST', 'Wed, July 10, 96', '3rd of May 2001', '5:50 A.M. on June 13, 1990',
         '01h02m03', '2003 10:36:28 BRST 25 Sep Thu', '0:01:02 on July 4, 1976', '12:00 am', '19990101T2359', '990101',
         'Jan of 01', '31-Dec-00', '1 Feb 28', '04.04.95 00:22', '950404 122212', '13:44:00 UTC+3', '2016-12-21 04.2h']


def gen_number(rng):
    r = rng.random()
    if r < .5:
        n = rng.choice([1, 2, 2, 3, 4, 4, 5, 6, 6, 7, 8, 8, 9, 10, 12, 12, 13, 14, 14])
    elif r < .8:
        n = rng.randint(15, 40)
    else:
        n = rng.choice([28, 29, 30, 100, 308, 309, 310, 400])
    s = ''.join(rng.choice('0123456789') for _ in range(n))
    r = rng.random()
    if r < .15:
        k = rng.randint(0, len(s))
        s = s[:k] + rng.choice(['.', ',']) + s[k:]
    elif r < .2:
        s = s + '.' + ''.join(rng.choice('0123456789') for _ in range(rng.choice([1, 3, 6, 7, 30])))
    return s


def gen_soup(rng):
    kinds = []
    parts = []
    for _ in range(rng.choice([1, 2, 3, 3, 4, 5, 5, 6, 8, 10, 14])):
        r = rng.random()
        if r < .3:
            k, t = 'num', gen_number(rng)
        elif r < .36:
            k, t = 'month', rng.choice(MONTHS)
        elif r < .4:
            k, t = 'wday', rng.choice(WEEKDAYS)
        elif r < .46:
            k, t = 'ampm', rng.choice(AMPM)
        elif r < .52:
            k, t = 'hms', rng.choice(HMS)
        elif r < .58:
            k, t = 'zone', rng.choice(ZONES)
        elif r < .62:
            k, t = 'jump', rng.choice(JUMP)
        elif r < .84:
            k, t = 'sep', rng.choice(SEPS)
        elif r < .93:
            k, t = 'hostile', rng.choice(HOSTILE)
        else:
            k, t = 'filler', rng.choice(FILLER)
        kinds.append(k)
        parts.append(t)
    return ''.join(parts), kinds


def gen_mutated(rng):
    s = rng.choice(VALID)
    kinds = ['valid']
    for _ in range(rng.choice([0, 1, 1, 2, 3])):
        i = rng.randrange(len(s) + 1)
        r = rng.random()
        if r < .3:
            ins = rng.choice(HOSTILE + SEPS)
            kinds.append('ins')
        elif r < .5:
            ins = gen_number(rng)
            kinds.append('insnum')
        elif r < .65:
            ins = rng.choice(AMPM + HMS + ZONES)
            kinds.append('insword')
        elif r < .85 and s:
            s = s[:i] + s[i + 1:]
            kinds.append('del')
            continue
        else:
            j = rng.randrange(len(s) + 1)
            s = s[:min(i, j)] + s[max(i, j):]
            kinds.append('cut')
            continue
        s = s[:i] + ins + s[i:]
    return s, kinds


def gen_options(rng, tz, P):
    kw = {}
    label = []
    if rng.random() < .35:
        kw['fuzzy'] = True
        label.append('fuzzy')
    if rng.random() < .2:
        kw['fuzzy_with_tokens'] = True
        label.append('fwt')
    if rng.random() < .25:
        kw['dayfirst'] = rng.choice([True, False])
        label.append('df')
    if rng.random() < .25:
        kw['yearfirst'] = rng.choice([True, False])
        label.append('yf')
    if rng.random() < .2:
        kw['ignoretz'] = True
        label.append('ignoretz')
    if rng.random() < .3:
        kw['default'] = rng.choice([D.datetime(2003, 9, 25), D.datetime(2020, 1, 31, 23, 59, 59, 999999),
                                    D.datetime(2024, 2, 29, 12), D.datetime(1, 1, 1), D.datetime(9999, 12, 31, 23, 59),
                                    D.datetime(2010, 5, 30, tzinfo=tz.UTC)])
        label.append('default')
    r = rng.random()
    if r < .15:
        kw['tzinfos'] = {'BRST': -10800, 'EST': tz.tzoffset('EST', -18000), 'CET': 'CET-1CEST,M3.5.0,M10.5.0/3',
                         'PST': tz.gettz('America/Los_Angeles') or tz.tzoffset('PST', -28800), 'IST': None,
                         'UTC': 0, 'GMT': 0, 'Z': 0, 'WET': 0, 'XST': 0}          # documented value types incl. an offset of zero
        label.append('tzdict')
    elif r < .32:
        kw['tzinfos'] = lambda name, offset: offset          # the offset handed in (None, zero, or seconds) is itself a documented return value
        label.append('tzcall-offset')
    elif r < .25:
        def tzf(name, offset):
            if name is None and offset is None:
                return None
            if offset is not None and abs(offset) < 86400:
                return tz.tzoffset(name, offset)
            return {'EST': -18000, 'BRST': -10800}.get(name)
        kw['tzinfos'] = tzf
        label.append('tzcall')
    pinfo = None
    if rng.random() < .12:
        pinfo = P.parserinfo(dayfirst=rng.random() < .5, yearfirst=rng.random() < .5)
        label.append('pinfo')
    return kw, pinfo, label


def as_input(kind, text):
    if kind == 'bytes':
        return text.encode('utf-8', 'surrogatepass')
    if kind == 'bytearray':
        return bytearray(text.encode('utf-8', 'surrogatepass'))
    if kind == 'stream':
        return io.StringIO(text)
    return text


class State(object):
    def __init__(self, ctx, PP):
        self.ctx = ctx
        self.PP = PP
        self.last = None          # outcome of the monitored call just made
        self.guards = []
        self.bad = None

    def handler(self, parser, timestr, kw, out):
        ctx = self.ctx
        if timestr == '__monitor_error__' and parser is None:
            ctx.count('monitor_internal_error')
            ctx.violation('monitor-internal-error', kw, '')
            return
        ctx.hit('parser.parse')
        self.last = out
        text_like = isinstance(timestr, (str, bytes, bytearray)) or hasattr(timestr, 'read')
        if out[0] == 'exc' and isinstance(out[1], locks.SelfDeadlock):
            self.bad = ('does-not-terminate', str(out[1]))
            for g in self.guards:          # leave the process usable for the following cases
                if g.owner is not None:
                    g.release()
        elif out[0] == 'exc':
            e = out[1]
            ok = isinstance(e, (self.PP.ParserError, OverflowError)) if text_like else isinstance(e, TypeError)
            if not ok:
                self.bad = ('leaked-exception' if text_like else 'non-text-not-typeerror',
                            '%s: %s' % (type(e).__name__, str(e)[:300]))
        else:
            v = out[1]
            if kw.get('fuzzy_with_tokens'):
                ok = (isinstance(v, tuple) and len(v) == 2 and type(v[0]) is D.datetime and isinstance(v[1], tuple)
                      and all(isinstance(t, str) for t in v[1]))
            else:
                ok = type(v) is D.datetime
            if not ok:
                self.bad = ('wrong-return-type', repr(v)[:300])
            if not text_like:
                self.bad = ('non-text-accepted', repr(v)[:200])


def call(parse, P, text, kind, kw, pinfo):
    arg = as_input(kind, text)
    try:
        if pinfo is not None:
            return ('ok', parse(arg, parserinfo=pinfo, **kw))
        return ('ok', parse(arg, **kw))
    except BaseException as e:
        return ('exc', e)


def global_state():
    """Process-global settings a parse call has no business changing."""
    import calendar
    import decimal
    import locale
    import time
    c = decimal.getcontext()
    return (c.prec, c.rounding, c.Emin, c.Emax, c.capitals, c.clamp, tuple(sorted(str(k) for k, v in c.traps.items() if v)),
            calendar.firstweekday(), time.tzname, locale.getlocale(), sys.getrecursionlimit(),
            sys.get_int_max_str_digits())


def one_case(ctx, st, lc, P, text, kinds, kind, kw, pinfo, label, other=None):
    case = {'text': text, 'input': kind, 'options': sorted(k for k in kw if k not in ('tzinfos', 'default')) + label}
    st.bad = None
    g0 = global_state()
    n0 = lc.n
    out = call(P.parse, P, text, kind, kw, pinfo)
    lines = lc.n - n0
    ctx.ev()
    g1 = global_state()
    if g1 != g0:
        ctx.violation('global-state-changed', case, 'before %r after %r' % (g0, g1))
        import decimal
        decimal.setcontext(decimal.Context())
    d1 = mon_parse.describe_outcome(out)
    if st.bad:
        ctx.violation(st.bad[0], case, st.bad[1])
    bound = 5000 + 1000 * len(text)
    ctx.counters['max_lines_per_char_x100'] = max(ctx.counters.get('max_lines_per_char_x100', 0),
                                                  int(100.0 * lines / max(1, len(text))))
    if lines > bound:
        ctx.violation('not-prompt', case, '%d source lines executed for %d characters (bound %d)' % (lines, len(text), bound))
    # determinism / no state left behind: re-issue after another call
    if other is not None:
        call(P.parse, P, other[0], 'str', other[1], None)
    st.bad = None
    out2 = call(P.parse, P, text, kind, kw, pinfo)
    ctx.ev()
    d2 = mon_parse.describe_outcome(out2)
    if d1 != d2:
        # the default is "today": a run that crosses local midnight between the two calls legitimately sees another date
        out3 = call(P.parse, P, text, kind, kw, pinfo)
        out4 = call(P.parse, P, text, kind, kw, pinfo)
        d3, d4 = mon_parse.describe_outcome(out3), mon_parse.describe_outcome(out4)
        if 'default' not in kw and d3 == d4 == d2 and D.datetime.now().hour == 0 and D.datetime.now().minute < 10:
            ctx.count('midnight_rollover_between_calls')
        else:
            ctx.violation('nondeterministic-or-state-leak', dict(case, between=other[0] if other else None),
                          'first %r, again %r' % (d1, d2))
    # ... and nothing accumulated in the module-level parser object: a parser created just now gives the same outcome
    if pinfo is None and (ctx.evaluations % 3 == 0 or label == ['directed']):
        try:
            out5 = ('ok', P.parser().parse(as_input(kind, text), **kw))
        except Exception as e:
            out5 = ('exc', e)
        d5 = mon_parse.describe_outcome(out5)
        ctx.count('fresh_parser_comparisons')
        if d5 != d2 and d1 == d2:
            ctx.violation('nondeterministic-or-state-leak', dict(case, between=other[0] if other else None),
                          'the long-lived module-level parser gives %r, a parser created just now gives %r' % (d2, d5))
    oc = d1[0] if d1[0] == 'ok' else d1[1]
    ctx.count('outcome_' + oc)
    ctx.distinct('%s|%s|%s|%s' % (oc, ','.join(sorted(kinds)), kind, ','.join(label + sorted(k for k in kw if k in ('fuzzy', 'ignoretz')))))
    if ctx.evaluations % 1501 < 2:
        ctx.sample({'text': text[:120], 'input': kind, 'options': case['options'], 'outcome': repr(d1)[:200], 'lines': lines})
    return d1


def run(ctx):
    _repo_tests(ctx)
    import dateutil.parser as P
    import dateutil.parser._parser as PP
    from dateutil import tz
    st = State(ctx, PP)
    uninstall = mon_parse.install(st.handler)
    st.guards, unguard = locks.install_guards(locks.tz_factory_locks())
    lc = mon_parse.LineCounter(mon_parse.code_objects_of(PP))
    lc.start()
    try:
        rng = ctx.rng
        ctx.note('line_counter_code_objects', len(lc.codes))
        prev = ('Sep 25 2003', {})
        for i in range(N_CASES[ctx.tier]):
            if i % 300 == 0 and not ctx.time_left():
                ctx.count('stopped_by_time_budget')
                break
            text, kinds = gen_soup(rng) if rng.random() < .7 else gen_mutated(rng)
            kw, pinfo, label = gen_options(rng, tz, P)
            kind = rng.choice(['str', 'str', 'str', 'bytes', 'bytearray', 'stream'])
            other = prev if rng.random() < .7 else (rng.choice(['garbage ##', '99999999999999999999', '32/13/2000', '']), {})
            one_case(ctx, st, lc, P, text, kinds, kind, kw, pinfo, label, other)
            prev = (text, {k: v for k, v in kw.items() if k != 'fuzzy_with_tokens'})
            ctx.count('cases')
        long_inputs(ctx, st, lc, P, rng)
        ymd_shapes(ctx, st, lc, P, rng)
        if ctx.shard == 0:
            failing_then_ordinary(ctx, st, lc, P)
        non_text(ctx, st, P)
        entry_points(ctx, st, P, PP)
        ctx.note('lines_counted_total', lc.n)
        ctx.note('guarded_lock_acquisitions', {g.name: g.acquires for g in st.guards})
        if lc.n == 0:
            ctx.inconclusive_because('line counter observed nothing')
        if sum(g.acquires for g in st.guards) == 0:
            ctx.inconclusive_because('zone-factory lock guards were never reached')
    finally:
        lc.stop()
        unguard()
        uninstall()
    if ctx.shard == 0:
        option_cost_relation(ctx, P)
        scaling_relation(ctx, P)
        concurrent_calls(ctx, P, PP, ctx.rng)
        # the outcome is a function of the arguments, the default and the *current* process time zone: switching TZ between
        # calls (same abbreviations, other offsets) must not leave anything behind in the module-level or an instance parser
        from vf.checks import c15
        c15.wl_tz_switch(ctx, P, tz)


CONC_TEXTS = ['1999.12.31 23:59', 'Sep 25 2003 10:36:28', '2003-09-25T10:49:41.5-03:00', 'Thu, 25 Sep 2003 10:49:41 -0300', '10h36m28.5s',
              'Today is 25 of September of 2003, exactly at 10:49:41 with timezone -03:00.', '20030925T104941', 'garbage ##', '99999999999999999999',
              '32/13/2000', '', '10 pm', 'Jan. 1st 2021', '3rd of May 2001', '13:04 +0530 Mar 7 1989', '1.2.3.4.5.6', 'a.m. 10:00 Sat']


def concurrent_calls(ctx, P, PP, rng):
    """Overlapping parse() calls from several threads: each must give the outcome the same call gives alone
    (the outcome is a function of the arguments - nothing shared between calls).  Scheduled at line granularity inside
    the tokenizer and the parser core, then free-running."""
    from vf import sched as S
    import threading

    def outcome(text, kw):
        try:
            return mon_parse.describe_outcome(('ok', P.parse(text, **kw)))
        except Exception as e:
            return mon_parse.describe_outcome(('exc', e))
    kw_pool = [{}, {}, {'fuzzy': True}, {'fuzzy_with_tokens': True}, {'dayfirst': True}, {'default': D.datetime(2003, 9, 25)}]
    codes = [c for c in mon_parse.code_objects_of(PP)
             if c.co_qualname.startswith(('_timelex.', 'parser._parse', 'parser.parse', '_ymd.', 'parser._parse_numeric_token'))]
    ctx.note('concurrent_switch_code_objects', len(codes))
    sigs = set()
    n_runs = 60 if ctx.tier == 'quick' else 800
    for r in range(n_runs):
        tasks = [[(rng.choice(CONC_TEXTS), rng.choice(kw_pool)) for _ in range(rng.randint(1, 2))] for _ in range(rng.randint(2, 3))]
        expected = [[outcome(t, kw) for t, kw in ws] for ws in tasks]
        if r % 2:
            pol = S.RandomPolicy(rng, rng.choice([.05, .2, .5]))
        else:
            pol = S.PCTPolicy(rng, len(tasks), depth=rng.randint(1, 3), horizon=400)
        s = S.Sched(pol, codes, max_steps=60000)
        s.install()
        try:
            results, completed = s.run([(lambda ws=ws: [outcome(t, kw) for t, kw in ws]) for ws in tasks])
        finally:
            s.uninstall()
        ctx.ev()
        ctx.count('concurrent_scheduled_runs')
        sigs.add(s.signature())
        case = {'workload': 'concurrent', 'tasks': [[(t, sorted(k for k in kw)) for t, kw in ws] for ws in tasks]}
        if not completed:
            ctx.inconclusive_because('scheduled parse run did not complete')
            continue
        for i, exp in enumerate(expected):
            got = results.get('T%d' % i)
            if got is None or got[0] != 'ok':
                ctx.violation('concurrent-task-exception', case, 'T%d: %r' % (i, got))
            elif got[1] != exp:
                ctx.violation('concurrent-calls-interfere', case, 'T%d got %r, alone the same calls give %r' % (i, got[1], exp))
    ctx.count('concurrent_distinct_interleavings', len(sigs))
    # free-running threads (real preemption; tiny switch interval)
    import sys as _sys
    old = _sys.getswitchinterval()
    _sys.setswitchinterval(1e-6)
    try:
        work = [(rng.choice(CONC_TEXTS), rng.choice(kw_pool)) for _ in range(40)]
        exp = [outcome(t, kw) for t, kw in work]
        bad = []

        def worker(k):
            for rep in range(6 if ctx.tier == 'quick' else 40):
                for j in range(len(work)):
                    i = (j * (k + 1) + rep) % len(work)
                    got = outcome(*work[i])
                    if got != exp[i]:
                        bad.append((work[i][0], got, exp[i]))
        ths = [threading.Thread(target=worker, args=(k,)) for k in range(6)]
        for t in ths:
            t.start()
        for t in ths:
            t.join(120)
        if any(t.is_alive() for t in ths):
            ctx.inconclusive_because('free-running parse threads did not finish')
        ctx.ev()
        ctx.count('concurrent_free_calls', 6 * len(work) * (6 if ctx.tier == 'quick' else 40))
        if bad:
            ctx.violation('concurrent-calls-interfere', {'workload': 'concurrent-free', 'text': bad[0][0]},
                          '%d of the overlapping calls differ from the same call alone; first: got %r, alone %r' % (len(bad), bad[0][1], bad[0][2]))
    finally:
        _sys.setswitchinterval(old)


def ymd_shapes(ctx, st, lc, P, rng):
    """every shape of a three-member date (numbers from each magnitude class and a month name in each position, each
    separator, each dayfirst / yearfirst combination): the year/month/day resolution has a branch per shape"""
    nums = ['1', '07', '12', '13', '25', '31', '32', '59', '99', '100', '2003', '0', '00']
    seps = ['-', '/', '.', ' ']
    flags = [{}, {'dayfirst': True}, {'yearfirst': True}, {'dayfirst': True, 'yearfirst': True}]
    shapes = []
    for a in nums:
        for b in nums:
            shapes.append((a, 'Jan', b))
            shapes.append(('Sep', a, b))
            shapes.append((a, b, 'Feb'))
    for a in nums[:9]:
        for b in nums[:9]:
            for c in nums:
                shapes.append((a, b, c))
    k = 0
    for shape in shapes:
        for kw in flags:
            k += 1
            if k % ctx.nshards != ctx.shard:
                continue
            if ctx.tier == 'quick' and len(shape[0] + shape[1] + shape[2]) > 6 and k % 3:
                continue
            text = rng.choice(seps).join(shape)
            if rng.random() < .3:
                text += rng.choice([' 10:30', ' 1pm', 'T01:02:03'])
            one_case(ctx, st, lc, P, text, ['ymd-shape'], 'str', dict(kw), None, ['ymd'])
            ctx.count('ymd_shapes')


def long_inputs(ctx, st, lc, P, rng):
    sizes = [2000, 5000, 20000] if ctx.tier == 'quick' else [2000, 5000, 20000, 50000]
    for n in sizes:
        for maker, name in ((lambda n: '1' * n, 'digits'), (lambda n: ' '.join(['12'] * (n // 3)), 'many-numbers'),
                            (lambda n: 'x ' * (n // 2) + 'Sep 25 2003', 'filler'), (lambda n: '.' * n, 'dots'),
                            (lambda n: '1.' * (n // 2), 'dotted'), (lambda n: 'a.' * (n // 2), 'dotted-words'),
                            (lambda n: '\x00' * n + '2003', 'nuls'), (lambda n: 'am ' * (n // 3), 'ampm'),
                            (lambda n: '10:' * (n // 3), 'colons'), (lambda n: ', ' * (n // 2) + '1', 'commas')):
            text = maker(n)
            for kw in ({}, {'fuzzy': True}, {'fuzzy_with_tokens': True}):
                one_case(ctx, st, lc, P, text, ['long-' + name], 'str', kw, None, ['long'])
                ctx.count('long_inputs')


def option_cost_relation(ctx, P):
    """fuzzy_with_tokens does the work of fuzzy plus the bookkeeping of the skipped tokens: on a long text with tens of
    thousands of skipped tokens its CPU time must stay within a small factor of fuzzy's.  (The line counter cannot see a
    cost that hides in C-level operations; this is a relation between two calls measured in process CPU time back to back,
    with generous slack, not a wall-clock deadline.)"""
    import time as _t
    text = 'x99' * 20000 + 'x 10:30 on 3 May 2020'
    best = None
    for attempt in range(3):
        t0 = _t.process_time()
        a = P.parse(text, fuzzy=True)
        t1 = _t.process_time()
        b = P.parse(text, fuzzy_with_tokens=True)
        t2 = _t.process_time()
        plain, with_tokens = t1 - t0, t2 - t1
        ctx.ev()
        ctx.count('option_cost_relations')
        if best is None or with_tokens < best[1]:
            best = (plain, with_tokens)
        if a != b[0]:
            ctx.violation('fuzzy-relation', {'workload': 'option-cost', 'text': 'x99 * 20000 + date'}, 'fuzzy %r, with tokens %r' % (a, b[0]))
        if with_tokens <= 8 * plain + 1.0:
            break
    else:
        ctx.violation('not-prompt', {'workload': 'option-cost', 'text': "'x99' * 20000 + 'x 10:30 on 3 May 2020'", 'options': ['fuzzy_with_tokens']},
                      'fuzzy_with_tokens needed %.2f s of CPU time where fuzzy needed %.2f s on the same text (best of 3)' % (best[1], best[0]))
    ctx.note('option_cost_cpu_seconds', {'fuzzy': round(best[0], 3), 'fuzzy_with_tokens': round(best[1], 3)})


def failing_then_ordinary(ctx, st, lc, P):
    """a call that fails in each documented way, followed by ordinary calls that exercise the same machinery (zone
    factories, decimal context, tokenizer): the failure must leave nothing behind"""
    failing = ['10:00 +99999999999:00', '10:00 -99999999999', '99999999999999999999', '1' * 400, '10:00 UTC+999999999999', '32/13/2000 +0300',
               '2003-09-25 10:00:00.' + '9' * 300 + ' -0300', 'Sep 25 2003 10:00 EST+99999999999', '']
    # one abbreviation used with different numeric offsets in successive calls
    for name in ('IST', 'CST', 'BST', 'XST'):
        for offs in (('+0530', '+0200', '-0600'), ('-0600', '+0800', '+0100')):
            prev = None
            for off in offs:
                for form in ('10:36 %s (%s)' % (off, name), '10:36 %s%s' % (name, off[:3])):
                    one_case(ctx, st, lc, P, form, ['directed-same-name'], 'str', {}, None, ['directed'], other=prev)
                    prev = (form, {})
                    ctx.count('same_name_other_offset')
    # one tzinfos mapping object whose entries the caller edits between calls (and a callable whose answers change):
    # every call reads the mapping as it is at that call
    import datetime as D
    from dateutil import tz
    for kind in ('dict', 'callable'):
        table = {'BRST': -7200}
        arg = table if kind == 'dict' else (lambda name, off: table.get(name))
        for value, want in ((-7200, -7200), (-10800, -10800), (tz.tzoffset('Q', 60), 60), ('EST5EDT,M3.2.0,M11.1.0', -18000), (3600, 3600), (-7200, -7200)):
            table['BRST'] = value
            for text in ('2012-01-19 17:21:00 BRST', '17:21 BRST'):
                ctx.ev()
                ctx.count('mutated_tzinfos_calls')
                try:
                    got = P.parse(text, tzinfos=arg, default=D.datetime(2012, 1, 19)).utcoffset()
                except Exception as e:
                    got = '%s: %s' % (type(e).__name__, e)
                if got != D.timedelta(seconds=want):
                    ctx.violation('nondeterministic-or-state-leak', {'workload': 'mutated-tzinfos', 'text': text, 'tzinfos': kind, 'entry': repr(value)},
                                  'the tzinfos entry is %r at this call, the result has offset %r (an earlier entry was %r)' % (value, got, 'see sequence'))
    ordinary = ['2003-09-25 10:00 +03:00', 'Thu, 25 Sep 2003 10:49:41 -0300', '2003-09-25T10:49:41.5-03:30', '10:00 UTC+3', 'Sep 25 2003 10:00 BRST-3']
    for bad in failing:
        for good in ordinary:
            for kw in ({}, {'fuzzy': True}):
                one_case(ctx, st, lc, P, good, ['directed-after-failure'], 'str', dict(kw), None, ['directed'], other=(bad, {}))
                ctx.count('failing_then_ordinary')


def scaling_relation(ctx, P):
    """ten times the text, about ten times the work: for repetitive long texts of several token kinds the process CPU time of
    a call on 20 000 units is compared with that on 2 000 units.  A cost that grows with the square of the length shows as
    a ratio near 100; the bound (40x plus 1.5 s of slack, best of 2) is far from both the linear 10x and measurement noise.
    Like the option-cost relation this complements the line counter, which cannot see C-level work."""
    import time as _t
    shapes = [('12:30 ', {}), ('x99 ', {'fuzzy': True}), ('10 ', {'fuzzy': True}), ('Sep ', {'fuzzy': True}), ('1.5 ', {'fuzzy': True}),
              ('am ', {'fuzzy': True}), (', ', {'fuzzy': True}), ('10h ', {}), ('-0300 ', {'fuzzy': True}), ('12:30 ', {'fuzzy_with_tokens': True}),
              ('a.m. ', {'fuzzy': True}), ('T', {'fuzzy': True}), ('3rd ', {'fuzzy': True})]

    def cost(text, kw):
        best = None
        for _ in range(2):
            t0 = _t.process_time()
            try:
                P.parse(text, **kw)
            except (ValueError, OverflowError):
                pass
            dt = _t.process_time() - t0
            best = dt if best is None else min(best, dt)
        return best
    worst = (0, None)
    for unit, kw in shapes:
        small, large = cost(unit * 2000 + ' 3 May 2020', kw), cost(unit * 20000 + ' 3 May 2020', kw)
        ctx.ev()
        ctx.count('scaling_relations')
        ctx.distinct('scaling|%s|%s' % (unit, sorted(kw)))
        ratio = large / max(small, 1e-4)
        if ratio > worst[0]:
            worst = (round(ratio, 1), unit)
        if large > 40 * small + 1.5:
            ctx.violation('not-prompt', {'workload': 'scaling', 'text': '%r * n + date' % unit, 'options': sorted(kw)},
                          '%r repeated 20000 times needs %.2f s of CPU time, 2000 times %.3f s (ratio %.0f; linear = 10)' % (unit, large, small, ratio))
    ctx.note('scaling_worst_ratio', list(worst))


def non_text(ctx, st, P):
    import array
    for arg in (None, 5, 5.5, [], {}, object(), D.datetime(2000, 1, 1), D.date(2000, 1, 1), ('2000',), 2000 ** 5, True,
                memoryview(b'2003-09-25'), array.array('b', b'2003'), {'2003'}, frozenset(), 1j, range(3), Ellipsis, type):
        ctx.ev()
        ctx.count('non_text_calls')
        st.bad = None
        try:
            r = ('ok', P.parse(arg))
        except BaseException as e:
            r = ('exc', e)
        if st.bad:
            ctx.violation(st.bad[0], {'arg': repr(arg)}, st.bad[1])
        elif r[0] == 'ok' or not isinstance(r[1], TypeError):
            ctx.violation('non-text-not-typeerror', {'arg': repr(arg)}, repr(r[1]))
        ctx.distinct('non-text|%s' % type(arg).__name__)


def entry_points(ctx, st, P, PP):
    """Every public spelling must reach the monitored method (bound-before-wrap aliases would bypass it)."""
    for name, f in (('dateutil.parser.parse', P.parse), ('DEFAULTPARSER.parse', PP.DEFAULTPARSER.parse),
                    ('parser().parse', P.parser().parse), ('_parser.parse', PP.parse)):
        before = ctx.hits.get('parser.parse', 0)
        try:
            f('2003-09-25')
        except Exception:
            pass
        if ctx.hits.get('parser.parse', 0) == before:
            ctx.inconclusive_because('entry point %s bypasses the monitor' % name)
        ctx.count('entry_points_checked')


def _repo_tests(ctx):
    # thorough tier: the repository's own tests as one more workload under the same monitors
    if ctx.tier == 'thorough' and ctx.shard == 0:
        from vf import repo_tests
        repo_tests.run_under_monitors(ctx, ['parse'], 'C14')


def floors(agg, tier):
    c, h, out = agg['counters'], agg['hits'], []
    need = {'quick': 25000, 'thorough': 250000}[tier]
    if agg['evaluations'] < need:
        out.append('only %d evaluations (< %d)' % (agg['evaluations'], need))
    if h.get('parser.parse', 0) < need:
        out.append('monitored parse() reached only %d times' % h.get('parser.parse', 0))
    for k, n in (('outcome_ok', need // 20), ('outcome_ParserError', need // 20), ('outcome_OverflowError', 3),
                 ('long_inputs', 60), ('ymd_shapes', 1500), ('non_text_calls', 10), ('entry_points_checked', 4), ('concurrent_scheduled_runs', 50),
                 ('concurrent_distinct_interleavings', 30), ('concurrent_free_calls', 1000)):
        if c.get(k, 0) < n:
            out.append('%s only %d (< %d)' % (k, c.get(k, 0), n))
    if len(agg['distinct']) < 3000:
        out.append('only %d distinct classes' % len(agg['distinct']))
    if c.get('monitor_internal_error'):
        out.append('monitor internal errors')
    return out


def replay(ctx, case):
    import dateutil.parser as P
    import dateutil.parser._parser as PP
    st = State(ctx, PP)
    uninstall = mon_parse.install(st.handler)
    st.guards, unguard = locks.install_guards(locks.tz_factory_locks())
    lc = mon_parse.LineCounter(mon_parse.code_objects_of(PP))
    lc.start()
    try:
        if 'text' in case:
            kw = {k: True for k in case.get('options', []) if k in ('fuzzy', 'fuzzy_with_tokens', 'ignoretz')}
            one_case(ctx, st, lc, P, case['text'], ['replay'], case.get('input', 'str'), kw, None, ['replay'],
                     (case['between'], {}) if case.get('between') else None)
    finally:
        lc.stop()
        unguard()
        uninstall()
