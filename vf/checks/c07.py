"""C07 - isoparse inverts every ISO-8601 rendering of a datetime."""
import datetime as D
import io

from vf import mon_iso, render_iso
from vf.oracles import iso_ref

PROPERTY = 'C07'
LEVEL = 'exploration'
RULE = ('Seeded datetimes (boundary years 1, 99, 100, 999, 1000, 9999, ISO-week-year edges, day 366, hours 0/11/12/13/23, '
        'microseconds 0/1/999999) are rendered by an independent renderer in every supported form: calendar / week / ordinal '
        'date x basic / extended x {date only, hh, hh:mm, hh:mm:ss, fraction with 1-9 digits and "." or ","} x basic / extended '
        'time x separators (T, space, t, _, punctuation, or the configured one) x offsets (Z, z, +-hh, +-hhmm, +-hh:mm, '
        '-23:59..+23:59) x 24:00 spelling of midnight; reduced-precision dates (YYYY, YYYY-MM, YYYY-Www), time-only and '
        'offset-only texts go to parse_isodate / parse_isotime / parse_tzstr.  Each text is parsed as str, bytes and stream; '
        'the result must equal the rendered datetime truncated to the rendered precision, be naive iff no offset was '
        'rendered, carry exactly the rendered offset, use tzutc for offset zero, and be identical for the three input types. '
        'The C20 soundness monitor runs on every call as well.  Non-trivial = has a time portion or is a week/ordinal date; '
        'distinct = (entry, date system, notation, precision, fraction digits, separator, offset form, 24:00 flag).')
ASSUMPTIONS = ['vf/render_iso.py produces the canonical ISO-8601 spelling (cross-checked each run against '
               'datetime.isoformat / fromisocalendar / iso_ref)', 'CPython datetime']
MANIFEST = {
    'technique': 'runtime round-trip monitor: independent ISO-8601 renderer -> real isoparse entry points -> exact comparison (plus the C20 soundness monitor on every call); plus the same isoparse() calls through one parser from four free-running threads with injected yields (sys.monitoring), compared with the single-threaded outcomes',
    'level_text': 'Tens of thousands of seeded renderings covering the full form product are parsed by the real code through '
                  'all entry points and input types; expected values come from the renderer, never from the parser.  '
                  'Exploration: held on the renderings observed.',
    'level_note': 'Trusts the renderer (self-checked against the standard library on the forms both support) and CPython datetime.',
}
PLAN = {'quick': {'shards': 2, 'timeout': 1800, 'budget': 900},
        'thorough': {'shards': 16, 'timeout': 7200, 'budget': 2400}}
N_CASES = {'quick': 12000, 'thorough': 120000}


def renderer_selftest():
    import random
    rng = random.Random(5)
    for _ in range(600):
        dt = render_iso.random_datetime(rng)
        # extended calendar renderings must agree with datetime.isoformat
        spec = {'date': 'cal', 'dext': True, 'prec': 'hms', 'text': True, 'sep': 'T', 'off': None}
        assert render_iso.render(dt, spec)[0] == dt.replace(microsecond=0).isoformat(), dt
        spec = {'date': 'cal', 'dext': True, 'prec': 'frac', 'nfrac': 6, 'fsep': '.', 'text': True, 'sep': 'T',
                'off': ('hh:mm', 19800)}
        want = dt.replace(tzinfo=D.timezone(D.timedelta(seconds=19800))).isoformat()
        if dt.microsecond:
            assert render_iso.render(dt, spec)[0] == want, (render_iso.render(dt, spec)[0], want)
        # week / ordinal renderings are read back by the standard library / iso_ref
        t = render_iso.render_date(dt.date(), 'week', True)
        y, w, d = int(t[:4]), int(t[6:8]), int(t[9])
        assert D.date.fromisocalendar(y, w, d) == dt.date()
        t = render_iso.render_date(dt.date(), 'ord', True)
        assert D.date(int(t[:4]), 1, 1) + D.timedelta(days=int(t[5:]) - 1) == dt.date()
        spec = render_iso.random_spec(rng)
        text, exp, off = render_iso.render(dt, spec)
        assert (exp, off) in iso_ref.denote_datetime(text), (text, exp, off)
    return True


class ReadOnly(object):
    """a stream that can only be read (no seek / tell), like a pipe"""

    def __init__(self, text):
        self._s = io.StringIO(text)

    def read(self, n=-1):
        return self._s.read(n)


def positioned(text):
    s = io.StringIO('DTSTART:' + text)
    s.read(8)
    return s


def as_inputs(text):
    # (a stream is read from where it stands: a consumed prefix is not part of the text)
    return [('str', text), ('bytes', text.encode('ascii')), ('stream', io.StringIO(text)),
            ('bytestream', io.BytesIO(text.encode('ascii'))), ('read-only stream', ReadOnly(text)), ('stream after a consumed prefix', positioned(text))]


def call(f, arg):
    try:
        return ('ok', f(arg))
    except Exception as e:
        return ('exc', e)


class Handler(object):
    """C20 soundness on every call that passes through the entry points while C07 runs."""

    def __init__(self, ctx):
        self.ctx = ctx

    def __call__(self, entry, sep, text, kind, out, kwargs):
        if entry == '__monitor_error__':
            self.ctx.count('monitor_internal_error')
            return
        self.ctx.hit(entry)
        v = mon_iso.soundness(entry, sep, text, out)
        if v is not None:
            self.ctx.violation('soundness-' + v[0], {'entry': entry, 'sep': sep, 'text': text}, v[1])


def check_datetime(ctx, tz, parser, psep, text, exp, off, key, via_alias=None):
    case = {'entry': 'isoparse', 'sep': psep, 'text': text, 'expected': [repr(exp), off]}
    results = []
    for kind, arg in as_inputs(text):
        f = via_alias if (via_alias is not None and kind == 'str') else parser.isoparse
        r = call(f, arg)
        ctx.ev()
        results.append((kind, r))
        if r[0] == 'exc':
            ctx.violation('rendering-rejected', dict(case, input=kind), '%s: %s' % (type(r[1]).__name__, r[1]))
            continue
        v = r[1]
        bad = []
        if type(v) is not D.datetime:
            bad.append('type %s' % type(v).__name__)
        else:
            if v.replace(tzinfo=None) != exp:
                bad.append('value %r != %r' % (v.replace(tzinfo=None), exp))
            if off is None:
                if v.tzinfo is not None:
                    bad.append('aware although no offset was rendered')
            else:
                if v.tzinfo is None:
                    bad.append('naive although an offset was rendered')
                elif v.utcoffset() != D.timedelta(seconds=off):
                    bad.append('offset %r != %d s' % (v.utcoffset(), off))
                elif off == 0 and not isinstance(v.tzinfo, tz.tzutc):
                    bad.append('zero offset not represented as UTC: %r' % (v.tzinfo,))
                elif off != 0 and not isinstance(v.tzinfo, tz.tzoffset):
                    bad.append('offset zone is %r' % (v.tzinfo,))
        if bad:
            ctx.violation('round-trip', dict(case, input=kind), '; '.join(bad))
    oks = [r[1] for k, r in results if r[0] == 'ok']
    if len(oks) > 1 and any((o != oks[0]) or (o.tzinfo is None) != (oks[0].tzinfo is None) for o in oks[1:]):
        ctx.violation('input-types-disagree', case, repr(oks))
    if key is not None:
        ctx.distinct(key)


def run(ctx):
    if not (iso_ref.selftest() and renderer_selftest()):
        ctx.inconclusive_because('oracle / renderer self-test failed')
        return
    import dateutil.parser as P
    from dateutil import tz
    uninstall = mon_iso.install(Handler(ctx))
    try:
        rng = ctx.rng
        default = P.isoparser()
        for i in range(N_CASES[ctx.tier]):
            if i % 500 == 0 and not ctx.time_left():
                ctx.count('stopped_by_time_budget')
                break
            dt = render_iso.random_datetime(rng)
            r = rng.random()
            if r < .62:
                spec = render_iso.random_spec(rng)
                if spec['prec'] != 'date' and rng.random() < .35:
                    psep = spec['sep']
                    if psep.isdigit() or ord(psep) > 127:
                        psep = None
                else:
                    psep = None
                try:
                    parser = default if psep is None else P.isoparser(sep=psep)
                except Exception as e:
                    ctx.ev()
                    ctx.violation('separator-rejected', {'sep': psep}, 'isoparser(sep=%r) raised %s: %s' % (psep, type(e).__name__, e))
                    continue
                text, exp, off = render_iso.render(dt, spec)
                h24 = 'T24' in text.replace(spec['sep'], 'T', 1) if spec['prec'] != 'date' else False
                if h24:
                    ctx.count('rendered_24h')
                nontrivial = spec['prec'] != 'date' or spec['date'] != 'cal'
                key = 'dt|%s|%s|%s|%s|%s|%s|%s|%s|%s' % (
                    spec['date'], 'x' if spec['dext'] else 'b', spec['prec'], 'x' if spec['text'] else 'b',
                    spec['nfrac'] if spec['prec'] == 'frac' else '-', spec['sep'] if spec['prec'] != 'date' else '-',
                    spec['off'][0] if spec['off'] and spec['prec'] != 'date' else '-', h24,
                    'cfgsep' if psep else 'anysep') if nontrivial else None
                ctx.count('form_%s_%s' % (spec['date'], spec['prec']))
                alias = P.isoparse if (psep is None and rng.random() < .4) else None
                if alias:
                    ctx.count('via_module_alias')
                check_datetime(ctx, tz, parser, psep, text, exp, off, key, alias)
                if i % 400 == 0:
                    ctx.sample({'text': text, 'expected': [repr(exp), off], 'sep': psep})
            elif r < .75:
                reduced(ctx, default, P, rng, dt)
            elif r < .9:
                time_only(ctx, default, tz, rng, dt)
            else:
                tz_only(ctx, default, tz, rng)
        # directed: every ASCII character that is not a digit can be configured as the separator; the parser then reads its
        # own separator and no other
        if ctx.shard == 0:
            for code in range(128):
                c = chr(code)
                if c.isdigit():
                    continue
                for sep in (c,):
                    ctx.ev()
                    ctx.count('configured_separator_sweep')
                    case = {'sep': repr(sep), 'workload': 'separator-sweep'}
                    try:
                        p = P.isoparser(sep=sep)
                    except Exception as e:
                        ctx.violation('separator-rejected', case, 'isoparser(sep=%r) raised %s: %s' % (sep, type(e).__name__, e))
                        continue
                    for text, exp in (('2014-01-02%s10:30:15' % c, D.datetime(2014, 1, 2, 10, 30, 15)), ('20140102%s1030' % c, D.datetime(2014, 1, 2, 10, 30)),
                                      ('2014-W01-4%s10' % c, D.datetime(2014, 1, 2, 10))):
                        r = call(p.isoparse, text)
                        if r[0] == 'exc' or r[1] != exp:
                            ctx.violation('own-separator-not-read', dict(case, text=text), 'got %r' % (r[1],))
                    other = 'T' if c != 'T' else ' '
                    r = call(p.isoparse, '2014-01-02%s10:30:15' % other)
                    if not (r[0] == 'exc' and isinstance(r[1], ValueError)):
                        ctx.violation('foreign-separator-read', dict(case, text='2014-01-02%s10:30:15' % other), 'got %r' % (r[1],))
        ctx.note('entry points monitored for soundness too', list(mon_iso.ENTRIES))
    finally:
        uninstall()
    if ctx.shard == 0:
        # the same texts from four threads at once, through one shared parser object (outcomes compared with the
        # single-threaded ones, which the monitor judged above)
        from vf import concurrent as CC
        import random
        r2 = random.Random(ctx.seed + 7)
        pool = []
        for _ in range(200):
            text, exp, off = render_iso.render(render_iso.random_datetime(r2), render_iso.random_spec(r2))
            pool.append(text)
        pool += ['2014-02-04T12:30:15.224+05:30', '20140204T2400', '2014-W06-2T00:00Z', '2014-035', 'not a date', '2014-02-30']
        shared = P.isoparser()
        CC.concurrent_pure(ctx, 'isoparse', ['dateutil.parser.isoparser'], shared.isoparse, pool, 12 if ctx.tier == 'quick' else 200)


def reduced(ctx, parser, P, rng, dt):
    form = rng.choice(['Y', 'Y-M', 'Y-Ww', 'YWw', 'cal', 'week', 'ord'])
    ext = rng.random() < .5
    d = dt.date()
    if form == 'Y':
        text, exp = '%04d' % d.year, D.date(d.year, 1, 1)
    elif form == 'Y-M':
        text, exp = '%04d-%02d' % (d.year, d.month), D.date(d.year, d.month, 1)
    elif form in ('Y-Ww', 'YWw'):
        y, w, wd = d.isocalendar()
        text = '%04d%sW%02d' % (y, '-' if form == 'Y-Ww' else '', w)
        exp = d - D.timedelta(days=wd - 1)
        if exp.year < 1:
            return
    else:
        text, exp = render_iso.render_date(d, form, ext), d
    ctx.count('form_dateonly_' + form)
    for kind, arg in as_inputs(text):
        ctx.ev()
        r = call(parser.parse_isodate, arg)
        case = {'entry': 'parse_isodate', 'text': text, 'input': kind, 'expected': repr(exp)}
        if r[0] == 'exc':
            ctx.violation('rendering-rejected', case, '%s: %s' % (type(r[1]).__name__, r[1]))
        elif type(r[1]) is not D.date or r[1] != exp:
            ctx.violation('round-trip', case, 'got %r' % (r[1],))
    ctx.ev()
    r = call(parser.isoparse, text)
    case = {'entry': 'isoparse', 'text': text, 'expected': repr(exp)}
    if r[0] == 'exc':
        ctx.violation('rendering-rejected', case, '%s: %s' % (type(r[1]).__name__, r[1]))
    elif r[1] != D.datetime(exp.year, exp.month, exp.day) or r[1].tzinfo is not None:
        ctx.violation('round-trip', case, 'got %r' % (r[1],))
    ctx.distinct('date|%s|%s' % (form, 'x' if ext else 'b'))


def time_only(ctx, parser, tz, rng, dt):
    spec = render_iso.random_spec(rng, date_only_ok=False)
    t = dt.time()
    text, exp, off = render_iso.render_time(t, spec)
    if rng.random() < .1:       # 24:00 forms of midnight
        text = {'h': '24', 'hm': '24:00' if spec['text'] else '2400', 'hms': '24:00:00' if spec['text'] else '240000',
                'frac': ('24:00:00' if spec['text'] else '240000') + spec['fsep'] + '0' * spec['nfrac']}[spec['prec']]
        if spec['off']:
            text += render_iso.render_offset(*spec['off'])
        exp = D.time(0, 0)
        ctx.count('rendered_24h_time')
    ctx.count('form_timeonly_' + spec['prec'])
    for kind, arg in as_inputs(text):
        ctx.ev()
        r = call(parser.parse_isotime, arg)
        case = {'entry': 'parse_isotime', 'text': text, 'input': kind, 'expected': [repr(exp), off]}
        if r[0] == 'exc':
            ctx.violation('rendering-rejected', case, '%s: %s' % (type(r[1]).__name__, r[1]))
            continue
        v = r[1]
        bad = []
        if type(v) is not D.time or v.replace(tzinfo=None) != exp:
            bad.append('value %r' % (v,))
        elif (off is None) != (v.tzinfo is None):
            bad.append('naive/aware mismatch')
        elif off is not None and v.utcoffset() != D.timedelta(seconds=off):
            bad.append('offset %r' % (v.utcoffset(),))
        elif off == 0 and not isinstance(v.tzinfo, tz.tzutc):
            bad.append('zero offset not UTC')
        if bad:
            ctx.violation('round-trip', case, '; '.join(bad))
    ctx.distinct('time|%s|%s|%s|%s' % (spec['prec'], 'x' if spec['text'] else 'b',
                                       spec['nfrac'] if spec['prec'] == 'frac' else '-', spec['off'][0] if spec['off'] else '-'))


def tz_only(ctx, parser, tz, rng):
    form = rng.choice(['Z', 'z', 'hh', 'hhmm', 'hh:mm'])
    if form in ('Z', 'z'):
        secs = 0
    elif form == 'hh':
        secs = rng.choice([-1, 1]) * rng.randint(0, 23) * 3600
    else:
        secs = rng.choice([-1, 1]) * (rng.choice([0, 0, 23, rng.randint(0, 23)]) * 3600 + rng.choice([0, 1, 59, rng.randint(0, 59)]) * 60)
    text = render_iso.render_offset(form, secs)
    ctx.count('form_tzonly_' + form)
    orders = [(True, False, None), (False, True, None), (None, False, True), (False, None, True)]
    for zero_as_utc in orders[ctx.evaluations % 4]:          # the same parser object is asked in varying orders
        for kind, arg in as_inputs(text):
            ctx.ev()
            f = parser.parse_tzstr if zero_as_utc is None else (lambda a: parser.parse_tzstr(a, zero_as_utc=zero_as_utc))
            r = call(f, arg)
            case = {'entry': 'parse_tzstr', 'text': text, 'input': kind, 'zero_as_utc': zero_as_utc, 'expected': secs}
            if r[0] == 'exc':
                ctx.violation('rendering-rejected', case, '%s: %s' % (type(r[1]).__name__, r[1]))
                continue
            v = r[1]
            bad = []
            if not isinstance(v, D.tzinfo) or v.utcoffset(None) != D.timedelta(seconds=secs):
                bad.append('offset %r' % (v,))
            elif secs == 0 and zero_as_utc is not False and not isinstance(v, tz.tzutc):
                bad.append('zero offset not UTC: %r' % (v,))
            elif form in ('Z', 'z') and not isinstance(v, tz.tzutc):
                bad.append('Z not UTC: %r' % (v,))
            elif secs == 0 and zero_as_utc is False and form not in ('Z', 'z') and isinstance(v, tz.tzutc):
                bad.append('zero_as_utc=False returned tz.UTC for a numeric zero offset (whatever the parser was asked before)')
            if bad:
                ctx.violation('round-trip', case, '; '.join(bad))
    ctx.distinct('tz|%s|%s' % (form, 'zero' if secs == 0 else ('neg' if secs < 0 else 'pos')))


def floors(agg, tier):
    c, h, out = agg['counters'], agg['hits'], []
    from vf import concurrent as CC
    CC.floor(c, 'isoparse', 1500, 1000, out)
    need = {'quick': 60000, 'thorough': 600000}[tier]
    if agg['evaluations'] < need:
        out.append('only %d evaluations (< %d)' % (agg['evaluations'], need))
    for system in ('cal', 'week', 'ord'):
        for prec in ('date', 'h', 'hm', 'hms', 'frac'):
            if c.get('form_%s_%s' % (system, prec), 0) < 30:
                out.append('form %s/%s rendered only %d times' % (system, prec, c.get('form_%s_%s' % (system, prec), 0)))
    for k in ('rendered_24h', 'rendered_24h_time', 'via_module_alias', 'form_dateonly_Y', 'form_dateonly_Y-M', 'form_dateonly_Y-Ww',
              'form_timeonly_frac', 'form_tzonly_hh:mm'):
        if c.get(k, 0) < 15:
            out.append('%s only %d' % (k, c.get(k, 0)))
    for e in mon_iso.ENTRIES:
        if h.get(e, 0) < 500:
            out.append('monitored entry %s hit only %d times' % (e, h.get(e, 0)))
    if len(agg['distinct']) < 1500:
        out.append('only %d distinct non-trivial forms' % len(agg['distinct']))
    if c.get('monitor_internal_error'):
        out.append('monitor internal errors')
    return out


def replay(ctx, case):
    import dateutil.parser as P
    uninstall = mon_iso.install(Handler(ctx))
    try:
        p = P.isoparser(sep=case.get('sep'))
        text = case['text']
        f = getattr(p, case.get('entry', 'isoparse'))
        if case.get('entry') == 'parse_tzstr' and case.get('zero_as_utc') is not None:
            r = call(lambda a: f(a, zero_as_utc=case['zero_as_utc']), text)
        else:
            r = call(f, text)
        ctx.ev()
        exp = case.get('expected')
        got = repr(r[1])
        if r[0] == 'exc':
            ctx.violation('rendering-rejected', case, got)
        else:
            ctx.note('replayed_result', got)
            if case.get('entry', 'isoparse') == 'isoparse' and isinstance(exp, list):
                v = r[1]
                off = None if v.utcoffset() is None else int(v.utcoffset().total_seconds())
                if [repr(v.replace(tzinfo=None)), off] != exp:
                    ctx.violation('round-trip', case, 'got %s offset %r' % (got, off))
    finally:
        uninstall()
