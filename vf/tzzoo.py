"""Zone providers for the time-zone checks (C04, C05, C06, C08, C17): real TZif files, synthetic TZif data,
POSIX rule triples and their tzstr / tzrange / VTIMEZONE equivalents, plus hit-counting wrappers on the tzinfo
classes (evidence that the monitored methods were really reached)."""
import datetime as D
import hashlib
import os

from vf.oracles import posix_tz_ref as PZ
from vf.oracles import tzif_ref

ZONEINFO = '/usr/share/zoneinfo'
EPOCH = D.datetime(1970, 1, 1)


# ---------------------------------------------------------------------------------------------
# real TZif files
# ---------------------------------------------------------------------------------------------

def real_files(root=ZONEINFO):
    """-> [(name, path, data)] one per distinct file content, sorted by name"""
    seen, out = {}, []
    if not os.path.isdir(root):
        return out
    names = []
    for dp, dn, fn in os.walk(root):
        for f in fn:
            p = os.path.join(dp, f)
            rel = os.path.relpath(p, root)
            if rel.startswith(('posix/', 'right/')):
                continue
            names.append((rel, p))
    names.sort()
    for rel, p in names:
        try:
            with open(p, 'rb') as fh:
                head = fh.read(4)
                if head != b'TZif':
                    continue
                data = head + fh.read()
        except (IOError, OSError):
            continue
        h = hashlib.sha1(data).digest()
        if h in seen:
            continue
        seen[h] = rel
        out.append((rel, p, data))
    return out


def shapes_of(rz):
    """which transition shapes the data contains (decided from the data, never from the name)"""
    s = set()
    for i, t in enumerate(rz.trans):
        prev = rz.before if i == 0 else rz.types[rz.idx[i - 1]]
        new = rz.types[rz.idx[i]]
        d = new[0] - prev[0]
        if d < 0 and new[1]:
            s.add('fold-into-dst-flagged')          # negative DST, DST->DST with smaller offset
        if prev[1] and new[1]:
            s.add('dst-to-dst')
        if d == 0 and prev != new:
            s.add('same-offset-type-change')
        if i == 0 and d < 0:
            s.add('first-transition-fold')
        if i == 0 and d > 0:
            s.add('first-transition-gap')
        if abs(d) > 86400 - 1:
            s.add('offset-change>=24h')
        if abs(d) % 60:
            s.add('sub-minute-offset-change')
        if d and abs(d) not in (1800, 3600, 7200) and not abs(d) % 60 and abs(d) < 14400:
            s.add('odd-width')
        if abs(d) == 1800:
            s.add('30-minute')
        if abs(d) == 7200:
            s.add('2-hour')
        if i + 1 < len(rz.trans) and rz.trans[i + 1] - t < 3 * 86400:
            s.add('transitions-within-3-days')
    if not rz.trans:
        s.add('no-transitions')
    return s


def stratified_sample(files, rng, k):
    """every file that shows a rare shape + random others, k in total (at least)"""
    rare = ('fold-into-dst-flagged', 'dst-to-dst', 'same-offset-type-change', 'first-transition-fold', 'offset-change>=24h',
            'sub-minute-offset-change', '2-hour', '30-minute', 'transitions-within-3-days', 'no-transitions')
    by_shape = {}
    parsed = []
    for name, path, data in files:
        try:
            rz = tzif_ref.RefZone(data)
        except Exception:
            continue
        sh = shapes_of(rz)
        parsed.append((name, path, data, rz, sh))
        for s in sh:
            by_shape.setdefault(s, []).append(len(parsed) - 1)
    chosen = set()
    for s in rare:
        idxs = by_shape.get(s, [])
        for i in rng.sample(idxs, min(3, len(idxs))):
            chosen.add(i)
    rest = [i for i in range(len(parsed)) if i not in chosen]
    rng.shuffle(rest)
    for i in rest[:max(0, k - len(chosen))]:
        chosen.add(i)
    return [parsed[i] for i in sorted(chosen)]


# ---------------------------------------------------------------------------------------------
# synthetic TZif data
# ---------------------------------------------------------------------------------------------

def ts(y, m=1, d=1, h=0, mi=0, s=0):
    return int((D.datetime(y, m, d, h, mi, s) - EPOCH).total_seconds())


def synthetic(rng, wild=False):
    """-> [(label, data)].  Within PEP 495's assumption (no wall time with > 2 pre-images) unless wild=True."""
    Z = []
    W = tzif_ref.write_tzif
    Z.append(('no-transitions', W([], [], [(3600, False, 'ONE')])))
    Z.append(('no-transitions-two-types-dst-first', W([], [], [(7200, True, 'SUM'), (3600, False, 'WIN')])))
    Z.append(('one-type-with-transitions', W([ts(1980), ts(1990)], [0, 0], [(-18000, False, 'EST')])))
    # ordinary northern zone, 10 years
    tr, ix = [], []
    for y in range(1990, 2000):
        tr += [ts(y, 4, 1, 7), ts(y, 10, 25, 6)]
        ix += [1, 0]
    Z.append(('ordinary', W(tr, ix, [(-18000, False, 'EST'), (-14400, True, 'EDT')], [0, 0], [0, 0])))
    # negative DST (Dublin style): standard is summer (+1), "DST" is winter (0) flagged isdst
    tr, ix = [ts(1968, 10, 27, 1)], [0]
    for y in range(1972, 1980):
        tr += [ts(y, 3, 19, 2), ts(y, 10, 29, 2)]
        ix += [0, 1]
    Z.append(('negative-dst', W(tr, ix, [(3600, False, 'IST'), (0, True, 'GMT')])))
    # double summer time: STD -> DST(+1) -> DDST(+2) -> DST(+1) -> STD
    Z.append(('dst-to-dst', W([ts(1941, 3, 1), ts(1941, 5, 4, 1), ts(1941, 8, 10, 1), ts(1941, 11, 1)], [1, 2, 1, 0],
                              [(0, False, 'GMT'), (3600, True, 'BST'), (7200, True, 'BDST')])))
    # same-offset type changes (abbreviation / isdst flips without an offset change)
    Z.append(('same-offset-type-change', W([ts(1950), ts(1960), ts(1970, 6, 1), ts(1975)], [1, 2, 3, 0],
                                           [(10800, False, 'AAA'), (10800, False, 'BBB'), (10800, True, 'CCC'), (14400, True, 'DDD')])))
    # first transition is a fold (LMT ahead of standard) and first transition is a gap
    Z.append(('first-transition-fold', W([ts(1905, 1, 1), ts(1950, 4, 1, 2), ts(1950, 10, 1, 2)], [1, 2, 1],
                                         [(1172, False, 'LMT'), (0, False, 'GMT'), (3600, True, 'BST')])))
    Z.append(('first-transition-gap', W([ts(1905, 1, 1), ts(1950, 4, 1, 2)], [1, 2],
                                        [(-1172, False, 'LMT'), (0, False, 'GMT'), (3600, True, 'BST')])))
    # half-hour and two-hour savings, 45-minute standard offset
    Z.append(('half-hour-dst', W([ts(1981, 3, 1, 16), ts(1981, 10, 25, 15, 30), ts(1982, 3, 7, 16)], [1, 0, 1],
                                 [(37800, False, 'LHST'), (39600, True, 'LHDT')])))
    Z.append(('two-hour-dst', W([ts(2005, 3, 25, 1), ts(2005, 10, 30, 1), ts(2006, 3, 25, 1)], [1, 0, 1],
                                [(0, False, 'ZZZ'), (7200, True, 'ZZST')])))
    Z.append(('45-minute-offset', W([ts(1986, 1, 1)], [1], [(19800, False, 'IST'), (20700, False, 'NPT')])))
    # date-line moves: +-24h jumps
    Z.append(('skip-a-day', W([ts(2011, 12, 30, 10)], [1], [(-36000, False, 'AAA'), (50400, False, 'BBB')])))
    Z.append(('repeat-a-day', W([ts(1912, 7, 5, 10)], [1], [(45000, False, 'LMT'), (-41400, False, 'LMT')])))
    # indicators, leap records and shared abbreviation suffixes must not matter
    Z.append(('isstd-isut-leaps', W([ts(1995, 4, 2, 7), ts(1995, 10, 29, 6)], [1, 0], [(-18000, False, 'EST'), (-14400, True, 'EEST')],
                                    [1, 1], [1, 0], [(ts(1972, 7, 1), 1), (ts(1973, 1, 1), 2)])))
    # the two indicator arrays are independent of each other: either may be absent
    Z.append(('isut-only', W([ts(1995, 4, 2, 7), ts(1995, 10, 29, 6)], [1, 0], [(-18000, False, 'EST'), (-14400, True, 'EDT')], None, [0, 0])))
    Z.append(('isstd-only', W([ts(1995, 4, 2, 7), ts(1995, 10, 29, 6)], [1, 0], [(-18000, False, 'EST'), (-14400, True, 'EDT')], [1, 0], None)))
    # type 0 is DST: "before" must be the first *standard* type
    Z.append(('dst-type-first', W([ts(1990, 4, 1, 7), ts(1990, 10, 28, 6), ts(1991, 4, 7, 7)], [0, 1, 0],
                                  [(-14400, True, 'EDT'), (-18000, False, 'EST')])))
    # transitions one day apart (within the spacing assumption)
    Z.append(('close-transitions', W([ts(2000, 1, 1), ts(2000, 1, 2), ts(2000, 1, 3, 12)], [1, 0, 1],
                                     [(0, False, 'AAA'), (3600, True, 'BBB')])))
    # abbreviations stored as suffixes of longer ones (zic shares them: America/Adak has HST inside AHST)
    Z.append(('suffix-shared-abbreviations', W([ts(1967, 4, 30, 12), ts(1967, 10, 29, 11), ts(1983, 10, 30, 12), ts(1984, 4, 29, 12), ts(1984, 10, 28, 11)],
                                               [1, 0, 2, 3, 2], [(-39600, False, 'BAHST'), (-36000, True, 'AHDT'), (-36000, False, 'HST'), (-32400, True, 'HDT')])))
    # more than 128 local time types (the type index is an unsigned byte: 0..255)
    many = [(60 * (i - 100), bool(i % 5 == 3), 'A%02d' % (i % 40)) for i in range(200)]      # abbreviation offsets are bytes too
    Z.append(('many-types', W([ts(1970, 1, 1) + 30 * 86400 * (i + 1) for i in range(199)], list(range(1, 200)), many)))
    Z.append(('many-types-high-first', W([ts(1980), ts(1990), ts(2000)], [199, 130, 128], many)))
    # every transition switches to a DST-flagged type (standard time only before the first one)
    Z.append(('all-transitions-dst', W([ts(1941, 3, 1), ts(1941, 6, 1), ts(1941, 9, 1), ts(1942, 3, 1)], [1, 2, 1, 2],
                                       [(3600, False, 'STD'), (7200, True, 'SUM'), (10800, True, 'DSU')])))
    Z.append(('single-transition-to-dst', W([ts(1980, 4, 6, 7)], [1], [(-18000, False, 'EST'), (-14400, True, 'EDT')])))
    # an offset drop larger than the distance to the previous transition: the wall-clock positions of the transitions are
    # not ascending, yet no wall time has more than two pre-images
    U = ts(1985, 6, 1, 12)
    Z.append(('rename-then-fold', W([U, U + 1800], [1, 2], [(3600, False, 'AAA'), (3600, False, 'BBB'), (0, False, 'CCC')])))
    Z.append(('rename-then-big-fold', W([U, U + 3600], [2, 1], [(14400, False, 'AAA'), (0, True, 'BBB'), (14400, False, 'CCC')])))
    # random well-spaced zones
    for n in range(6):
        k = rng.randint(2, 12)
        t0 = ts(rng.randint(1905, 2030), rng.randint(1, 12), rng.randint(1, 28))
        types = [(rng.choice([-43200, -12600, -3600, 0, 1172, 3600, 19800, 20700, 45000]), False, 'S%d' % n)]
        for j in range(rng.randint(1, 3)):
            types.append((types[0][0] + rng.choice([1800, 3600, 7200, -3600]), rng.random() < .8, 'D%d%d' % (n, j)))
        tr, ix, cur = [], [], 0
        for j in range(k):
            t0 += rng.randint(40, 400) * 86400 + rng.choice([0, 3600, 7200, 1800])
            if t0 > 2 ** 31 - 86400 * 400:
                break
            nxt = rng.choice([i for i in range(len(types)) if i != cur])
            tr.append(t0)
            ix.append(nxt)
            cur = nxt
        Z.append(('random-%d' % n, W(tr, ix, types)))
    if wild:
        # offset changes larger than the spacing of transitions (C06 only: UTC -> type is still well defined)
        Z.append(('wild-jumps', W([ts(2000, 1, 1), ts(2000, 1, 1, 1), ts(2000, 1, 1, 2), ts(2000, 1, 1, 3)], [1, 2, 0, 1],
                                  [(0, False, 'AAA'), (36000, True, 'BBB'), (-36000, False, 'CCC')])))
        U = ts(1985, 6, 1, 12)
        Z.append(('wild-two-setbacks-30min-apart', W([U, U + 1800], [1, 2], [(7200, False, 'AAA'), (3600, False, 'BBB'), (0, False, 'CCC')])))
        Z.append(('wild-flip-flop-10min', W([U, U + 600, U + 1200, U + 1800], [2, 1, 2, 1], [(3600, False, 'AAA'), (0, False, 'BBB'), (3600, False, 'CCC')])))
        Z.append(('wild-many-types', W([ts(1999, 12, 31, 23) + 600 * i for i in range(12)], [(i % 4) for i in range(12)],
                                       [(0, False, 'Q0'), (3600, True, 'Q1'), (-7200, False, 'Q2'), (1800, True, 'Q3')])))
    return Z


# ---------------------------------------------------------------------------------------------
# POSIX rule triples and their equivalents
# ---------------------------------------------------------------------------------------------

def gen_posix(rng, k3_domain=False):
    """A rule triple whose start and end are >= 1 month apart and away from the year boundary.
    k3_domain=True also allows end times that put the standard-time-of-day outside [0, 24h)."""
    north = rng.random() < .6
    a_month, b_month = (rng.choice([3, 4]), rng.choice([9, 10, 11])) if north else (rng.choice([9, 10, 11]), rng.choice([2, 3, 4]))

    def rule(month):
        r = rng.random()
        if r < .6:
            return ('M', month, rng.randint(1, 5), rng.randint(0, 6))
        first = (D.date(2001, month, 1) - D.date(2001, 1, 1)).days
        mlen = (D.date(2001, month + 1, 1) - D.date(2001, month, 1)).days
        day = rng.choice([1, mlen, mlen, rng.randint(1, mlen), rng.randint(1, mlen)])     # month ends and starts matter
        if r < .8:
            return ('J', first + day)
        return ('N', first + day - 1)
    stdoff = rng.choice([-43200, -36000, -18000, -17762, -12600, -3600, 0, 1172, 3600, 7200, 19800, 20700, 34200, 36000, 43200, 45900])
    saving = rng.choice([1800, 3600, 3600, 3600, 7200])
    if rng.random() < .06:
        stdoff = -saving             # daylight time exactly UTC: an explicit daylight offset of zero
    std = rng.choice(['EST', 'CET', 'AEST', 'NST', 'AAA', 'WET', 'XYZST'])
    dst = rng.choice(['EDT', 'CEST', 'AEDT', 'NDT', 'BBB', 'WEST', 'XYZDT'])
    times = [0, 3600, 7200, 7200, 7200, 10800, 60, 7261, 9015, 11159, 9000, 82800]
    stime = rng.choice(times)
    etime = rng.choice(times + ([86400] if k3_domain else []))
    if not k3_domain:
        # keep the end's standard-time-of-day inside [0, 24h): etime - saving >= 0
        if etime - saving < 0:
            etime = saving + rng.choice([0, 3600])
    end_rule = rule(b_month)
    if k3_domain == 'force':
        end_rule = ('M', b_month, rng.randint(1, 5), rng.randint(0, 6))
        etime = rng.choice([0, 0, saving - 1800, 86400 + saving] if saving > 1800 else [0, 86400 + saving])
    return PZ.PosixZone(std, stdoff, dst, stdoff + saving, rule(a_month), stime, end_rule, etime)


def subminute(z):
    """offsets with a seconds part: POSIX allows [+-]hh:mm:ss, dateutil's TZ-string reader only takes hh[:mm] / hhmm and
    rejects the string with ValueError.  Outside the quantifier of C08 ("offsets incl. half-hour and two-hour savings");
    the checks accept either a ValueError or a zone that is then held to the model like any other."""
    return bool(z.stdoff % 60 or z.dstoff % 60)


def k3_applies(z):
    """Known finding K3: tzstr folds the end time into the relativedelta before the weekday rule, so an M-form end
    rule whose standard-time-of-day (end time minus saving) lies outside [0, 24h) lands on the wrong day."""
    saving = z.dstoff - z.stdoff
    s = z.etime - saving
    return z.end[0] == 'M' and not (0 <= s < 86400) or (z.start[0] == 'M' and not (0 <= z.stime < 86400))


def k3_explains(z, u):
    """Is a wrong answer at the naive UTC instant u what K3 produces?  The finding moves one transition (the one whose rule
    has the out-of-range time of day) onto a neighbouring week: only instants within eight days of a true transition of an
    affected rule can differ."""
    if not k3_applies(z):
        return False
    import datetime as D
    saving = z.dstoff - z.stdoff
    start_hit = z.start[0] == 'M' and not (0 <= z.stime < 86400)
    end_hit = z.end[0] == 'M' and not (0 <= z.etime - saving < 86400)
    for y in (u.year - 1, u.year, u.year + 1):
        if not 1 <= y <= 9999:
            continue
        ts, te = z.transitions(y)
        if (start_hit and abs(u - ts) <= D.timedelta(days=8)) or (end_hit and abs(u - te) <= D.timedelta(days=8)):
            return True
    return False


def tzrange_equivalent(tz, relativedelta, z):
    """tzrange built through the documented relativedelta recipe (start in standard time, end in standard time)."""
    def rd(rule, seconds):
        if rule[0] == 'M':
            _, m, w, d = rule
            wd = (d - 1) % 7
            if w == 5:
                return relativedelta.relativedelta(month=m, day=31, weekday=relativedelta.weekday(wd, -1), seconds=seconds)
            return relativedelta.relativedelta(month=m, day=1, weekday=relativedelta.weekday(wd, w), seconds=seconds)
        if rule[0] == 'J':
            return relativedelta.relativedelta(nlyearday=rule[1], seconds=seconds)
        return relativedelta.relativedelta(yearday=rule[1] + 1, seconds=seconds)
    saving = z.dstoff - z.stdoff
    return tz.tzrange(z.std, z.stdoff, z.dst, z.dstoff, rd(z.start, z.stime), rd(z.end, z.etime - saving))


def fmt_ical_offset(secs):
    sign = '-' if secs < 0 else '+'
    a = abs(secs)
    h, rem = divmod(a, 3600)
    m, s = divmod(rem, 60)
    return '%s%02d%02d%s' % (sign, h, m, ('%02d' % s) if s else '')


def vtimezone_text(z, tzid='Test/Zone', first_year=1990, order='SD', as_rdate_years=None, fold_at=None):
    """VTIMEZONE whose STANDARD / DAYLIGHT components state the same yearly rules (only M-form rules)."""
    WD = ['SU', 'MO', 'TU', 'WE', 'TH', 'FR', 'SA']

    def comp(kind, rule, local_secs, off_from, off_to, name):
        _, m, w, d = rule
        onset = D.datetime.combine(PZ.rule_date(first_year, rule), D.time()) + D.timedelta(seconds=local_secs)
        lines = ['BEGIN:' + kind, 'TZOFFSETFROM:' + fmt_ical_offset(off_from), 'TZOFFSETTO:' + fmt_ical_offset(off_to)] + \
                (['TZNAME:' + name] if name is not None else []) + ['DTSTART:' + onset.strftime('%Y%m%dT%H%M%S')]      # TZNAME is optional
        if as_rdate_years:
            dates = []
            for y in range(first_year + 1, first_year + as_rdate_years):
                dd = D.datetime.combine(PZ.rule_date(y, rule), D.time()) + D.timedelta(seconds=local_secs)
                dates.append(dd.strftime('%Y%m%dT%H%M%S'))
            if dates:
                lines.append('RDATE:' + ','.join(dates))
        else:
            lines.append('RRULE:FREQ=YEARLY;BYMONTH=%d;BYDAY=%s%s' % (m, '-1' if w == 5 else str(w), WD[d]))
        lines.append('END:' + kind)
        return lines
    # onset times are local wall times *before* the change: DAYLIGHT starts at local standard time, STANDARD at local daylight time
    day = comp('DAYLIGHT', z.start, z.stime, z.stdoff, z.dstoff, z.dst)
    std = comp('STANDARD', z.end, z.etime, z.dstoff, z.stdoff, z.std)
    body = (std + day) if order == 'SD' else (day + std)
    lines = ['BEGIN:VTIMEZONE', 'TZID:' + tzid] + body + ['END:VTIMEZONE']
    if fold_at:
        out = []
        for l in lines:
            while len(l) > fold_at:
                out.append(l[:fold_at])
                l = ' ' + l[fold_at:]
            out.append(l)
        lines = out
    return '\r\n'.join(lines) + '\r\n'


# ---------------------------------------------------------------------------------------------
# hit counters on the tzinfo classes
# ---------------------------------------------------------------------------------------------

def install_hit_counters(hits):
    """Wrap fromutc / utcoffset / tzname / dst of every dateutil tzinfo class; -> uninstall()"""
    from dateutil import tz
    from dateutil.tz import _common, tz as tzmod
    classes = [tz.tzutc, tz.tzoffset, tz.tzlocal, tz.tzfile, _common.tzrangebase, tzmod._tzicalvtz, _common._tzinfo]
    saved = []
    for cls in classes:
        for name in ('fromutc', 'utcoffset', 'tzname', 'dst'):
            f = cls.__dict__.get(name)
            if f is None:
                continue
            key = '%s.%s' % (cls.__name__, name)

            def make(f, key):
                def w(self, *a, **k):
                    hits[key] = hits.get(key, 0) + 1
                    return f(self, *a, **k)
                w.__name__ = getattr(f, '__name__', name)
                w.__wrapped__ = f
                return w
            saved.append((cls, name, f))
            setattr(cls, name, make(f, key))

    def uninstall():
        for cls, name, f in saved:
            setattr(cls, name, f)
    return uninstall
