"""Monitor on the generic parser (dateutil.parser._parser.parser.parse, reached by every public spelling:
dateutil.parser.parse, DEFAULTPARSER.parse, parser(info).parse) plus a sys.monitoring line counter restricted
to the code objects of dateutil/parser/_parser.py (logical step count of one call)."""
import datetime as D
import sys
import types

TOOL_ID = 4


class LineCounter(object):
    """Counts executed source lines inside the given code objects (source-free hook, local events only)."""

    def __init__(self, codes, name='vf-lines'):
        self.mon = sys.monitoring
        self.codes = list(codes)
        self.n = 0
        self.active = False
        self.name = name

    def start(self):
        mon = self.mon
        mon.use_tool_id(TOOL_ID, self.name)

        def on_line(code, line):
            self.n += 1
        mon.register_callback(TOOL_ID, mon.events.LINE, on_line)
        for c in self.codes:
            mon.set_local_events(TOOL_ID, c, mon.events.LINE)
        self.active = True

    def stop(self):
        if not self.active:
            return
        mon = self.mon
        for c in self.codes:
            mon.set_local_events(TOOL_ID, c, 0)
        mon.register_callback(TOOL_ID, mon.events.LINE, None)
        mon.free_tool_id(TOOL_ID)
        self.active = False


def code_objects_of(module):
    """All function code objects defined in `module` (including methods of its classes, nested once)."""
    out = []
    seen = set()

    def add_func(f):
        code = getattr(f, '__code__', None)
        if code is not None and code.co_filename == module.__file__ and id(code) not in seen:
            seen.add(id(code))
            out.append(code)
            for const in code.co_consts:
                if isinstance(const, types.CodeType) and id(const) not in seen:
                    seen.add(id(const))
                    out.append(const)

    def walk_class(cls, depth=0):
        for v in vars(cls).values():
            if isinstance(v, (staticmethod, classmethod)):
                v = v.__func__
            if isinstance(v, property):
                for f in (v.fget, v.fset):
                    if f:
                        add_func(f)
            elif isinstance(v, types.FunctionType):
                add_func(v)
            elif isinstance(v, type) and depth < 3 and v.__module__ == module.__name__:
                walk_class(v, depth + 1)
    for v in vars(module).values():
        if isinstance(v, types.FunctionType):
            add_func(v)
        elif isinstance(v, type) and v.__module__ == module.__name__:
            walk_class(v)
    return out


def install(handler):
    """handler(self, timestr, kwargs, outcome) is called after every parser.parse call."""
    import dateutil.parser._parser as PP
    cls = PP.parser
    orig = cls.__dict__['parse']

    def parse(self, timestr, *args, **kwargs):
        try:
            out = ('ok', orig(self, timestr, *args, **kwargs))
        except BaseException as e:
            out = ('exc', e)
        try:
            kw = dict(zip(('default', 'ignoretz', 'tzinfos'), args))
            kw.update(kwargs)
            handler(self, timestr, kw, out)
        except Exception as e:
            handler(None, '__monitor_error__', {'error': repr(e)}, out)
        if out[0] == 'ok':
            return out[1]
        raise out[1]
    parse.__wrapped__ = orig
    cls.parse = parse

    def uninstall():
        cls.parse = orig
    return uninstall


def describe_outcome(out):
    """Stable, comparable description of a parse outcome."""
    if out[0] == 'ok':
        v = out[1]
        if isinstance(v, tuple):
            return ('ok', tuple(describe_value(x) for x in v))
        return ('ok', describe_value(v))
    e = out[1]
    import re
    try:
        msg = str(e)
    except Exception as e2:          # an exception object whose message cannot be rendered is still the outcome of the call
        msg = '<str() of the exception raised %s>' % type(e2).__name__
    return ('exc', type(e).__name__, re.sub(r' at 0x[0-9a-fA-F]+', ' at 0x?', msg[:200]))


def describe_value(v):
    if isinstance(v, D.datetime):
        try:
            off = v.utcoffset()
            off = None if off is None else off.total_seconds()
        except Exception as e:          # tzoffset beyond +-24h: utcoffset() itself raises
            off = 'utcoffset-raises:' + type(e).__name__
        return ('datetime', v.replace(tzinfo=None).isoformat(), off, repr(v.tzinfo), v.fold)
    if isinstance(v, tuple):
        return tuple(v)
    return repr(v)
