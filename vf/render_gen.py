"""Independent renderer of the date/time text forms the generic parser documents (used by C02 and C15).

Each template has: name, the parse flags it needs, a precision ('date','hm','hms','frac'), whether it can carry a UTC
offset (only directly after a time of day), whether the year is a *bare* token (not glued to '-' '/' '.'
separators, relevant to the known finding K4), a two-digit-year flag, and a render function
render(dt, nfrac, fsep) -> text for the date/time part.
Domain restrictions (the datetimes for which the rendering is unambiguous under the documented rules) are
checked by `in_domain`.
"""
import datetime as D

MON = ['Jan', 'Feb', 'Mar', 'Apr', 'May', 'Jun', 'Jul', 'Aug', 'Sep', 'Oct', 'Nov', 'Dec']
MONTH = ['January', 'February', 'March', 'April', 'May', 'June', 'July', 'August', 'September', 'October',
         'November', 'December']
WD = ['Mon', 'Tue', 'Wed', 'Thu', 'Fri', 'Sat', 'Sun']
WEEKDAY = ['Monday', 'Tuesday', 'Wednesday', 'Thursday', 'Friday', 'Saturday', 'Sunday']


def frac(dt, n, sep):
    return sep + ('%06d' % dt.microsecond)[:n]


def hms(dt):
    return '%02d:%02d:%02d' % (dt.hour, dt.minute, dt.second)


def h12(dt):
    h = dt.hour % 12
    return (12 if h == 0 else h), ('AM' if dt.hour < 12 else 'PM')


def ordinal(n):
    if 10 <= n % 100 <= 20:
        return '%dth' % n
    return '%d%s' % (n, {1: 'st', 2: 'nd', 3: 'rd'}.get(n % 10, 'th'))


class T(object):
    def __init__(self, name, prec, fn, flags=None, offset_ok=True, bare_year=False, yy=False, group='misc'):
        self.name, self.prec, self.fn = name, prec, fn
        self.flags = flags or {}
        self.offset_ok = offset_ok and prec != 'date'
        self.bare_year = bare_year
        self.yy = yy
        self.group = group


def ymd(dt):
    return '%04d-%02d-%02d' % (dt.year, dt.month, dt.day)


TEMPLATES = [
    # ISO-like
    T('iso-T-hms', 'hms', lambda d, n, s: ymd(d) + 'T' + hms(d), group='iso'),
    T('iso-space-hms', 'hms', lambda d, n, s: ymd(d) + ' ' + hms(d), group='iso'),
    T('iso-T-frac', 'frac', lambda d, n, s: ymd(d) + 'T' + hms(d) + frac(d, n, s), group='iso'),
    T('iso-space-frac', 'frac', lambda d, n, s: ymd(d) + ' ' + hms(d) + frac(d, n, s), group='iso'),
    T('iso-T-hm', 'hm', lambda d, n, s: ymd(d) + 'T%02d:%02d' % (d.hour, d.minute), group='iso'),
    T('iso-date', 'date', lambda d, n, s: ymd(d), group='iso'),
    # compact
    T('compact-8', 'date', lambda d, n, s: '%04d%02d%02d' % (d.year, d.month, d.day), group='compact'),
    T('compact-8T6', 'hms', lambda d, n, s: '%04d%02d%02dT%02d%02d%02d' % (d.year, d.month, d.day, d.hour, d.minute, d.second), group='compact'),
    T('compact-8T6-frac', 'frac', lambda d, n, s: '%04d%02d%02dT%02d%02d%02d' % (d.year, d.month, d.day, d.hour, d.minute, d.second) + frac(d, n, s), group='compact'),
    T('compact-8T4', 'hm', lambda d, n, s: '%04d%02d%02dT%02d%02d' % (d.year, d.month, d.day, d.hour, d.minute), group='compact'),
    T('compact-14', 'hms', lambda d, n, s: '%04d%02d%02d%02d%02d%02d' % (d.year, d.month, d.day, d.hour, d.minute, d.second), group='compact'),
    T('compact-12', 'hm', lambda d, n, s: '%04d%02d%02d%02d%02d' % (d.year, d.month, d.day, d.hour, d.minute), group='compact'),
    T('compact-8-space-6', 'hms', lambda d, n, s: '%04d%02d%02d %02d%02d%02d' % (d.year, d.month, d.day, d.hour, d.minute, d.second), group='compact'),
    # ctime / RFC 2822
    T('ctime', 'hms', lambda d, n, s: '%s %s %2d %s %04d' % (WD[d.weekday()], MON[d.month - 1], d.day, hms(d), d.year),
      offset_ok=False, bare_year=True, group='ctime'),
    T('ctime-0pad', 'hms', lambda d, n, s: '%s %s %02d %s %04d' % (WD[d.weekday()], MON[d.month - 1], d.day, hms(d), d.year),
      offset_ok=False, bare_year=True, group='ctime'),
    T('rfc2822', 'hms', lambda d, n, s: '%s, %02d %s %04d %s' % (WD[d.weekday()], d.day, MON[d.month - 1], d.year, hms(d)),
      bare_year=True, group='rfc2822'),
    T('rfc2822-noday', 'hms', lambda d, n, s: '%d %s %04d %s' % (d.day, MON[d.month - 1], d.year, hms(d)),
      bare_year=True, group='rfc2822'),
    # month-name forms
    T('Month D, Y', 'date', lambda d, n, s: '%s %d, %04d' % (MONTH[d.month - 1], d.day, d.year), bare_year=True, group='monthname'),
    T('Mon D Y', 'date', lambda d, n, s: '%s %d %04d' % (MON[d.month - 1], d.day, d.year), bare_year=True, group='monthname'),
    T('D Mon Y', 'date', lambda d, n, s: '%d %s %04d' % (d.day, MON[d.month - 1], d.year), bare_year=True, group='monthname'),
    T('D-Mon-Y', 'date', lambda d, n, s: '%02d-%s-%04d' % (d.day, MON[d.month - 1], d.year), group='monthname'),
    T('Y Mon D', 'date', lambda d, n, s: '%04d %s %02d' % (d.year, MON[d.month - 1], d.day), bare_year=True, group='monthname'),
    T('Weekday, Month D, Y hms', 'hms', lambda d, n, s: '%s, %s %d, %04d %s' % (WEEKDAY[d.weekday()], MONTH[d.month - 1], d.day, d.year, hms(d)),
      bare_year=True, group='monthname'),
    T('Dth of Month Y', 'date', lambda d, n, s: '%s of %s %04d' % (ordinal(d.day), MONTH[d.month - 1], d.year), bare_year=True, group='monthname'),
    T('Mon D Y hm', 'hm', lambda d, n, s: '%s %d %04d %02d:%02d' % (MON[d.month - 1], d.day, d.year, d.hour, d.minute), bare_year=True, group='monthname'),
    T('D Month Y hms-frac', 'frac', lambda d, n, s: '%d %s %04d %s' % (d.day, MONTH[d.month - 1], d.year, hms(d)) + frac(d, n, s),
      bare_year=True, group='monthname'),
    # 12-hour clock
    T('iso 12h hms AM/PM', 'hms', lambda d, n, s: ymd(d) + ' %d:%02d:%02d %s' % (h12(d)[0], d.minute, d.second, h12(d)[1]), group='ampm'),
    T('Mon D Y 12h hm am/pm', 'hm', lambda d, n, s: '%s %d %04d %d:%02d %s' % (MON[d.month - 1], d.day, d.year, h12(d)[0], d.minute, h12(d)[1].lower()),
      bare_year=True, group='ampm'),
    T('iso 12h hm glued', 'hm', lambda d, n, s: ymd(d) + ' %02d:%02d%s' % (h12(d)[0], d.minute, h12(d)[1].lower()), group='ampm'),
    T('iso 12h h only', 'h', lambda d, n, s: ymd(d) + ' %d %s' % (h12(d)[0], h12(d)[1]), group='ampm'),
    T('iso 12h h glued', 'h', lambda d, n, s: ymd(d) + ' %d%s' % (h12(d)[0], h12(d)[1].lower()), group='ampm'),
    T('hAM first Mon D, Y', 'h', lambda d, n, s: '%d%s %s %d, %04d' % (h12(d)[0], h12(d)[1], MON[d.month - 1], d.day, d.year),
      offset_ok=False, bare_year=True, group='ampm'),
    T('h pm first iso', 'h', lambda d, n, s: '%d %s %s' % (h12(d)[0], h12(d)[1].lower(), ymd(d)), offset_ok=False, group='ampm'),
    T('hh:mmAM first D Mon Y', 'hm', lambda d, n, s: '%02d:%02d%s %d %s %04d' % (h12(d)[0], d.minute, h12(d)[1], d.day, MON[d.month - 1], d.year),
      offset_ok=False, bare_year=True, group='ampm'),
    T('iso 12h a.m./p.m.', 'hm', lambda d, n, s: ymd(d) + ' %d:%02d %s' % (h12(d)[0], d.minute, {'AM': 'a.m.', 'PM': 'p.m.'}[h12(d)[1]]),
      offset_ok=False, group='ampm'),
    # NNhNNmNNs
    T('iso NNhNNmNNs', 'hms', lambda d, n, s: ymd(d) + ' %02dh%02dm%02ds' % (d.hour, d.minute, d.second), offset_ok=False, group='hms'),
    T('iso NNhNNm', 'hm', lambda d, n, s: ymd(d) + ' %02dh%02dm' % (d.hour, d.minute), offset_ok=False, group='hms'),
    T('iso NNh', 'h', lambda d, n, s: ymd(d) + ' %02dh' % d.hour, offset_ok=False, group='hms'),
    T('iso NNhNNmNN.fs', 'frac', lambda d, n, s: ymd(d) + ' %02dh%02dm%02d' % (d.hour, d.minute, d.second) + frac(d, n, '.') + 's',
      offset_ok=False, group='hms'),
    # ... the last component without a label of its own (it belongs to the unit after the preceding label)
    T('iso NNhNN', 'hm', lambda d, n, s: ymd(d) + ' %02dh%02d' % (d.hour, d.minute), offset_ok=False, group='hms'),
    T('iso NNhNNmNN', 'hms', lambda d, n, s: ymd(d) + ' %02dh%02dm%02d' % (d.hour, d.minute, d.second), offset_ok=False, group='hms'),
    T('Mon D Y NNhNN', 'hm', lambda d, n, s: '%s %d %04d %02dh%02d' % (MON[d.month - 1], d.day, d.year, d.hour, d.minute), offset_ok=False,
      bare_year=True, group='hms'),
    T('US m/d/Y NNhNNmNN', 'hms', lambda d, n, s: '%02d/%02d/%04d %02dh%02dm%02d' % (d.month, d.day, d.year, d.hour, d.minute, d.second),
      flags={'dayfirst': False, 'yearfirst': False}, offset_ok=False, group='hms'),
    T('hms first D-Mon-Y', 'hms', lambda d, n, s: '%s %02d-%s-%04d' % (hms(d), d.day, MON[d.month - 1], d.year), offset_ok=False, group='monthname'),
    T('12h hms first D-Mon-Y', 'hms', lambda d, n, s: '%d:%02d:%02d %s %02d-%s-%04d' % (h12(d)[0], d.minute, d.second, h12(d)[1], d.day, MON[d.month - 1], d.year),
      offset_ok=False, group='ampm'),
    # ... with the time in front of a date that starts with a number (a number after an h/m/s label and a blank is a
    # date member unless it is the last token)
    T('NNhNNmNNs first D Mon Y', 'hms', lambda d, n, s: '%02dh%02dm%02ds %d %s %04d' % (d.hour, d.minute, d.second, d.day, MON[d.month - 1], d.year),
      offset_ok=False, bare_year=True, group='hms'),
    T('NNhNNmNNs first m/d/Y', 'hms', lambda d, n, s: '%02dh%02dm%02ds %02d/%02d/%04d' % (d.hour, d.minute, d.second, d.month, d.day, d.year),
      flags={'dayfirst': False, 'yearfirst': False}, offset_ok=False, group='hms'),
    T('NNhNNm first Y/m/d', 'hm', lambda d, n, s: '%02dh%02dm %04d/%02d/%02d' % (d.hour, d.minute, d.year, d.month, d.day),
      flags={'yearfirst': True, 'dayfirst': False}, offset_ok=False, group='hms'),
    T('NNh first D Month Y', 'h', lambda d, n, s: '%02dh %d %s %04d' % (d.hour, d.day, MONTH[d.month - 1], d.year),
      offset_ok=False, bare_year=True, group='hms'),
    # numeric dates
    T('US m/d/Y', 'date', lambda d, n, s: '%02d/%02d/%04d' % (d.month, d.day, d.year), flags={'dayfirst': False, 'yearfirst': False}, group='numeric'),
    T('US m/d/Y hms', 'hms', lambda d, n, s: '%d/%d/%04d %s' % (d.month, d.day, d.year, hms(d)), flags={'dayfirst': False, 'yearfirst': False}, group='numeric'),
    T('US m-d-Y', 'date', lambda d, n, s: '%02d-%02d-%04d' % (d.month, d.day, d.year), flags={'dayfirst': False, 'yearfirst': False}, group='numeric'),
    T('EU d/m/Y', 'date', lambda d, n, s: '%02d/%02d/%04d' % (d.day, d.month, d.year), flags={'dayfirst': True, 'yearfirst': False}, group='numeric'),
    T('EU d.m.Y hms', 'hms', lambda d, n, s: '%02d.%02d.%04d %s' % (d.day, d.month, d.year, hms(d)), flags={'dayfirst': True, 'yearfirst': False}, group='numeric'),
    T('EU d-m-Y hm', 'hm', lambda d, n, s: '%d-%d-%04d %02d:%02d' % (d.day, d.month, d.year, d.hour, d.minute), flags={'dayfirst': True, 'yearfirst': False}, group='numeric'),
    T('YF Y/m/d', 'date', lambda d, n, s: '%04d/%02d/%02d' % (d.year, d.month, d.day), flags={'yearfirst': True, 'dayfirst': False}, group='numeric'),
    T('YDM Y/d/m', 'date', lambda d, n, s: '%04d/%02d/%02d' % (d.year, d.day, d.month), flags={'yearfirst': True, 'dayfirst': True}, group='numeric'),
    T('YDM Y-d-m hm', 'hm', lambda d, n, s: '%04d-%d-%d %02d:%02d' % (d.year, d.day, d.month, d.hour, d.minute), flags={'yearfirst': True, 'dayfirst': True}, group='numeric'),
    T('YF Y.m.d hms', 'hms', lambda d, n, s: '%04d.%02d.%02d %s' % (d.year, d.month, d.day, hms(d)), flags={'yearfirst': True, 'dayfirst': False}, group='numeric'),
    T('US m/d/yy', 'date', lambda d, n, s: '%02d/%02d/%02d' % (d.month, d.day, d.year % 100), flags={'dayfirst': False, 'yearfirst': False}, yy=True, group='numeric-yy'),
    T('EU d/m/yy hms', 'hms', lambda d, n, s: '%02d/%02d/%02d %s' % (d.day, d.month, d.year % 100, hms(d)), flags={'dayfirst': True, 'yearfirst': False}, yy=True, group='numeric-yy'),
    T('YF yy/m/d', 'date', lambda d, n, s: '%02d/%02d/%02d' % (d.year % 100, d.month, d.day), flags={'yearfirst': True, 'dayfirst': False}, yy=True, group='numeric-yy'),
    T('YF yy-Mon-d', 'date', lambda d, n, s: '%02d-%s-%02d' % (d.year % 100, MON[d.month - 1], d.day), flags={'yearfirst': True}, yy=True, group='numeric-yy'),
    T('yy>31 Mon d hm', 'hm', lambda d, n, s: '%02d %s %02d %02d:%02d' % (d.year % 100, MON[d.month - 1], d.day, d.hour, d.minute), yy=True, group='numeric-yy'),
    T('Mon D yy', 'date', lambda d, n, s: '%s %02d %02d' % (MON[d.month - 1], d.day, d.year % 100), yy=True, group='numeric-yy'),
    T('Mon-D-yy hm', 'hm', lambda d, n, s: '%s-%02d-%02d %02d:%02d' % (MON[d.month - 1], d.day, d.year % 100, d.hour, d.minute), yy=True, group='numeric-yy'),
    T('D Mon yy', 'date', lambda d, n, s: '%02d %s %02d' % (d.day, MON[d.month - 1], d.year % 100), yy=True, group='numeric-yy'),
]
BY_NAME = {t.name: t for t in TEMPLATES}

OFFSET_FORMS = ['+HHMM', '+HH:MM', '+HH', 'Z', ' Z', ' UTC', ' +HHMM', ' +HH:MM']


def render_offset(form, secs):
    if form.strip() in ('Z', 'UTC'):
        return form
    lead = ' ' if form.startswith(' ') else ''
    f = form.strip()
    sign = '-' if secs < 0 else '+'
    h, m = divmod(abs(secs) // 60, 60)
    if f == '+HHMM':
        return '%s%s%02d%02d' % (lead, sign, h, m)
    if f == '+HH:MM':
        return '%s%s%02d:%02d' % (lead, sign, h, m)
    if f == '+HH':
        return '%s%s%02d' % (lead, sign, h)
    raise ValueError(form)


def truncate(dt, prec, nfrac):
    if prec == 'date':
        return D.datetime(dt.year, dt.month, dt.day)
    if prec == 'h':
        return dt.replace(minute=0, second=0, microsecond=0)
    if prec == 'hm':
        return dt.replace(second=0, microsecond=0)
    if prec == 'hms':
        return dt.replace(microsecond=0)
    us = int((('%06d' % dt.microsecond)[:nfrac] + '000000')[:6])
    return dt.replace(microsecond=us)


def in_domain(t, dt, current_year):
    """Is the rendering of dt by template t unambiguous under the documented rules?"""
    if t.yy:
        # two-digit years: the unique year within -50..+49 of the current year
        if not (current_year - 50 <= dt.year <= current_year + 49):
            return False
        yy = dt.year % 100
        if t.name == 'D Mon yy':
            # "01-Jan-01": day first, then the month name, then the year - but a year > 31 in front position
            # would be taken as the year; with the day first and <= 31 the reading is the documented one
            return True
        if t.name == 'YF yy/m/d':
            return True
        if t.name == 'yy>31 Mon d hm':
            # "99-Jan-01": a first member > 31 can only be the year
            return yy > 31
        return True
    return True


def render(t, dt, nfrac=3, fsep='.', offset=None):
    """-> (text, expected naive datetime, offset seconds or None)"""
    text = t.fn(dt, nfrac, fsep)
    exp = truncate(dt, t.prec, nfrac)
    off = None
    if offset is not None and t.offset_ok:
        form, secs = offset
        if form.strip() in ('Z', 'UTC'):
            secs = 0
        if form.strip() == '+HH':
            secs = (abs(secs) // 3600) * 3600 * (1 if secs >= 0 else -1)
        if form.strip() in ('Z', 'UTC') and text[-1].isalpha() and not form.startswith(' '):
            form = ' ' + form       # 'pmZ' would be one word: a zone name needs a word boundary
        text += render_offset(form, secs)
        off = secs
    return text, exp, off
