"""Proxy locks that replace the library's `_thread.lock` attributes from outside.

GuardLock: for single-threaded (or free-running multi-threaded) workloads.  Behaves like the real lock but keeps
the owner and an event log; an `acquire()` by the thread that already holds the (non-reentrant) lock can never
return - that is a self-deadlock decided from the wait-for state, not from a timer - and is reported by raising
`SelfDeadlock` (a BaseException, so library `except Exception` clauses cannot swallow it).
"""
import threading

try:
    import _thread
except ImportError:      # pragma: no cover
    _thread = None


class SelfDeadlock(BaseException):
    pass


class GuardLock(object):
    def __init__(self, name, log=None, max_log=2000):
        self.name = name
        self._real = threading.Lock()
        self.owner = None
        self.acquires = 0
        self.releases = 0
        self.log = log if log is not None else []
        self.max_log = max_log

    def _ev(self, what):
        if len(self.log) < self.max_log:
            self.log.append((what, self.name, threading.get_ident()))

    def acquire(self, blocking=True, timeout=-1):
        me = threading.get_ident()
        if self.owner == me:
            if not blocking:
                return False
            self._ev('self-deadlock')
            raise SelfDeadlock('acquire() on lock %r already held by the calling thread: blocks forever' % self.name)
        ok = self._real.acquire(blocking, timeout) if blocking else self._real.acquire(False)
        if ok:
            self.owner = me
            self.acquires += 1
            self._ev('acquire')
        return ok

    def release(self):
        self.owner = None
        self.releases += 1
        self._ev('release')
        self._real.release()

    def locked(self):
        return self._real.locked()

    __enter__ = acquire

    def __exit__(self, *a):
        self.release()


def tz_factory_locks():
    """-> list of (owner object, attribute name) holding the zone-factory cache locks."""
    from dateutil import tz
    from dateutil.tz import _factories
    out = [(tz.tzoffset, '_cache_lock'), (tz.tzstr, '_TzStrFactory__cache_lock'), (tz.gettz, '_cache_lock')]
    return [(o, a) for o, a in out if hasattr(o, a)]


def install_guards(targets, log=None):
    """Replace each (owner, attr) lock by a GuardLock; -> (guards, uninstall)"""
    guards, saved = [], []
    for owner, attr in targets:
        saved.append((owner, attr, getattr(owner, attr)))
        g = GuardLock('%s.%s' % (getattr(owner, '__name__', type(owner).__name__), attr), log)
        # metaclass attributes must be set on the class object itself
        setattr(owner, attr, g)
        guards.append(g)

    def uninstall():
        for owner, attr, real in saved:
            setattr(owner, attr, real)
    return guards, uninstall
