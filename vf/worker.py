"""Shard entry point: /venv/bin/python -m vf.worker C07 --tier quick --seed 0 --shard 0 --nshards 2 --out f"""
import sys
from vf.core import worker_main

if __name__ == '__main__':
    sys.exit(worker_main(sys.argv[1:]))
