"""Monitors attached to the real dateutil.relativedelta.relativedelta class (from outside, no repo hook).

* __init__ is wrapped: the *client's* keyword arguments are recorded on the instance (`_vf_kw`), and the
  C16 normal-form invariant is evaluated on every instance any code constructs.
* __add__ (which also serves __radd__) and __rsub__ are wrapped: whenever the other operand is a
  date/datetime and the delta's constructor arguments are known and integral, the result (or the raised
  exception) is compared with the independent model `rd_ref.add` (C03).

The monitors never raise into the code under test; they report to a sink object with
.ev(), .count(name), .fail(kind, case, detail).
"""
import datetime as D

from vf.oracles import rd_ref

REL_FIELDS = ('years', 'months', 'days', 'leapdays', 'hours', 'minutes', 'seconds', 'microseconds')
ABS_FIELDS = ('year', 'month', 'day', 'hour', 'minute', 'second', 'microsecond')
INIT_NAMES = ('dt1', 'dt2', 'years', 'months', 'days', 'leapdays', 'weeks', 'hours', 'minutes', 'seconds',
              'microseconds', 'year', 'month', 'day', 'weekday', 'yearday', 'nlyearday', 'hour', 'minute',
              'second', 'microsecond')


class Sink(object):
    """Default sink: counts only (used when a monitor is installed for somebody else's workload)."""

    def __init__(self, ctx=None):
        self.ctx = ctx
        self.enabled = True

    def ev(self, n=1):
        if self.ctx:
            self.ctx.ev(n)

    def count(self, name, n=1):
        if self.ctx:
            self.ctx.count(name, n)

    def fail(self, kind, case, detail):
        if self.ctx:
            self.ctx.violation(kind, case, detail)


def wd_json(w):
    """weekday argument -> JSON-able (int | [weekday, n] | None)"""
    if w is None:
        return None
    if isinstance(w, int):
        return int(w)
    return [w.weekday, w.n]


def kw_to_ref(kw):
    """client kwargs -> the dict the reference model understands, or None when outside its domain
    (non-integral numbers)."""
    out = {}
    if kw.get('yearday') and kw.get('leapdays'):
        # yearday is documented as "converted to day/month/leapdays": giving leapdays as well is contradictory
        # and has no documented meaning -> outside the model's domain
        return None
    for k, v in kw.items():
        if k == 'weekday':
            if v is None:
                continue
            out[k] = int(v) if isinstance(v, int) else (v.weekday, v.n)
        elif v is None:
            continue
        elif isinstance(v, bool) or not isinstance(v, int):
            if isinstance(v, float) and v == int(v) and k in ('years', 'months'):
                out[k] = int(v)
            else:
                return None
        else:
            out[k] = v
    return out


def kw_json(kw):
    return {k: (wd_json(v) if k == 'weekday' else v) for k, v in kw.items() if v is not None}


def dt_json(dt):
    if isinstance(dt, D.datetime):
        return {'datetime': [dt.year, dt.month, dt.day, dt.hour, dt.minute, dt.second, dt.microsecond],
                'tz': None if dt.tzinfo is None else repr(dt.tzinfo), 'fold': dt.fold}
    return {'date': [dt.year, dt.month, dt.day]}


def same_value(got, exp):
    """Exact comparison: same type, same wall-clock fields, same tzinfo object.  `fold` is not compared:
    the property does not mention it and CPython's datetime arithmetic resets it."""
    if type(got) is not type(exp):
        return False
    if isinstance(got, D.datetime):
        return (got.replace(tzinfo=None, fold=0) == exp.replace(tzinfo=None, fold=0)
                and got.tzinfo is exp.tzinfo)
    return got == exp


class Installed(object):
    def __init__(self, cls, originals):
        self.cls, self.originals = cls, originals

    def uninstall(self):
        for k, v in self.originals.items():
            setattr(self.cls, k, v)


def install(sink, check_add=True, check_invariant=True):
    from dateutil import relativedelta as mod
    cls = mod.relativedelta
    orig_init, orig_add, orig_rsub = cls.__init__, cls.__add__, cls.__rsub__

    def __init__(self, *args, **kwargs):
        orig_init(self, *args, **kwargs)
        try:
            kw = dict(zip(INIT_NAMES, args))
            kw.update(kwargs)
            two = bool(kw.get('dt1') and kw.get('dt2'))
            kw.pop('dt1', None)
            kw.pop('dt2', None)
            if two:
                kw = {k: getattr(self, k) for k in ('years', 'months', 'seconds', 'microseconds',
                                                    'days', 'hours', 'minutes')}
                kw = {k: v for k, v in kw.items() if v}
                self._vf_two = True
            self._vf_kw = kw
            self._vf_fp = fingerprint(self)
            if check_invariant and sink.enabled:
                invariant(sink, self, kw, two)
        except Exception as e:  # the monitor must never disturb the code under test
            sink.count('monitor_internal_error')
            sink.fail('monitor-internal-error', {'where': '__init__'}, repr(e))

    def __add__(self, other):
        if not (check_add and sink.enabled) or not isinstance(other, D.date):
            return orig_add(self, other)
        try:
            res = ('ok', orig_add(self, other))
        except (ValueError, OverflowError) as e:
            res = ('err', e)
        except BaseException as e:
            res = ('exc', e)
        try:
            compare_add(sink, self, other, res, 'add')
        except Exception as e:
            sink.count('monitor_internal_error')
            sink.fail('monitor-internal-error', {'where': '__add__'}, repr(e))
        if res[0] == 'ok':
            return res[1]
        raise res[1]

    def __rsub__(self, other):
        if not (check_add and sink.enabled) or not isinstance(other, D.date):
            return orig_rsub(self, other)
        try:
            res = ('ok', orig_rsub(self, other))
        except (ValueError, OverflowError) as e:
            res = ('err', e)
        except BaseException as e:
            res = ('exc', e)
        try:
            compare_add(sink, self, other, res, 'rsub')
        except Exception as e:
            sink.count('monitor_internal_error')
            sink.fail('monitor-internal-error', {'where': '__rsub__'}, repr(e))
        if res[0] == 'ok':
            return res[1]
        raise res[1]

    cls.__init__ = __init__
    cls.__add__ = __add__
    cls.__rsub__ = __rsub__
    return Installed(cls, {'__init__': orig_init, '__add__': orig_add, '__rsub__': orig_rsub})


def fingerprint(rd):
    return tuple(getattr(rd, k) for k in REL_FIELDS + ABS_FIELDS) + (wd_json(rd.weekday),)


def compare_add(sink, rd, other, res, op):
    kw = getattr(rd, '_vf_kw', None)
    if kw is None:
        sink.count('add_unmonitored_instance')
        return
    if getattr(rd, '_vf_fp', None) != fingerprint(rd):
        # fields were assigned after construction: the recorded arguments no longer describe it
        sink.count('add_instance_mutated_after_init')
        return
    ref_kw = kw_to_ref(kw)
    if ref_kw is None:
        sink.count('add_outside_model_domain')
        return
    if op == 'rsub':
        ref_kw = rd_ref.neg(ref_kw)
    sink.ev()
    sink.count('monitored_' + op)
    case = {'op': op, 'operand': dt_json(other), 'kw': kw_json(kw)}
    try:
        exp = ('ok', rd_ref.add(other, ref_kw))
    except rd_ref.OutOfRange as e:
        exp = ('err', e)
    if res[0] == 'exc':
        sink.fail('add-unexpected-exception', case, '%s: %s' % (type(res[1]).__name__, res[1]))
    elif res[0] != exp[0]:
        sink.fail('add-outcome-mismatch', case, 'library %s %r, model %s %r' % (res[0], res[1], exp[0], exp[1]))
    elif res[0] == 'ok' and not same_value(res[1], exp[1]):
        sink.fail('add-value-mismatch', case, 'library %r, model %r' % (res[1], exp[1]))


def total_us(obj_or_kw, get):
    return ((((get(obj_or_kw, 'days') * 24 + get(obj_or_kw, 'hours')) * 60 + get(obj_or_kw, 'minutes')) * 60
             + get(obj_or_kw, 'seconds')) * 10 ** 6 + get(obj_or_kw, 'microseconds'))


def invariant(sink, rd, kw, two):
    """C16 normal form, evaluated when __init__ returns."""
    sink.count('invariant_evaluations')
    case = {'kw': kw_json(kw), 'two_date_form': two,
            'fields': {k: getattr(rd, k) for k in REL_FIELDS + ABS_FIELDS}}
    case['fields']['weekday'] = wd_json(rd.weekday)
    bad = []
    for name, lim in (('months', 12), ('hours', 24), ('minutes', 60), ('seconds', 60), ('microseconds', 10 ** 6)):
        if not abs(getattr(rd, name)) < lim:
            bad.append('%s=%r not normalised' % (name, getattr(rd, name)))
    for name in ('years', 'months'):
        if type(getattr(rd, name)) is not int:
            bad.append('%s is %s' % (name, type(getattr(rd, name)).__name__))
    if not two:
        get = lambda o, k: (getattr(o, k) if not isinstance(o, dict) else (o.get(k) or 0))
        in_months = (kw.get('years') or 0) * 12 + (kw.get('months') or 0)
        if rd.years * 12 + rd.months != in_months:
            bad.append('total months changed: in %r out %r' % (in_months, rd.years * 12 + rd.months))
        kw2 = dict(kw)
        kw2['days'] = (kw.get('days') or 0) + 7 * (kw.get('weeks') or 0)
        tin, tout = total_us(kw2, get), total_us(rd, get)
        exact = all(isinstance(kw2.get(k) or 0, int) for k in ('days', 'hours', 'minutes', 'seconds', 'microseconds'))
        if (exact and tin != tout) or (not exact and abs(tin - tout) > 1):
            bad.append('total duration changed: in %r us out %r us' % (tin, tout))
    has_time = bool(rd.hours or rd.minutes or rd.seconds or rd.microseconds or
                    any(getattr(rd, k) is not None for k in ('hour', 'minute', 'second', 'microsecond')))
    if hasattr(rd, '_has_time') and bool(rd._has_time) != has_time:
        bad.append('_has_time=%r but time fields say %r' % (rd._has_time, has_time))
    if bad:
        sink.fail('normal-form', case, '; '.join(bad))
