"""pytest plug-in: runs the repository's own tests as one more workload *under the monitors*.

    VF_MONITORS=rd,iso,parse VF_PYTEST_OUT=/path/out.json pytest -p vf.pytest_plugin tests/...

The monitors are the same objects the checks use (class-level wrappers installed from outside); every monitor
event is attributed to the test that was running.  The result file holds evaluation counts per monitor and the
list of oracle failures with their witnesses."""
import json
import os

_state = {'current': None, 'events': {}, 'fails': [], 'uninstall': []}


class _Sink(object):
    enabled = True

    def __init__(self, name):
        self.name = name

    def ev(self, n=1):
        _state['events'][self.name] = _state['events'].get(self.name, 0) + n

    def count(self, key, n=1):
        k = '%s.%s' % (self.name, key)
        _state['events'][k] = _state['events'].get(k, 0) + n

    def fail(self, kind, case, detail):
        if len(_state['fails']) < 200:
            _state['fails'].append({'monitor': self.name, 'kind': kind, 'case': case, 'detail': str(detail)[:1500], 'test': _state['current']})


def pytest_configure(config):
    want = [m for m in os.environ.get('VF_MONITORS', 'rd,iso,parse').split(',') if m]
    if 'rd' in want:
        from vf import mon_rd
        inst = mon_rd.install(_Sink('rd'), check_add=True, check_invariant=True)
        _state['uninstall'].append(inst.uninstall)
    if 'iso' in want:
        from vf import mon_iso
        isink = _Sink('iso')

        def handler(entry, sep, text, kind, out, kwargs):
            if entry == '__monitor_error__':
                isink.count('monitor_internal_error')
                return
            isink.ev()
            isink.count(entry)
            v = mon_iso.soundness(entry, sep, text, out)
            if v is not None:
                isink.fail(v[0], {'entry': entry, 'sep': sep, 'text': text if isinstance(text, str) else repr(text)}, v[1])
        _state['uninstall'].append(mon_iso.install(handler))
    if 'parse' in want:
        from vf import mon_parse
        import dateutil.parser._parser as PP
        sink = _Sink('parse')

        def phandler(parser, timestr, kw, out):
            if parser is None:
                sink.count('monitor_internal_error')
                return
            sink.ev()
            text_like = isinstance(timestr, (str, bytes, bytearray)) or hasattr(timestr, 'read')
            if out[0] == 'exc':
                e = out[1]
                ok = isinstance(e, (PP.ParserError, OverflowError)) if text_like else isinstance(e, TypeError)
                if not ok and isinstance(e, TypeError) and kw.get('tzinfos') is not None and 'Offset must be tzinfo' in str(e):
                    sink.count('invalid_tzinfos_option')      # a malformed *option value* (client error), not a text input
                    ok = True
                if not ok:
                    sink.fail('leaked-exception', {'text': repr(timestr)[:200], 'options': sorted(kw)}, '%s: %s' % (type(e).__name__, e))
        _state['uninstall'].append(mon_parse.install(phandler))


def pytest_runtest_setup(item):
    _state['current'] = item.nodeid


def pytest_sessionfinish(session, exitstatus):
    for u in _state['uninstall']:
        try:
            u()
        except Exception:
            pass
    out = os.environ.get('VF_PYTEST_OUT')
    if out:
        with open(out, 'w') as f:
            json.dump({'events': _state['events'], 'fails': _state['fails'], 'exitstatus': int(exitstatus)}, f, indent=1, default=repr)
