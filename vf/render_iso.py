"""ISO-8601 renderer, written independently of the parser under test (used by C07 and as seed corpus for C20).

render(dt, spec) -> (text, expected_naive_datetime, expected_offset_seconds_or_None)
spec keys: date  in {'cal', 'week', 'ord'}            date system
           dext  bool                                   extended ('-') or basic date notation
           prec  in {'date', 'h', 'hm', 'hms', 'frac'}  time precision ('date' = no time portion)
           text  bool                                   extended (':') or basic time notation
           nfrac 1..9, fsep '.' or ','                  fraction digits / decimal mark (prec == 'frac')
           sep   single character between date and time
           off   None or (form, seconds) with form in {'Z', 'z', 'hh', 'hhmm', 'hh:mm'}
           h24   bool: render midnight as 24:00 of the previous day (only when the time is exactly 00:00:00)
"""
import datetime as D


def render_date(d, system, ext):
    dash = '-' if ext else ''
    if system == 'cal':
        return '%04d%s%02d%s%02d' % (d.year, dash, d.month, dash, d.day)
    if system == 'week':
        y, w, wd = d.isocalendar()
        return '%04d%sW%02d%s%d' % (y, dash, w, dash, wd)
    if system == 'ord':
        return '%04d%s%03d' % (d.year, dash, d.timetuple().tm_yday)
    raise ValueError(system)


def render_offset(form, seconds):
    if form in ('Z', 'z'):
        assert seconds == 0
        return form
    sign = '-' if seconds < 0 else '+'
    h, rem = divmod(abs(seconds), 3600)
    m = rem // 60
    if form == 'hh':
        assert m == 0
        return '%s%02d' % (sign, h)
    if form == 'hhmm':
        return '%s%02d%02d' % (sign, h, m)
    if form == 'hh:mm':
        return '%s%02d:%02d' % (sign, h, m)
    raise ValueError(form)


def render(dt, spec):
    prec = spec['prec']
    colon = ':' if spec.get('text', True) else ''
    date_part = dt.date()
    h, mi, s, us = dt.hour, dt.minute, dt.second, dt.microsecond
    if prec == 'date':
        text = render_date(date_part, spec['date'], spec['dext'])
        return text, D.datetime(dt.year, dt.month, dt.day), None
    if prec == 'h':
        mi = s = us = 0
    elif prec == 'hm':
        s = us = 0
    elif prec == 'hms':
        us = 0
    exp = D.datetime(dt.year, dt.month, dt.day, h, mi, s, us)
    frac_txt = ''
    if prec == 'frac':
        n = spec['nfrac']
        digits = ('%06d' % us) + spec.get('tail', '000')[:3]      # digits beyond microseconds are truncated
        digits = digits[:n]
        frac_txt = spec['fsep'] + digits
        exp = exp.replace(microsecond=int((digits + '000000')[:6]))
    if spec.get('h24') and (exp.hour, exp.minute, exp.second, exp.microsecond) == (0, 0, 0, 0) \
            and exp.date() > D.date.min:
        date_part = exp.date() - D.timedelta(days=1)
        h = 24
    else:
        h = exp.hour
    t = '%02d' % h
    if prec in ('hm', 'hms', 'frac'):
        t += colon + '%02d' % exp.minute
    if prec in ('hms', 'frac'):
        t += colon + '%02d' % exp.second + frac_txt
    off = spec.get('off')
    off_s = None
    if off is not None:
        t += render_offset(off[0], off[1])
        off_s = off[1]
    text = render_date(date_part, spec['date'], spec['dext']) + spec['sep'] + t
    return text, exp, off_s


def render_time(t, spec):
    """time-only rendering for parse_isotime -> (text, expected time, offset)"""
    dt = D.datetime(2000, 1, 2, t.hour, t.minute, t.second, t.microsecond)
    s2 = dict(spec, date='cal', dext=True, sep='T', h24=False)
    text, exp, off = render(dt, s2)
    return text.split('T', 1)[1], exp.time(), off


def random_spec(rng, date_only_ok=True):
    spec = {'date': rng.choice(['cal', 'cal', 'week', 'ord']), 'dext': rng.random() < .6,
            'prec': rng.choice(['date', 'h', 'hm', 'hms', 'frac', 'frac']) if date_only_ok
            else rng.choice(['h', 'hm', 'hms', 'frac', 'frac']),
            'text': rng.random() < .6, 'nfrac': rng.randint(1, 9), 'fsep': rng.choice('.,'),
            'tail': '%03d' % rng.randint(0, 999),
            'sep': rng.choice(['T', 'T', 'T', ' ', 't', '_', '/', 'x', '-', ':', '@', '\n', '\r', '\t', 'Z', '+']),
            'h24': rng.random() < .15, 'off': None}
    r = rng.random()
    if r < .15:
        spec['off'] = (rng.choice(['Z', 'Z', 'z']), 0)
    elif r < .6:
        form = rng.choice(['hh', 'hhmm', 'hh:mm'])
        if form == 'hh':
            secs = rng.choice([-1, 1]) * rng.randint(0, 23) * 3600
        else:
            secs = rng.choice([-1, 1]) * (rng.choice([0, 1, 5, 12, 23, rng.randint(0, 23)]) * 3600 +
                                          rng.choice([0, 1, 30, 45, 59, rng.randint(0, 59)]) * 60)
        spec['off'] = (form, secs)
    return spec


def random_datetime(rng):
    import calendar
    y = rng.choice([1, 2, 99, 100, 999, 1000, 1582, 1900, 1999, 2000, 2004, 2015, 2020, 2024, 2100, 9998, 9999]) \
        if rng.random() < .5 else rng.randint(1, 9999)
    m = rng.choice([1, 2, 12, rng.randint(1, 12)])
    d = min(rng.choice([1, 28, 29, 30, 31, rng.randint(1, 31)]), calendar.monthrange(y, m)[1])
    return D.datetime(y, m, d, rng.choice([0, 0, 11, 12, 13, 23, rng.randint(0, 23)]), rng.choice([0, 59, rng.randint(0, 59)]),
                      rng.choice([0, 59, rng.randint(0, 59)]), rng.choice([0, 0, 1, 999999, 500000, rng.randint(0, 999999)]))
