"""Schedule control for the concurrency properties (C11, C18).

Baton scheduler: N task threads exist but only the baton holder runs.  Switch points are
  (a) every LINE event (sys.monitoring, local events) of the selected code objects, and
  (b) every acquire / release of a ProxyLock that replaced one of the library's `_thread.lock` objects.
At a switch point a policy decides whether the baton goes to another runnable task.  A task that cannot acquire
a ProxyLock is parked; if no task is runnable while some are parked the run is a DEADLOCK - decided from the
wait-for state, never from a timer.  A schedule is the list of decisions taken; it is recorded (and hashed for
the distinct-interleaving count) and can be replayed.

Policies: RandomPolicy(p), PCTPolicy(depth), PlanPolicy(plan) where plan = {global step index: target task}
(used for the systematic sweep of all schedules with at most k preemptions).
"""
import hashlib
import sys
import threading
import time

TOOL_ID = 5


class Deadlock(BaseException):
    pass


class StepBudget(BaseException):
    pass


class RandomPolicy(object):
    def __init__(self, rng, p=0.3):
        self.rng, self.p = rng, p

    def choose(self, step, me, where, others):
        if others and self.rng.random() < self.p:
            return self.rng.choice(others)
        return None

    def pick_any(self, runnable):
        return self.rng.choice(runnable)


class PCTPolicy(object):
    """PCT-style: random priorities, `depth` priority change points at random steps."""

    def __init__(self, rng, ntasks, depth=2, horizon=400):
        self.rng = rng
        order = list(range(ntasks))
        rng.shuffle(order)
        self.prio = {('T%d' % t): ntasks - i for i, t in enumerate(order)}
        self.change = set(rng.randrange(1, horizon) for _ in range(depth))
        self.low = 0

    def choose(self, step, me, where, others):
        if step in self.change:
            self.low -= 1
            self.prio[me] = self.low
        best = max([me] + list(others), key=lambda t: self.prio[t])
        return None if best == me else best

    def pick_any(self, runnable):
        return max(runnable, key=lambda t: self.prio[t])


class PlanPolicy(object):
    """Deterministic: run the current task until it ends/blocks, except at the planned steps."""

    def __init__(self, plan):
        self.plan = dict(plan)

    def choose(self, step, me, where, others):
        t = self.plan.get(step)
        if t is not None and t in others:
            return t
        return None

    def pick_any(self, runnable):
        return runnable[0]


class Sched(object):
    def __init__(self, policy, codes, max_steps=200000):
        self.policy = policy
        self.codes = list(codes)
        self.max_steps = max_steps
        self.mon = sys.monitoring
        self.sems, self.state, self.order = {}, {}, []
        self.ident = {}
        self.current = None
        self.steps = 0
        self.trace = []            # (step, from task, where, to task)
        self.deadlock = None
        self.aborted = None
        self.mainsem = threading.Semaphore(0)
        self.results = {}

    # -- instrumentation -------------------------------------------------------------------
    def install(self):
        mon = self.mon
        mon.use_tool_id(TOOL_ID, 'vf-sched')
        mon.register_callback(TOOL_ID, mon.events.LINE, self._on_line)
        for c in self.codes:
            mon.set_local_events(TOOL_ID, c, mon.events.LINE)

    def uninstall(self):
        mon = self.mon
        for c in self.codes:
            mon.set_local_events(TOOL_ID, c, 0)
        mon.register_callback(TOOL_ID, mon.events.LINE, None)
        mon.free_tool_id(TOOL_ID)

    def _on_line(self, code, line):
        name = self.ident.get(threading.get_ident())
        if name is None or self.current != name:
            return
        self.yield_point(name, (code.co_name, line))

    # -- scheduling ------------------------------------------------------------------------
    def me(self):
        return self.ident.get(threading.get_ident())

    def _runnable(self):
        return [t for t in self.order if self.state[t] == 'ready']

    def _hand_over(self, nxt):
        self.current = nxt
        self.sems[nxt].release()

    def yield_point(self, me, where):
        if self.deadlock or self.aborted:
            return
        self.steps += 1
        if self.steps > self.max_steps:
            self.aborted = 'step budget'
            raise StepBudget()
        others = [t for t in self._runnable() if t != me]
        nxt = self.policy.choose(self.steps, me, where, others) if others else None
        if nxt is not None:
            self.trace.append((self.steps, me, where, nxt))
            self.state[me] = 'ready'
            self._hand_over(nxt)
            self.sems[me].acquire()
            self.state[me] = 'run'
            if self.deadlock:
                raise Deadlock(str(self.deadlock))

    def block(self, me, what):
        """called by ProxyLock when the lock is held by somebody else"""
        self.state[me] = 'blocked:' + what
        r = self._runnable()
        if not r:
            self._declare_deadlock()
            raise Deadlock(str(self.deadlock))
        nxt = self.policy.pick_any(r)
        self.trace.append((self.steps, me, 'BLOCK ' + what, nxt))
        self._hand_over(nxt)
        self.sems[me].acquire()
        if self.deadlock:
            raise Deadlock(str(self.deadlock))
        self.state[me] = 'run'

    def unblock(self, what):
        for t in self.order:
            if self.state[t] == 'blocked:' + what:
                self.state[t] = 'ready'

    def _declare_deadlock(self):
        if self.deadlock is None:
            self.deadlock = dict((t, self.state[t]) for t in self.order)

    def run(self, funcs, join_timeout=60):
        """funcs: list of zero-argument callables, one per task.  -> (results, completed)"""
        threads = []
        for i, f in enumerate(funcs):
            name = 'T%d' % i
            self.order.append(name)
            self.state[name] = 'ready'
            self.sems[name] = threading.Semaphore(0)

        def body(name, f):
            self.ident[threading.get_ident()] = name
            self.sems[name].acquire()
            self.state[name] = 'run'
            try:
                if self.deadlock:
                    raise Deadlock(str(self.deadlock))
                self.results[name] = ('ok', f())
            except BaseException as e:
                self.results[name] = ('exc', type(e).__name__, str(e)[:300])
            self.state[name] = 'done'
            r = self._runnable()
            if r and not self.deadlock:
                nxt = self.policy.pick_any(r)
                self.trace.append((self.steps, name, 'END', nxt))
                self._hand_over(nxt)
                return
            blocked = [t for t in self.order if self.state[t].startswith('blocked')]
            if blocked:
                # somebody still waits for a lock nobody will release: wake them with the deadlock verdict
                self._declare_deadlock()
                nxt = blocked[0]
                self.state[nxt] = 'ready'
                self._hand_over(nxt)
                return
            if r:
                self._hand_over(r[0])
                return
            self.mainsem.release()

        for name, f in zip(self.order, funcs):
            th = threading.Thread(target=body, args=(name, f), daemon=True)
            threads.append(th)
            th.start()
        self.threads = threads
        first = self.order[0]
        self.current = first
        self.sems[first].release()
        completed = self.mainsem.acquire(timeout=join_timeout)
        for th in threads:
            th.join(timeout=2)
        return self.results, completed

    def signature(self):
        h = hashlib.sha1(repr([(a, b, c) for (_, a, b, c) in self.trace]).encode()).hexdigest()
        return h[:16]


class ProxyLock(object):
    """Stands in for a `_thread.lock` attribute of the library while a Sched is running."""

    def __init__(self, sched, name='L'):
        self.s = sched
        self.name = name
        self.owner = None
        self.events = []

    def acquire(self, blocking=True, timeout=-1):
        me = self.s.me()
        if me is None:                      # a thread outside the scenario (should not happen)
            raise RuntimeError('ProxyLock used outside a scheduled task')
        self.s.yield_point(me, ('acquire', self.name))
        while self.owner is not None:
            if not blocking:
                return False
            self.events.append(('wait', me, self.owner))
            self.s.block(me, self.name)
        self.owner = me
        self.events.append(('acq', me))
        return True

    def release(self):
        me = self.s.me()
        if self.owner is None:
            raise RuntimeError('release unlocked lock')
        self.owner = None
        self.events.append(('rel', me))
        if me is None:
            # released after the scenario ended (a suspended generator that held the lock is being closed)
            return
        self.s.unblock(self.name)
        self.s.yield_point(me, ('release', self.name))

    def locked(self):
        return self.owner is not None

    __enter__ = acquire

    def __exit__(self, *a):
        self.release()


class YieldInjector(object):
    """Free-running threads: a LINE hook on the given code objects that gives up the GIL (time.sleep(0)) at a random
    subset of statement boundaries, so that real preemption happens inside the short critical windows too.  No verdict
    comes from it; it only widens the set of interleavings the free-running workloads see."""
    TOOL = 2

    def __init__(self, codes, prob=0.3, seed=0):
        import random
        self.codes, self.prob = list(codes), prob
        self.rng = random.Random(seed)
        self.yields = 0
        self.mon = sys.monitoring

    def _on_line(self, code, line):
        if self.rng.random() < self.prob:
            self.yields += 1
            time.sleep(0)

    def __enter__(self):
        m = self.mon
        m.use_tool_id(self.TOOL, 'vf-yield')
        m.register_callback(self.TOOL, m.events.LINE, self._on_line)
        for c in self.codes:
            m.set_local_events(self.TOOL, c, m.events.LINE)
        return self

    def __exit__(self, *a):
        m = self.mon
        for c in self.codes:
            m.set_local_events(self.TOOL, c, 0)
        m.register_callback(self.TOOL, m.events.LINE, None)
        m.free_tool_id(self.TOOL)


class Livelock(BaseException):
    pass


class StepBudget(object):
    """Bounded progress for single operations: counts executed source lines of the given code objects since the last
    reset() and raises Livelock inside the running code once the budget is exceeded (a loop that spins without ever
    yielding or finishing).  Logical steps, no clock."""
    TOOL = 1

    def __init__(self, codes, limit):
        self.codes, self.limit, self.n = list(codes), limit, 0
        self.mon = sys.monitoring

    def reset(self):
        self.n = 0

    def _on_line(self, code, line):
        self.n += 1
        if self.n > self.limit:
            self.n = 0
            raise Livelock('more than %d source lines executed inside one operation (at %s:%d)' % (self.limit, code.co_name, line))

    def __enter__(self):
        m = self.mon
        m.use_tool_id(self.TOOL, 'vf-step-budget')
        m.register_callback(self.TOOL, m.events.LINE, self._on_line)
        for c in self.codes:
            m.set_local_events(self.TOOL, c, m.events.LINE)
        return self

    def __exit__(self, *a):
        m = self.mon
        for c in self.codes:
            m.set_local_events(self.TOOL, c, 0)
        m.register_callback(self.TOOL, m.events.LINE, None)
        m.free_tool_id(self.TOOL)
