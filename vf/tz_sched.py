"""Schedule-controlled queries on one shared iCalendar zone object (its 10-entry component cache is guarded by a
lock): several tasks convert different instants concurrently; every answer must equal the answer a freshly parsed
zone gives single-threaded.  Switch points: every line of _tzicalvtz._find_comp / _find_compdt and every
acquire / release of the zone's cache lock (replaced by a ProxyLock)."""
import datetime as D

from vf import sched as S, tzmodels as TM


def codes(tz):
    from dateutil.tz import tz as tzmod
    c = tzmod._tzicalvtz
    # whichever of the lookup helpers exist in this tree (a helper may be inlined or split by a refactoring)
    out = [getattr(c, n).__code__ for n in ('_find_comp', '_find_compdt', 'fromutc') if n in c.__dict__]
    return out


def answers(z, walls):
    from dateutil import tz
    out = []
    for w, fold in walls:
        dt = w.replace(tzinfo=z, fold=fold)
        out.append((dt.utcoffset(), dt.tzname(), dt.dst(), tz.datetime_ambiguous(w, z), tz.datetime_exists(dt)))
    return out


def scenario(ctx, tz, pz, rng, policy_factory, label, prefill=0):
    """-> scheduler (for the signature); reports violations through ctx"""
    text_kw = dict(first_year=2000, order=rng.choice(['SD', 'DS']))
    shared = TM.vtimezone_zone(tz, pz, **text_kw)
    fresh = TM.vtimezone_zone(tz, pz, **text_kw)
    # wall times spread over the year (January / July give different components)
    # ... and a small shared pool (the same key looked up by one task while another is inserting it), including wall
    # times inside the fold and the gap of 2015
    st, en = pz.transitions(2015)
    pool = [(D.datetime(2015, 1, 10, 12), 0), (D.datetime(2015, 7, 10, 12), 0),
            ((en + D.timedelta(seconds=pz.stdoff + 1800)), 0), ((en + D.timedelta(seconds=pz.stdoff + 1800)), 1),
            ((st + D.timedelta(seconds=pz.stdoff + 1800)), 0)]

    def walls(n):
        out = []
        for _ in range(n):
            if rng.random() < .5:
                out.append(rng.choice(pool))
                continue
            w = D.datetime(rng.choice([2015, 2016]), rng.choice([1, 1, 7, 7, 3, 11]), rng.randint(1, 28), rng.randint(0, 23), rng.randint(0, 59))
            out.append((w, rng.choice([0, 0, 1])))
        return out
    tasks = [walls(rng.randint(1, 3)) for _ in range(rng.randint(2, 3))]
    expected = [answers(fresh, ws) for ws in tasks]
    if prefill:
        answers(shared, walls(prefill))          # populate / rotate the cache first
    s = S.Sched(policy_factory(len(tasks)), codes(tz), max_steps=40000)
    lock = S.ProxyLock(s, 'tzical._cache_lock')
    shared._cache_lock = lock
    s.install()
    try:
        results, completed = s.run([(lambda ws=ws: answers(shared, ws)) for ws in tasks])
    finally:
        s.uninstall()
    ctx.ev()
    ctx.count('tzical_scheduled_runs')
    ctx.count('tzical_lock_events', len(lock.events))
    case = {'scenario': 'tzical-threads', 'policy': label, 'tz': repr(pz.__dict__),
            'tasks': [[(w.isoformat(), f) for w, f in ws] for ws in tasks],
            'schedule': [(a, b, str(c), d) for a, b, c, d in s.trace][:200]}
    if not completed:
        ctx.inconclusive_because('tzical scheduler run did not complete')
        return s
    if s.deadlock:
        ctx.violation('tzical-deadlock', case, repr(s.deadlock))
        return s
    for i, exp in enumerate(expected):
        got = results.get('T%d' % i)
        if got is None or got[0] != 'ok':
            ctx.violation('tzical-thread-exception', case, 'T%d: %r' % (i, got))
        elif got[1] != exp:
            ctx.violation('tzical-thread-wrong-answer', case, 'T%d got %r, a fresh zone gives %r' % (i, got[1], exp))
    return s


def sweep(ctx, tz, pz, rng, budget_runs):
    """systematic single-preemption plans + random / PCT schedules; -> number of distinct interleavings"""
    sigs = set()
    # measure the number of yield points of the non-preemptive run for this scenario shape
    import random
    seed = rng.random()
    s0 = scenario(ctx, tz, pz, random.Random(seed), lambda n: S.PlanPolicy({}), 'plan0')
    K = s0.steps
    n = 0
    for k in range(1, min(K, 120) + 1):
        for t in ('T0', 'T1', 'T2'):
            s = scenario(ctx, tz, pz, random.Random(seed), lambda n, k=k, t=t: S.PlanPolicy({k: t}), 'plan1', prefill=0)
            sigs.add(s.signature())
            n += 1
            if n >= budget_runs // 2:
                break
        if n >= budget_runs // 2:
            break
    while n < budget_runs:
        n += 1
        if rng.random() < .5:
            s = scenario(ctx, tz, pz, rng, lambda n: S.RandomPolicy(rng, rng.choice([.1, .3, .6])), 'random', prefill=rng.choice([0, 0, 9, 12]))
        else:
            s = scenario(ctx, tz, pz, rng, lambda n: S.PCTPolicy(rng, n, depth=rng.randint(1, 3), horizon=120), 'pct', prefill=rng.choice([0, 9, 12]))
        sigs.add(s.signature())
    ctx.count('tzical_distinct_interleavings', len(sigs))
    return len(sigs)
