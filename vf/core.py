"""Shared machinery: run context handed to every check, shard fan-out, verdicts, evidence.

A check module (vf/checks/cNN.py) defines

    PROPERTY = 'C07'
    RULE     = '...how cases are generated, what counts as distinct / non-trivial...'
    ASSUMPTIONS = [...]
    PLAN     = {'quick': {'shards': 2, 'timeout': 240}, 'thorough': {'shards': 16, 'timeout': 1500}}
    def run(ctx): ...            # drives the workload in ONE shard, reports through ctx
    def floors(agg, tier): ...   # -> list of reasons why the run is inconclusive ([] = fine)
    def replay(ctx, case): ...   # re-executes exactly one recorded case

Verdicts are three-valued: exit 0 held on what was observed (and the coverage floor was met),
exit 1 violated (VIOLATION line + replay file), exit 2 inconclusive.
"""
from __future__ import print_function
import collections
import hashlib
import importlib
import json
import os
import random
import subprocess
import sys
import time

VERIF = os.path.dirname(os.path.dirname(os.path.abspath(__file__)))
PY = '/venv/bin/python'
MAX_VIOL_PER_SHARD = 25
MAX_SAMPLES = 12


def repo_root():
    return os.path.abspath(os.environ.get('VERIF_REPO', '/repo'))


def seed_from_env():
    try:
        return int(os.environ.get('VERIF_SEED', '0'))
    except ValueError:
        return 0


def jsonable(x, depth=0):
    """Best-effort conversion of a case description to JSON (repr for the rest)."""
    if depth > 8:
        return repr(x)
    if x is None or isinstance(x, (bool, int, float, str)):
        return x
    if isinstance(x, bytes):
        return {'__bytes__': x.decode('latin-1')}
    if isinstance(x, (list, tuple)):
        return [jsonable(i, depth + 1) for i in x]
    if isinstance(x, (set, frozenset)):
        return sorted((jsonable(i, depth + 1) for i in x), key=repr)
    if isinstance(x, dict):
        return {str(k): jsonable(v, depth + 1) for k, v in x.items()}
    return repr(x)


class Ctx(object):
    """What a check sees: seeded randomness and the reporting interface."""

    def __init__(self, prop, tier, seed, shard, nshards, budget_s=None):
        self.prop, self.tier, self.seed = prop, tier, seed
        self.shard, self.nshards = shard, nshards
        self.rng = random.Random('%d:%s:%d' % (seed, prop, shard))
        self.evaluations = 0
        self._distinct = set()
        self.samples = []
        self.counters = collections.Counter()
        self.hits = collections.Counter()
        self.violations = []
        self.n_violations = 0
        self.known = {}
        self.inconclusive = []
        self.notes = {}
        self.t0 = time.time()
        self.budget_s = budget_s
        self._kf = load_known_findings()

    # -- randomness ---------------------------------------------------------------
    def sub_rng(self, label):
        return random.Random('%d:%s:%d:%s' % (self.seed, self.prop, self.shard, label))

    # -- time budget (soft; only stops generation, never decides a verdict) ---------
    def time_left(self):
        if self.budget_s is None:
            return True
        return (time.time() - self.t0) < self.budget_s

    # -- reporting ------------------------------------------------------------------
    def ev(self, n=1):
        self.evaluations += n

    def distinct(self, key):
        self._distinct.add(key if isinstance(key, str) else repr(key))

    def sample(self, obj, force=False):
        if len(self.samples) < MAX_SAMPLES or force:
            self.samples.append(jsonable(obj))

    def count(self, name, n=1):
        self.counters[name] += n

    def hit(self, target, n=1):
        self.hits[target] += n

    def note(self, key, value):
        self.notes[key] = jsonable(value)

    def violation(self, kind, case, detail=''):
        """An oracle failed on `case` (JSON-able, sufficient to replay)."""
        self.n_violations += 1
        if len(self.violations) < MAX_VIOL_PER_SHARD:
            self.violations.append({'kind': kind, 'detail': str(detail)[:2000],
                                    'case': jsonable(case)})

    def known_finding(self, kid, what, case=None):
        """A failure explained by the *open* known finding `kid`; anything else is a violation."""
        ent = self._kf.get(kid)
        if ent is None or ent.get('status') != 'open' or ent.get('property') != self.prop:
            self.violation('finding-%s-not-open' % kid, case, what)
            return
        k = self.known.setdefault(kid, {'count': 0, 'example': None})
        k['count'] += 1
        if k['example'] is None:
            k['example'] = {'what': str(what)[:600], 'case': jsonable(case)}

    def inconclusive_because(self, reason):
        if reason not in self.inconclusive:
            self.inconclusive.append(reason)

    def dump(self):
        return {'evaluations': self.evaluations, 'distinct': sorted(self._distinct),
                'samples': self.samples, 'counters': dict(self.counters),
                'hits': dict(self.hits), 'violations': self.violations,
                'n_violations': self.n_violations, 'known': self.known,
                'inconclusive': self.inconclusive, 'notes': self.notes,
                'wall_s': round(time.time() - self.t0, 2)}


def load_known_findings():
    p = os.path.join(VERIF, 'known_findings.json')
    try:
        with open(p) as f:
            data = json.load(f)
    except (IOError, OSError):
        return {}
    return {e['id']: e for e in data.get('findings', [])}


# ------------------------------------------------------------------------------------
# worker side
# ------------------------------------------------------------------------------------

def assert_repo_import():
    import dateutil
    here = os.path.realpath(dateutil.__file__)
    want = os.path.realpath(os.path.join(repo_root(), 'src')) + os.sep
    if not here.startswith(want):
        raise SystemExit('INTERNAL: dateutil imported from %s, expected under %s' % (here, want))
    return here


def _start_stall_watchdog(ctx, outpath, limit):
    """A workload thread stuck in a blocking call (a lock the change under test never releases) would otherwise only be
    ended by the driver's wall-clock watchdog, and everything the shard had observed would be lost.  This thread flushes
    the observations gathered so far once the evaluation counter has not moved for `limit` seconds, and ends the process:
    recorded violations still count, and without any the shard reports itself inconclusive (never 'held')."""
    import threading

    def loop():
        last, since = ctx.evaluations, time.time()
        while True:
            time.sleep(5)
            if ctx.evaluations != last:
                last, since = ctx.evaluations, time.time()
            elif time.time() - since > limit:
                ctx.inconclusive_because('shard %d stalled: no evaluation for %d s (blocked call); partial observations flushed' % (ctx.shard, limit))
                try:
                    with open(outpath, 'w') as f:
                        json.dump(ctx.dump(), f)
                finally:
                    os._exit(0)
    t = threading.Thread(target=loop, name='vf-stall-watchdog', daemon=True)
    t.start()


INTERNAL_ERRORS = (AssertionError, IndexError, KeyError, AttributeError, UnboundLocalError, NameError, ZeroDivisionError, TypeError,
                   RecursionError, RuntimeError)


def worker_main(argv):
    import argparse
    ap = argparse.ArgumentParser()
    ap.add_argument('prop')
    ap.add_argument('--tier', default='quick')
    ap.add_argument('--seed', type=int, default=0)
    ap.add_argument('--shard', type=int, default=0)
    ap.add_argument('--nshards', type=int, default=1)
    ap.add_argument('--budget', type=float, default=None)
    ap.add_argument('--out', required=True)
    ap.add_argument('--replay', default=None)
    a = ap.parse_args(argv)
    import warnings
    warnings.simplefilter('ignore')
    assert_repo_import()
    mod = importlib.import_module('vf.checks.' + a.prop.lower())
    ctx = Ctx(a.prop, a.tier, a.seed, a.shard, a.nshards, a.budget)
    _start_stall_watchdog(ctx, a.out, 300 if a.tier == 'quick' else 900)
    try:
        if a.replay:
            with open(a.replay) as f:
                rec = json.load(f)
            if str(rec['case'].get('workload', '')).startswith('concurrent-'):
                # a schedule-dependent observation: the replay is the whole workload again (vf/concurrent.py)
                mod.run(ctx)
            else:
                mod.replay(ctx, rec['case'])
        else:
            mod.run(ctx)
    except Exception as e:
        # Safety net.  (1) An internal error (assertion, index, key, attribute, unbound local ...) raised INSIDE the library
        # and not anticipated by the workload is an observation about the library, not a harness failure: none of the
        # properties allows such an exception to reach the caller.  (2) Any other exception that came out of a library call
        # (walking the traceback from the raise outward, library code is met before harness code - e.g. re.error or a
        # pickling error raised in the standard library on behalf of the library) at a place where the workload expects none:
        # every call that may legitimately raise is wrapped by its workload, and on the unchanged tree nothing reaches this
        # handler (it would have crashed the shard before this handler existed).  (3) datetime refusing what a tzinfo method
        # of the library returned (|offset| >= 24 h; raised by C code, so the innermost Python frame is the harness).
        # Anything raised by the harness itself still crashes the shard (inconclusive).
        import traceback
        tb = traceback.extract_tb(e.__traceback__)
        src = os.path.join(repo_root(), 'src') + os.sep
        first = None
        for f in reversed(tb):
            if f.filename.startswith(src):
                first = ('library', f)
                break
            if f.filename.startswith(VERIF + os.sep):
                first = ('harness', f)
                break
        calls = ['%s:%d %s' % (os.path.basename(f.filename), f.lineno, f.name) for f in tb[-6:]]
        if first is not None and first[0] == 'library':
            f = first[1]
            where = '%s:%d in %s' % (f.filename[len(src):], f.lineno, f.name)
            kind = 'library-internal-error' if isinstance(e, INTERNAL_ERRORS) else 'unanticipated-library-exception'
            ctx.violation(kind, {'where': where, 'exception': type(e).__name__, 'stack': calls},
                          '%s: %s came out of the library at %s where the workload expects no exception' % (type(e).__name__, e, where))
        elif isinstance(e, ValueError) and 'offset must be a timedelta strictly between' in str(e):
            ctx.violation('library-internal-error', {'where': 'utcoffset()/dst() of a library tzinfo', 'exception': 'ValueError', 'stack': calls},
                          'a zone object reported an offset outside (-24 h, 24 h): %s' % e)
        else:
            raise
    except BaseException as e:
        # a guard lock found the calling thread re-acquiring a non-reentrant lock it already holds (the call could never
        # return): a verdict derived from lock ownership, wherever in the workload it surfaced
        if type(e).__name__ != 'SelfDeadlock':
            raise
        ctx.violation('deadlock', {'where': 'outside the workload\'s own handlers'}, str(e))
    with open(a.out, 'w') as f:
        json.dump(ctx.dump(), f)
    return 0


# ------------------------------------------------------------------------------------
# driver side
# ------------------------------------------------------------------------------------

def child_env():
    env = dict(os.environ)
    env['PYTHONPATH'] = os.path.join(repo_root(), 'src') + os.pathsep + VERIF
    env['PYTHONHASHSEED'] = '0'
    env['PYTHONDONTWRITEBYTECODE'] = '1'
    env.setdefault('TZ', 'UTC')
    env['DATEUTIL_VERIF'] = '1'
    return env


def run_shards(prop, tier, seed, nshards, timeout, budget, replay=None, parallel=16, shard_env=None):
    outdir = os.path.join(VERIF, 'out', prop)
    os.makedirs(outdir, exist_ok=True)
    procs = []
    results = [None] * nshards
    errors = []
    pending = list(range(nshards))
    running = {}
    t_start = time.time()
    while pending or running:
        while pending and len(running) < parallel:
            i = pending.pop(0)
            outp = os.path.join(outdir, '.shard_%s_%d_%d.json' % (tier, os.getpid(), i))
            cmd = [PY, '-B', '-m', 'vf.worker', prop, '--tier', tier, '--seed', str(seed),
                   '--shard', str(i), '--nshards', str(nshards), '--out', outp]
            if budget:
                cmd += ['--budget', str(budget)]
            if replay:
                cmd += ['--replay', replay]
            logp = outp + '.log'
            logf = open(logp, 'w')
            env = child_env()
            if shard_env is not None:
                env.update(shard_env(i, nshards) or {})
            p = subprocess.Popen(cmd, cwd=VERIF, env=env, stdout=logf,
                                 stderr=subprocess.STDOUT)
            running[i] = (p, outp, logp, logf, time.time())
        for i in list(running):
            p, outp, logp, logf, t0 = running[i]
            rc = p.poll()
            if rc is None:
                if time.time() - t0 > timeout:
                    p.kill()
                    p.wait()
                    logf.close()
                    errors.append('shard %d: watchdog fired after %ds' % (i, timeout))
                    del running[i]
                continue
            logf.close()
            del running[i]
            if rc != 0 or not os.path.exists(outp):
                tail = ''
                try:
                    with open(logp) as f:
                        tail = f.read()[-1500:]
                except (IOError, OSError):
                    pass
                errors.append('shard %d: exit %s: %s' % (i, rc, tail.strip()))
            else:
                with open(outp) as f:
                    results[i] = json.load(f)
            for pth in (outp, logp):
                try:
                    os.remove(pth)
                except OSError:
                    pass
        if running:
            time.sleep(0.05)
    return results, errors, time.time() - t_start


def aggregate(results):
    agg = {'evaluations': 0, 'distinct': set(), 'samples': [], 'counters': collections.Counter(),
           'hits': collections.Counter(), 'violations': [], 'n_violations': 0, 'known': {},
           'inconclusive': [], 'notes': {}, 'shards_ok': 0}
    for r in results:
        if r is None:
            continue
        agg['shards_ok'] += 1
        agg['evaluations'] += r['evaluations']
        agg['distinct'].update(r['distinct'])
        agg['counters'].update(r['counters'])
        agg['hits'].update(r['hits'])
        agg['violations'].extend(r['violations'])
        agg['n_violations'] += r['n_violations']
        for k, v in r['known'].items():
            e = agg['known'].setdefault(k, {'count': 0, 'example': v['example']})
            e['count'] += v['count']
        for s in r['inconclusive']:
            if s not in agg['inconclusive']:
                agg['inconclusive'].append(s)
        for k, v in r['notes'].items():
            agg['notes'].setdefault(k, v)
    # samples: round-robin over shards so that several shards are represented
    pools = [list(r['samples']) for r in results if r]
    while len(agg['samples']) < MAX_SAMPLES and any(pools):
        for p in pools:
            if p and len(agg['samples']) < MAX_SAMPLES:
                agg['samples'].append(p.pop(0))
    return agg


def write_replay(prop, tier, seed, v):
    outdir = os.path.join(VERIF, 'out', prop)
    os.makedirs(outdir, exist_ok=True)
    blob = json.dumps(v['case'], sort_keys=True)
    h = hashlib.sha1((v['kind'] + blob).encode()).hexdigest()[:16]
    path = os.path.join(outdir, h + '.json')
    with open(path, 'w') as f:
        json.dump({'property': prop, 'tier': tier, 'seed': seed, 'kind': v['kind'],
                   'detail': v['detail'], 'case': v['case']}, f, indent=1, sort_keys=True)
    return path


def drive(prop, tier, replay=None, shards=None):
    seed = seed_from_env()
    mod = importlib.import_module('vf.checks.' + prop.lower())
    plan = dict(mod.PLAN[tier])
    nshards = shards or plan.get('shards', 1)
    timeout = plan.get('timeout', 600)
    budget = plan.get('budget')
    if replay:
        nshards = 1
    else:
        # replay files of earlier runs of this check are stale now
        outdir = os.path.join(VERIF, 'out', prop)
        if os.path.isdir(outdir):
            for fn in os.listdir(outdir):
                if fn.endswith('.json') and not fn.startswith('.'):
                    try:
                        os.remove(os.path.join(outdir, fn))
                    except OSError:
                        pass
    results, errors, wall = run_shards(prop, tier, seed, nshards, timeout, budget, replay,
                                       shard_env=getattr(mod, 'shard_env', None))
    agg = aggregate(results)
    kf = load_known_findings()
    reasons = list(errors) + list(agg['inconclusive'])
    if not replay:
        try:
            reasons += list(mod.floors(agg, tier) or [])
        except Exception as e:  # a broken floor function must not look like a pass
            reasons.append('floors() failed: %r' % (e,))

    status = 'held'
    lines = []
    for kid in sorted(agg['known']):
        e = agg['known'][kid]
        ent = kf.get(kid, {})
        lines.append('KNOWN-FINDING: property=%s %s %s: %s [%d instance(s) this run; e.g. %s]'
                     % (prop, kid, ent.get('mechanism', ''), ent.get('what', ''), e['count'],
                        (e['example'] or {}).get('what', '')))
    seen = set()
    for v in agg['violations']:
        path = write_replay(prop, tier, seed, v)
        if path in seen:
            continue
        seen.add(path)
        status = 'violated'
        lines.append('VIOLATION property=%s replay=%s' % (prop, path))
        lines.append('  kind=%s %s' % (v['kind'], v['detail'][:300].replace('\n', ' ')))
    if status != 'violated' and reasons:
        status = 'inconclusive'
        for r in reasons:
            r = r.replace('\n', ' ')
            if len(r) > 500:
                r = r[:120] + ' ... ' + r[-380:]
            lines.append('INCONCLUSIVE property=%s reason=%s' % (prop, r))

    if not replay:
        write_evidence(mod, prop, tier, seed, agg, wall, status, reasons)
    for l in lines:
        print(l)
    print('%s %s tier=%s seed=%d: %s; evaluations=%d distinct_nontrivial=%d known=%s wall=%.1fs'
          % ('REPLAY' if replay else 'CHECK', prop, tier, seed, status.upper(), agg['evaluations'],
             len(agg['distinct']), {k: v['count'] for k, v in agg['known'].items()}, wall))
    return {'held': 0, 'violated': 1, 'inconclusive': 2}[status]


def write_evidence(mod, prop, tier, seed, agg, wall, status, reasons):
    cov = {
        'evaluations': int(agg['evaluations']),
        'distinct_nontrivial': len(agg['distinct']),
        'rule': mod.RULE,
        'samples': agg['samples'] or ['(no sample recorded)'],
        'exhaustive': bool(getattr(mod, 'EXHAUSTIVE', False)),
        'verdict': status,
        'inconclusive_reasons': reasons,
        'counters': dict(sorted(agg['counters'].items())),
        'monitored_target_hits': dict(sorted(agg['hits'].items())),
        'known_finding_instances': {k: v['count'] for k, v in agg['known'].items()},
        'violations_distinct_recorded': len(agg['violations']),
        'shards_completed': agg['shards_ok'],
        'notes': agg['notes'],
        'repo': repo_root(),
    }
    ev = {'property_id': prop, 'tier': tier, 'seed': seed,
          'level': getattr(mod, 'LEVEL', 'exploration'), 'coverage': cov,
          'assumptions': list(getattr(mod, 'ASSUMPTIONS', [])),
          'wall_s': round(wall, 2), 'violations': int(agg['n_violations'])}
    d = os.path.join(VERIF, 'evidence')
    if os.path.realpath(repo_root()) != '/repo':
        # a run against a scratch copy (mutant self-test) must not overwrite the real evidence
        d = os.path.join(VERIF, 'out', 'scratch-evidence')
    os.makedirs(d, exist_ok=True)
    tmp = os.path.join(d, '.%s.json.tmp' % prop)
    with open(tmp, 'w') as f:
        json.dump(ev, f, indent=1, sort_keys=True)
    os.replace(tmp, os.path.join(d, '%s.json' % prop))
