"""Monitor on dateutil.parser.isoparser entry points (class-level wrappers, aliases re-bound).

Every call of isoparse / parse_isodate / parse_isotime / parse_tzstr anywhere in the process is observed at the
client boundary: (entry, configured sep, argument, outcome) is handed to `handler`, which evaluates the
soundness oracle of C20 (`soundness`) - the accepted value must be one of the denotations of the text, text
without denotation must raise ValueError and nothing else.
"""
import datetime as D
import io

from vf.oracles import iso_ref

ENTRIES = ('isoparse', 'parse_isodate', 'parse_isotime', 'parse_tzstr')


def text_of(arg):
    """The text the client passed (str / bytes / stream already consumed -> recorded by the wrapper)."""
    return arg


class _ReadOnly(object):
    def __init__(self, inner):
        self._inner = inner

    def read(self, n=-1):
        return self._inner.read(n)


def install(handler):
    import sys
    import dateutil.parser as P
    modiso = sys.modules['dateutil.parser.isoparser']     # the attribute of the same name on the package is the class
    cls = modiso.isoparser
    originals = {}

    def make(name, orig):
        def wrapper(self, arg, *a, **k):
            # a stream can only be read once: read it here and hand the parser an equivalent stream
            seen = arg
            kind = type(arg).__name__
            if hasattr(arg, 'read'):
                # ... with the capabilities and the position of the original: a consumed prefix stays consumed, a stream
                # without seek() stays without
                try:
                    pos = arg.tell() if hasattr(arg, 'tell') else 0
                except Exception:
                    pos = 0
                seekable = hasattr(arg, 'seek')
                data = arg.read()
                seen = data
                filler = ('X' if isinstance(data, str) else b'X') * pos
                arg = io.StringIO(filler + data) if isinstance(data, str) else io.BytesIO(filler + data)
                arg.read(pos)
                if not seekable:
                    arg = _ReadOnly(arg)
                kind = 'stream'
            try:
                out = ('ok', orig(self, arg, *a, **k))
            except ValueError as e:
                out = ('valueerror', e)
            except BaseException as e:
                out = ('exc', e)
            try:
                sep = self._sep.decode('ascii') if getattr(self, '_sep', None) is not None else None
                handler(name, sep, seen, kind, out, k)
            except Exception as e:      # never disturb the code under test
                handler('__monitor_error__', None, repr(e), kind, out, k)
            if out[0] == 'ok':
                return out[1]
            raise out[1]
        wrapper.__name__ = name
        wrapper.__wrapped__ = orig
        return wrapper

    for name in ENTRIES:
        originals[name] = cls.__dict__[name]
        setattr(cls, name, make(name, originals[name]))
    # aliases bound before decoration would bypass the wrappers: re-bind them
    old_alias = (modiso.isoparse, P.isoparse)
    modiso.isoparse = modiso.DEFAULT_ISOPARSER.isoparse
    P.isoparse = modiso.DEFAULT_ISOPARSER.isoparse
    try:
        import dateutil.parser._parser as pp   # noqa: F401
    except Exception:
        pass

    def uninstall():
        for name in ENTRIES:
            setattr(cls, name, originals[name])
        modiso.isoparse, P.isoparse = old_alias
    return uninstall


def value_of(entry, v):
    """library result -> comparable value in the oracle's vocabulary"""
    if entry == 'isoparse':
        if type(v) is not D.datetime:
            return ('bad-type', repr(v))
        off = v.utcoffset()
        return (v.replace(tzinfo=None), None if off is None else int(off.total_seconds()) if off.microseconds == 0
                else off.total_seconds())
    if entry == 'parse_isodate':
        if type(v) is not D.date:
            return ('bad-type', repr(v))
        return v
    if entry == 'parse_isotime':
        if type(v) is not D.time:
            return ('bad-type', repr(v))
        off = v.utcoffset()
        return (v.replace(tzinfo=None), None if off is None else int(off.total_seconds()))
    if entry == 'parse_tzstr':
        if not isinstance(v, D.tzinfo):
            return ('bad-type', repr(v))
        off = v.utcoffset(None)
        return int(off.total_seconds())
    raise KeyError(entry)


def denotations(entry, sep, text):
    if entry == 'isoparse':
        return iso_ref.denote_datetime(text, sep)
    if entry == 'parse_isodate':
        return iso_ref.denote_date(text)
    if entry == 'parse_isotime':
        return iso_ref.denote_time(text)
    if entry == 'parse_tzstr':
        return iso_ref.denote_offset(text)
    raise KeyError(entry)


def soundness(entry, sep, text, out):
    """-> None when the outcome is sound, else (kind, detail)."""
    if not isinstance(text, (str, bytes)):
        return None
    den = denotations(entry, sep, text)
    if out[0] == 'exc':
        if (isinstance(out[1], OverflowError) and entry in ('isoparse', 'parse_isodate')
                and iso_ref.unrepresentable(text, sep if entry == 'isoparse' else None)):
            return None      # well-formed but outside datetime's range: a don't-care
        return ('wrong-exception-type', '%s: %s' % (type(out[1]).__name__, out[1]))
    if out[0] == 'valueerror':
        return None
    v = value_of(entry, out[1])
    if not den:
        if entry == 'isoparse' and iso_ref.unrepresentable(text, sep):
            return None
        return ('accepted-malformed', 'returned %r for a text with no ISO-8601 reading' % (out[1],))
    if v not in den:
        return ('misread', 'returned %r; the text denotes %r' % (out[1], sorted(den, key=repr)[:3]))
    return None
