"""Helpers shared by the recurrence history / query checks (C10, C11, C12): finite rules that are guaranteed to
terminate quickly, JSON round trip of their arguments, and list-model answers for every query."""
import datetime as D
import itertools

BASE = D.datetime(2000, 1, 1, 9, 0, 0)


def finite_rule_kw(rng, R, grid=False, maxlen=35):
    """keyword arguments of a rule with a small, quickly reached, finite occurrence list.
    grid=True draws starts/intervals from a small grid so that different rules collide on instants."""
    if not grid and rng.random() < .08:
        # finite only because it runs into the end of the calendar (no COUNT, no UNTIL)
        freq = rng.choice([R.YEARLY, R.MONTHLY, R.WEEKLY, R.DAILY, R.HOURLY, R.MINUTELY, R.SECONDLY])
        st = {R.YEARLY: D.datetime(9990, 3, 5, 6), R.MONTHLY: D.datetime(9998, 1, 31, 6), R.WEEKLY: D.datetime(9999, 9, 6, 6),
              R.DAILY: D.datetime(9999, 12, 1, 6), R.HOURLY: D.datetime(9999, 12, 30, 6), R.MINUTELY: D.datetime(9999, 12, 31, 23, 20),
              R.SECONDLY: D.datetime(9999, 12, 31, 23, 59, 30)}[freq]
        kw = {'freq': freq, 'dtstart': st + D.timedelta(days=rng.randrange(2) if freq < R.MINUTELY and freq != R.HOURLY else 0)}
        if freq == R.WEEKLY and rng.random() < .5:
            kw['byweekday'] = [R.MO, R.FR]
        if rng.random() < .3:
            kw['interval'] = 2
        return kw
    freq = rng.choice([R.DAILY, R.DAILY, R.WEEKLY, R.MONTHLY, R.HOURLY, R.YEARLY, R.MINUTELY])
    if grid:
        st = BASE + D.timedelta(days=rng.randrange(5), hours=rng.choice([0, 0, 0, 12]))
    else:
        st = D.datetime(rng.choice([1999, 2000, 2003, 2024]), rng.randint(1, 12), rng.randint(1, 28), rng.randint(0, 23),
                        rng.choice([0, 30]), rng.choice([0, 0, 15]))
    kw = {'freq': freq, 'dtstart': st, 'interval': rng.choice([1, 1, 2, 3])}
    if freq == R.HOURLY:
        kw['interval'] = rng.choice([6, 12, 24]) if grid else rng.choice([1, 5, 6, 12])
    if freq == R.MINUTELY:
        kw['interval'] = rng.choice([30, 60, 90, 720])
    r = rng.random()
    if r < .2:
        kw['byweekday'] = rng.choice([[R.MO, R.WE, R.FR], [R.SA, R.SU], R.TU, [0, 3]])
        if freq in (R.YEARLY, R.MONTHLY) and rng.random() < .5:
            kw['byweekday'] = [R.FR(1), R.MO(-1)]
    elif r < .3 and freq in (R.MONTHLY, R.YEARLY):
        kw['bymonthday'] = rng.choice([[1, 15], [-1], [31], [28, 29, 30]])
    elif r < .36 and freq in (R.MONTHLY,):
        kw['byweekday'] = [R.MO, R.TU, R.WE, R.TH, R.FR]
        kw['bysetpos'] = rng.choice([-1, 1, [1, -1]])
    elif r < .42 and freq in (R.DAILY, R.WEEKLY):
        kw['byhour'] = rng.choice([[9, 21], [0, 12]])
    if rng.random() < .7 or freq in (R.YEARLY,):
        lens = [0, 1, 2, 3, 5, 9, 10, 11, 14, 19, 20, 21, 30]
        kw['count'] = rng.choice([n for n in lens if n <= maxlen])
    else:
        span = {R.DAILY: 20, R.WEEKLY: 100, R.MONTHLY: 600, R.HOURLY: 3, R.MINUTELY: 1}[freq] * kw['interval']
        kw['until'] = st + D.timedelta(days=rng.randint(0, span), seconds=rng.choice([0, 0, 1, -1]))
    return kw


def kw_json(kw):
    from vf import mon_rrule
    return mon_rrule.kw_json(kw)


def kw_from_json(j, R):
    from vf import mon_rrule
    return mon_rrule.kw_from_json(j, R, [])


def iso(x):
    return None if x is None else x.isoformat()


# ---- list model -----------------------------------------------------------------------------

def m_after(L, t, inc):
    for x in L:
        if (x >= t) if inc else (x > t):
            return x
    return None


def m_before(L, t, inc):
    last = None
    for x in L:
        if (x > t) if inc else (x >= t):
            break
        last = x
    return last


def m_between(L, a, b, inc):
    if inc:
        return [x for x in L if a <= x <= b]
    return [x for x in L if a < x < b]


def m_xafter(L, t, n, inc):
    out = [x for x in L if ((x >= t) if inc else (x > t))]
    return out if n is None else out[:n]


def m_getitem(L, i):
    try:
        return ('ok', L[i])
    except IndexError:
        return ('IndexError',)


def probe_times(rng, L, base=BASE):
    """query arguments: elements, neighbours one second off, far before / after"""
    pool = []

    def shifted(x, **kw):
        try:
            return [x + D.timedelta(**kw)]
        except OverflowError:      # next to datetime.max / datetime.min
            return []
    if L:
        for x in rng.sample(L, min(4, len(L))):
            pool += [x] + shifted(x, seconds=1) + shifted(x, seconds=-1)
        pool += shifted(L[0], days=-400) + shifted(L[-1], days=400) + [L[0], L[-1]]
    else:
        pool += [base, base + D.timedelta(days=3)]
    return pool


def random_slice(rng, n):
    def idx():
        return rng.choice([None, 0, 1, 2, n - 1, n, n + 1, -1, -2, -n, -n - 1, rng.randint(-n - 2, n + 2)])
    step = rng.choice([None, None, 1, 2, 3, -1, -2])
    return slice(idx(), idx(), step)


def slice_json(sl):
    return [sl.start, sl.stop, sl.step]
