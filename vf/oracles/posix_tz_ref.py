"""Independent POSIX.1 TZ rule model (never imports dateutil).

A zone is (std abbr, std offset, dst abbr, dst offset, start rule, start time, end rule, end time) with offsets in
seconds EAST of UTC, rules ('M', m, w, d) | ('J', n) | ('N', n) and times in seconds of *local* time (start: local
standard time, end: local daylight time), exactly as POSIX prescribes.  `render()` writes the TZ string.
"""
import calendar
import datetime as D


def rule_date(year, r):
    k = r[0]
    if k == 'M':
        _, m, w, d = r                      # d: 0 = Sunday; w: 1..5 (5 = last)
        first = D.date(year, m, 1)
        pyd = (d - 1) % 7                   # python weekday (0 = Monday)
        day = 1 + (pyd - first.weekday()) % 7 + 7 * (w - 1)
        ml = calendar.monthrange(year, m)[1]
        while day > ml:
            day -= 7
        return D.date(year, m, day)
    if k == 'J':                            # 1..365, 29 February is never counted
        n = r[1]
        base = D.date(2001, 1, 1) + D.timedelta(days=n - 1)
        return D.date(year, base.month, base.day)
    if k == 'N':                            # 0..365, 29 February is counted
        return D.date(year, 1, 1) + D.timedelta(days=r[1])
    raise ValueError(r)


class PosixZone(object):
    def __init__(self, std, stdoff, dst=None, dstoff=None, start=None, stime=7200, end=None, etime=7200):
        self.std, self.stdoff, self.dst = std, stdoff, dst
        self.dstoff = dstoff if dstoff is not None else (stdoff + 3600 if dst else None)
        self.start, self.stime, self.end, self.etime = start, stime, end, etime

    @property
    def hasdst(self):
        return self.dst is not None and self.start is not None

    def transitions(self, year):
        """(dst start, dst end) of `year` as naive UTC datetimes"""
        s = D.datetime.combine(rule_date(year, self.start), D.time()) + D.timedelta(seconds=self.stime - self.stdoff)
        e = D.datetime.combine(rule_date(year, self.end), D.time()) + D.timedelta(seconds=self.etime - self.dstoff)
        return s, e

    def events(self, y0, y1):
        ev = []
        for y in range(max(1, y0), min(9999, y1) + 1):
            s, e = self.transitions(y)
            ev.append((s, True))
            ev.append((e, False))
        ev.sort()
        return ev

    def at(self, u):
        """naive UTC datetime -> (utc offset seconds, abbreviation, is dst)"""
        if not self.hasdst:
            return (self.stdoff, self.std, False)
        ev = self.events(u.year - 1, u.year + 1)
        state = None
        for t, on in ev:
            if t <= u:
                state = on
        if state is None:
            state = not ev[0][1]
        return (self.dstoff, self.dst, True) if state else (self.stdoff, self.std, False)

    def preimages(self, w):
        """UTC datetimes whose wall reading is the naive datetime w (0, 1 or 2)"""
        out = []
        offs = {self.stdoff, self.dstoff} if self.hasdst else {self.stdoff}
        for off in offs:
            u = w - D.timedelta(seconds=off)
            if self.at(u)[0] == off:
                out.append(u)
        return sorted(out)

    def utc_transitions(self, y0, y1):
        return [t for t, on in self.events(y0, y1)]


def fmt_off(secs_east):
    """POSIX offset field: hours WEST of UTC, [+-]hh[:mm[:ss]]"""
    w = -secs_east
    sign = '-' if w < 0 else ''
    w = abs(w)
    h, rem = divmod(w, 3600)
    m, s = divmod(rem, 60)
    out = '%s%d' % (sign, h)
    if m or s:
        out += ':%02d' % m
    if s:
        out += ':%02d' % s
    return out


def fmt_time(secs):
    h, rem = divmod(secs, 3600)
    m, s = divmod(rem, 60)
    out = '%d' % h
    if m or s:
        out += ':%02d' % m
    if s:
        out += ':%02d' % s
    return out


def fmt_rule(r):
    if r[0] == 'M':
        return 'M%d.%d.%d' % (r[1], r[2], r[3])
    if r[0] == 'J':
        return 'J%d' % r[1]
    return '%d' % r[1]


def render(z, explicit_dst_offset=None, with_times=(True, True)):
    s = z.std + fmt_off(z.stdoff)
    if z.dst is None:
        return s
    s += z.dst
    explicit = explicit_dst_offset if explicit_dst_offset is not None else (z.dstoff != z.stdoff + 3600)
    if explicit:
        s += fmt_off(z.dstoff)
    if z.start is None:
        return s
    s += ',' + fmt_rule(z.start)
    if with_times[0] or z.stime != 7200:
        s += '/' + fmt_time(z.stime)
    s += ',' + fmt_rule(z.end)
    if with_times[1] or z.etime != 7200:
        s += '/' + fmt_time(z.etime)
    return s


def selftest():
    # US rules since 2007: second Sunday of March 02:00 -> first Sunday of November 02:00
    z = PosixZone('EST', -18000, 'EDT', -14400, ('M', 3, 2, 0), 7200, ('M', 11, 1, 0), 7200)
    assert render(z) == 'EST5EDT,M3.2.0/2,M11.1.0/2', render(z)
    s, e = z.transitions(2021)
    assert s == D.datetime(2021, 3, 14, 7) and e == D.datetime(2021, 11, 7, 6), (s, e)
    assert z.at(D.datetime(2021, 3, 14, 6, 59, 59)) == (-18000, 'EST', False)
    assert z.at(D.datetime(2021, 3, 14, 7)) == (-14400, 'EDT', True)
    assert z.preimages(D.datetime(2021, 3, 14, 2, 30)) == []
    assert len(z.preimages(D.datetime(2021, 11, 7, 1, 30))) == 2
    # southern hemisphere
    a = PosixZone('AEST', 36000, 'AEDT', 39600, ('M', 10, 1, 0), 7200, ('M', 4, 1, 0), 10800)
    assert a.at(D.datetime(2021, 1, 1)) == (39600, 'AEDT', True) and a.at(D.datetime(2021, 7, 1))[2] is False
    assert rule_date(2020, ('J', 60)) == D.date(2020, 3, 1) and rule_date(2020, ('N', 59)) == D.date(2020, 2, 29)
    assert rule_date(2021, ('M', 5, 5, 1)) == D.date(2021, 5, 31)
    assert fmt_off(19800) == '-5:30' and fmt_off(-12600) == '3:30'
    return True


if __name__ == '__main__':
    print(selftest())
