"""Independent model of relativedelta's documented semantics (never imports dateutil).

A delta is described by the *constructor keyword arguments* the client passed (client boundary), with
weekday given as None | int | (weekday, n) tuple.  All numeric fields are integers here.
"""
import calendar
import datetime as D

REL = ('years', 'months', 'days', 'weeks', 'hours', 'minutes', 'seconds', 'microseconds')
ABS_DATE = ('year', 'month', 'day')
ABS_TIME = ('hour', 'minute', 'second', 'microsecond')
NL_CUM = [0, 31, 59, 90, 120, 151, 181, 212, 243, 273, 304, 334, 365]


class OutOfRange(Exception):
    """The documented result does not exist (year outside 1..9999 or invalid replacement)."""


def subday_total_us(kw):
    return (((kw.get('hours', 0) * 60 + kw.get('minutes', 0)) * 60 + kw.get('seconds', 0)) * 10 ** 6
            + kw.get('microseconds', 0))


def has_time(kw):
    """The delta 'carries time information': an absolute time field, or a sub-day relative part that
    does not amount to a whole number of days (whole days are carried into the days field)."""
    if any(kw.get(k) is not None for k in ABS_TIME):
        return True
    return subday_total_us(kw) % (86400 * 10 ** 6) != 0


def month_day_of_nlyearday(n):
    """(month, day) of the n-th day of a non-leap year; 366 is tolerated as 'one past 31 Dec'."""
    if not 1 <= n <= 366:
        raise ValueError(n)
    for m in range(1, 13):
        if n <= NL_CUM[m] or m == 12:
            return m, n - NL_CUM[m - 1]


def resolve_abs(kw):
    """-> (year, month, day, leapdays) absolute parts after yearday/nlyearday conversion."""
    year, month, day = kw.get('year'), kw.get('month'), kw.get('day')
    leapdays = kw.get('leapdays', 0)
    nly, yd = kw.get('nlyearday'), kw.get('yearday')
    if nly:
        month, day = month_day_of_nlyearday(nly)
    elif yd:
        month, day = month_day_of_nlyearday(yd)
        if 59 < yd < 366:
            # days after 28 Feb come one day earlier in a leap year; day 366 exists only in a leap
            # year and is then 31 December itself
            leapdays = -1
        elif yd == 366:
            leapdays = 0
    return year, month, day, leapdays


def shift_months(y, m, k):
    idx = y * 12 + (m - 1) + k
    return idx // 12, idx % 12 + 1


def wd_tuple(w):
    if w is None:
        return None
    if isinstance(w, int):
        return (w, 1)
    return (w[0], w[1] or 1)


def add(dt, kw):
    """dt + relativedelta(**kw) by the documented order: replace, month shift with clip, exact duration
    (+ applicable leapdays), weekday jump.  Raises OutOfRange when the result is not representable."""
    tz = None
    fold = 0
    if isinstance(dt, D.datetime):
        tz, fold = dt.tzinfo, dt.fold
        cur = dt.replace(tzinfo=None, fold=0)
    elif has_time(kw):
        cur = D.datetime(dt.year, dt.month, dt.day)
    else:
        cur = dt
    ay, am, ad, leapdays = resolve_abs(kw)
    y = ay or cur.year
    m = am or cur.month
    d = ad or cur.day
    y, m = shift_months(y, m, kw.get('years', 0) * 12 + kw.get('months', 0))
    if not 1 <= y <= 9999:
        raise OutOfRange('year %d' % y)
    d = min(d, calendar.monthrange(y, m)[1])
    rep = {'year': y, 'month': m, 'day': d}
    for k in ABS_TIME:
        if kw.get(k) is not None:
            rep[k] = kw[k]
    try:
        cur = cur.replace(**rep)
    except (ValueError, TypeError) as e:
        raise OutOfRange(str(e))
    days = kw.get('days', 0) + 7 * kw.get('weeks', 0)
    if leapdays and m > 2 and calendar.isleap(y):
        days += leapdays
    try:
        if isinstance(cur, D.datetime):
            cur = cur + D.timedelta(days=days, microseconds=subday_total_us(kw))
        else:
            cur = cur + D.timedelta(days=days + subday_total_us(kw) // (86400 * 10 ** 6))
        wd = wd_tuple(kw.get('weekday'))
        if wd is not None:
            w, n = wd
            if n > 0:
                cur = cur + D.timedelta(days=(w - cur.weekday()) % 7 + 7 * (n - 1))
            else:
                cur = cur - D.timedelta(days=(cur.weekday() - w) % 7 + 7 * (-n - 1))
    except OverflowError as e:
        raise OutOfRange(str(e))
    if isinstance(cur, D.datetime) and (tz is not None or fold):
        cur = cur.replace(tzinfo=tz, fold=fold)
    return cur


def neg(kw):
    out = dict(kw)
    for k in REL:
        if k in out:
            out[k] = -out[k]
    return out


def clip_flags(dt, kw):
    """What non-trivial mechanisms the addition exercises (for the distinct/non-trivial rule)."""
    flags = set()
    ay, am, ad, leapdays = resolve_abs(kw)
    y, m = shift_months(ay or dt.year, am or dt.month, kw.get('years', 0) * 12 + kw.get('months', 0))
    if 1 <= y <= 9999:
        if (ad or dt.day) > calendar.monthrange(y, m)[1]:
            flags.add('clip')
        if leapdays and m > 2 and calendar.isleap(y):
            flags.add('leapday')
    else:
        flags.add('range')
    tm = kw.get('years', 0) * 12 + kw.get('months', 0)
    if tm and (am or dt.month) - 1 + tm not in range(12):
        flags.add('yearcarry')
    if abs(subday_total_us(kw)) >= 86400 * 10 ** 6:
        flags.add('daycarry')
    if kw.get('weekday') is not None:
        flags.add('weekday')
    return flags


# ---------------------------------------------------------------------------------------------
# calendar difference (C09)
# ---------------------------------------------------------------------------------------------

def shift_clip(dt, k):
    y, m = shift_months(dt.year, dt.month, k)
    if not 1 <= y <= 9999:
        raise OutOfRange('year %d' % y)
    return dt.replace(year=y, month=m, day=min(dt.day, calendar.monthrange(y, m)[1]))


def diff(dt1, dt2):
    """-> (k, remainder): k = largest whole-month shift of dt2 (towards dt1) that does not pass dt1,
    remainder = dt1 - shift(dt2, k) as a timedelta.  Mixed date/datetime operands are coerced to
    datetimes at midnight."""
    if isinstance(dt1, D.datetime) != isinstance(dt2, D.datetime):
        if not isinstance(dt1, D.datetime):
            dt1 = D.datetime(dt1.year, dt1.month, dt1.day)
        else:
            dt2 = D.datetime(dt2.year, dt2.month, dt2.day)
    est = (dt1.year - dt2.year) * 12 + (dt1.month - dt2.month)

    def sh(k):
        try:
            return shift_clip(dt2, k)
        except OutOfRange:
            return None
    if dt1 >= dt2:
        # largest k >= 0 with shift(dt2, k) <= dt1
        k = est + 1
        while k > 0 and (sh(k) is None or sh(k) > dt1):
            k -= 1
    else:
        k = est - 1
        while k < 0 and (sh(k) is None or sh(k) < dt1):
            k += 1
    return k, dt1 - sh(k)


def selftest():
    # month_day table against the calendar module
    for n in range(1, 366):
        d = D.date(2001, 1, 1) + D.timedelta(days=n - 1)
        assert month_day_of_nlyearday(n) == (d.month, d.day), n
    assert month_day_of_nlyearday(366) == (12, 32)
    # plain-duration deltas agree with timedelta arithmetic
    base = D.datetime(2003, 9, 17, 20, 54, 47, 282310)
    assert add(base, {'days': 40, 'hours': -30, 'microseconds': 5}) == base + D.timedelta(days=40, hours=-30, microseconds=5)
    # documented examples (dateutil docs): last day of month clip, weekday rule
    assert add(D.date(2003, 1, 31), {'months': 1}) == D.date(2003, 2, 28)
    assert add(D.datetime(2018, 4, 9, 13, 37), {'hours': 25, 'day': 1, 'weekday': (0, 1)}) == D.datetime(2018, 4, 2, 14, 37)
    assert add(D.date(2003, 9, 17), {'weekday': (4, -1)}) == D.date(2003, 9, 12)
    assert add(D.date(2003, 9, 17), {'weekday': (2, 1)}) == D.date(2003, 9, 17)
    assert add(D.date(2000, 1, 1), {'yearday': 260}).timetuple().tm_yday == 260
    assert add(D.date(2001, 1, 1), {'yearday': 260}).timetuple().tm_yday == 260
    assert add(D.date(2000, 1, 1), {'nlyearday': 260}) == D.date(2000, 9, 17)
    k, rem = diff(D.date(2003, 3, 31), D.date(2003, 2, 28))
    assert (k, rem) == (1, D.timedelta(days=3)), (k, rem)
    k, rem = diff(D.date(2003, 2, 28), D.date(2003, 3, 31))
    assert (k, rem) == (-1, D.timedelta(0)), (k, rem)
    return True


if __name__ == '__main__':
    print(selftest())
