"""Independent brute-force reference for dateutil-flavoured RFC 5545 recurrence rules (never imports dateutil).

A rule is described by the keyword arguments a client passes to rrule(...), with weekdays given as
int | (weekday, n).  `Spec(**kw).generate(...)` enumerates periods start_period + k*INTERVAL, keeps the days of the
period that satisfy every BY-filter by *definition* (calendar arithmetic on each day, no masks), forms the
candidate list days x times, applies BYSETPOS to the sorted candidate list of the whole period, drops
candidates earlier than the start, stops at COUNT / UNTIL.
"""
import calendar
import datetime as D

YEARLY, MONTHLY, WEEKLY, DAILY, HOURLY, MINUTELY, SECONDLY = range(7)
FREQNAMES = ['YEARLY', 'MONTHLY', 'WEEKLY', 'DAILY', 'HOURLY', 'MINUTELY', 'SECONDLY']
MAXORD = D.date.max.toordinal()


def easter_western(y):
    a = y % 19
    b, c = divmod(y, 100)
    d, e = divmod(b, 4)
    f = (b + 8) // 25
    g = (b - f + 1) // 3
    h = (19 * a + b - d - g + 15) % 30
    i, k = divmod(c, 4)
    l = (32 + 2 * e + 2 * i - h - k) % 7
    m = (a + 11 * h + 22 * l) // 451
    month, day = divmod(h + l - 7 * m + 114, 31)
    return D.date(y, month, day + 1)


def _jan1_ordinal(y):
    """proleptic Gregorian ordinal of 1 January of year y, also for y = 0 and y = 10000 (outside datetime's range)"""
    if 1 <= y <= 9999:
        return D.date(y, 1, 1).toordinal()
    if y == 10000:
        return MAXORD + 1
    if y == 10001:
        return MAXORD + 1 + 366   # 10000 is divisible by 400: a leap year
    if y == 0:
        return 1 - 366            # year 0 is a leap year in the proleptic calendar
    raise ValueError(y)


def _week1_start(y, wkst):
    """ordinal of the first day of week 1 of week-year y (week 1 = first week with >= 4 days in y)"""
    jan4 = _jan1_ordinal(y) + 3
    return jan4 - (((jan4 - 1) % 7 - wkst) % 7)


# sub-daily rules: at most this many rejected days are skipped in one enumeration (the implementation walks the time
# filters second by second after each rejected day, so a far horizon is expensive to compare against)
MAX_DAY_SKIPS = 8


def week_info(d, wkst):
    """-> (week-year, week number, number of weeks in that week-year) for weeks starting on wkst"""
    o = d.toordinal()
    y = d.year
    if o >= _week1_start(y + 1, wkst):
        wy = y + 1
    elif o >= _week1_start(y, wkst):
        wy = y
    else:
        wy = y - 1
    s = _week1_start(wy, wkst)
    n = (_week1_start(wy + 1, wkst) - s) // 7
    return wy, (o - s) // 7 + 1, n


def wd_pair(w):
    if isinstance(w, int):
        return (w, None)
    return (w[0], w[1] or None)


def tup(x):
    if x is None:
        return None
    if isinstance(x, int):
        return (x,)
    return tuple(x)


class Spec(object):
    def __init__(self, freq, dtstart, interval=1, wkst=0, count=None, until=None, bysetpos=None, bymonth=None,
                 bymonthday=None, byyearday=None, byeaster=None, byweekno=None, byweekday=None, byhour=None,
                 byminute=None, bysecond=None):
        self.freq, self.interval, self.count = freq, interval, count
        if not isinstance(dtstart, D.datetime):
            dtstart = D.datetime(dtstart.year, dtstart.month, dtstart.day)
        self.tz = dtstart.tzinfo
        self.dtstart = dtstart.replace(microsecond=0, tzinfo=None, fold=0)
        self.until_aware = None
        if until is not None and not isinstance(until, D.datetime):
            until = D.datetime(until.year, until.month, until.day)
        self.until = until
        self.wkst = wkst
        self.bysetpos = tup(bysetpos)
        bymonth, bymonthday, byyearday, byeaster, byweekno = map(tup, (bymonth, bymonthday, byyearday, byeaster, byweekno))
        wds = None
        if byweekday is not None:
            if isinstance(byweekday, int):
                byweekday = [byweekday]
            # otherwise: a list whose members are int or (weekday, n) pairs
            wds = [wd_pair(w) for w in byweekday]
        if byweekno is None and byyearday is None and bymonthday is None and wds is None and byeaster is None:
            if freq == YEARLY:
                if bymonth is None:
                    bymonth = (self.dtstart.month,)
                bymonthday = (self.dtstart.day,)
            elif freq == MONTHLY:
                bymonthday = (self.dtstart.day,)
            elif freq == WEEKLY:
                wds = [(self.dtstart.weekday(), None)]
        self.bymonth, self.bymonthday, self.byyearday = bymonth, bymonthday, byyearday
        self.byeaster, self.byweekno, self.wds = byeaster, byweekno, wds
        byhour, byminute, bysecond = map(tup, (byhour, byminute, bysecond))
        if byhour is None and freq < HOURLY:
            byhour = (self.dtstart.hour,)
        if byminute is None and freq < MINUTELY:
            byminute = (self.dtstart.minute,)
        if bysecond is None and freq < SECONDLY:
            bysecond = (self.dtstart.second,)
        self.byhour, self.byminute, self.bysecond = byhour, byminute, bysecond
        self._dayok = {}

    # ---- day predicate, straight from the definitions -----------------------------------------
    def day_ok(self, d):
        o = d.toordinal()
        r = self._dayok.get(o)
        if r is None:
            r = self._dayok[o] = self._day_ok(d)
        return r

    def _day_ok(self, d):
        s = self
        if s.bymonth is not None and d.month not in s.bymonth:
            return False
        ylen = 366 if calendar.isleap(d.year) else 365
        if s.byweekno is not None:
            wy, wn, nw = week_info(d, s.wkst)
            if not (wn in s.byweekno or (wn - nw - 1) in s.byweekno):
                return False
        if s.wds is not None:
            ok = False
            for wd, n in s.wds:
                if d.weekday() != wd:
                    continue
                if n is None or s.freq > MONTHLY:
                    ok = True
                    break
                if s.freq == MONTHLY or (s.freq == YEARLY and s.bymonth is not None):
                    first = D.date(d.year, d.month, 1)
                    last = D.date(d.year, d.month, calendar.monthrange(d.year, d.month)[1])
                else:
                    first, last = D.date(d.year, 1, 1), D.date(d.year, 12, 31)
                if n > 0:
                    k = (d.toordinal() - first.toordinal()) // 7 + 1
                else:
                    k = -((last.toordinal() - d.toordinal()) // 7 + 1)
                if k == n:
                    ok = True
                    break
            if not ok:
                return False
        if s.byeaster is not None:
            if (d.toordinal() - easter_western(d.year).toordinal()) not in s.byeaster:
                return False
        if s.bymonthday is not None:
            ml = calendar.monthrange(d.year, d.month)[1]
            if d.day not in s.bymonthday and (d.day - ml - 1) not in s.bymonthday:
                return False
        if s.byyearday is not None:
            yd = d.timetuple().tm_yday
            if yd not in s.byyearday and (yd - ylen - 1) not in s.byyearday:
                return False
        return True

    # ---- periods --------------------------------------------------------------------------------
    def periods(self):
        """yield (first ordinal, last ordinal, hour, minute, second): the days of each period k*interval after the
        period containing the start; hour/minute/second fixed for sub-daily frequencies else None"""
        s, st, f = self, self.dtstart, self.freq
        if f == YEARLY:
            y = st.year
            while y <= 9999:
                yield D.date(y, 1, 1).toordinal(), D.date(y, 12, 31).toordinal(), None, None, None
                y += s.interval
        elif f == MONTHLY:
            m0 = st.year * 12 + st.month - 1
            while True:
                y, m = divmod(m0, 12)
                m += 1
                if y > 9999:
                    return
                yield (D.date(y, m, 1).toordinal(), D.date(y, m, calendar.monthrange(y, m)[1]).toordinal(), None, None, None)
                m0 += s.interval
        elif f == WEEKLY:
            o = st.toordinal() - ((st.weekday() - s.wkst) % 7)
            while o <= MAXORD:
                yield max(o, 1), min(o + 6, MAXORD), None, None, None
                o += 7 * s.interval
        elif f == DAILY:
            o = st.toordinal()
            while o <= MAXORD:
                yield o, o, None, None, None
                o += s.interval
        else:
            unit = {HOURLY: 3600, MINUTELY: 60, SECONDLY: 1}[f]
            cur = D.datetime(st.year, st.month, st.day, st.hour, st.minute if f >= MINUTELY else 0,
                             st.second if f >= SECONDLY else 0)
            step = D.timedelta(seconds=unit * s.interval)
            skips = 0
            while True:
                o = cur.toordinal()
                yield o, o, cur.hour, (cur.minute if f >= MINUTELY else None), (cur.second if f >= SECONDLY else None)
                # Periods inside a day that the rule rejects as a whole are empty by definition: go straight to the first
                # period k*interval (k integral) that starts on the next day.  (Pure arithmetic on the period grid; lets the
                # reference reach the next accepted day of a SECONDLY rule within its period budget.  Rejected hours / minutes
                # are NOT skipped: the implementation walks them period by period, and a horizon far beyond what it can reach
                # cheaply would only make every comparison slow.)
                nxt = None
                if skips < MAX_DAY_SKIPS and not s.day_ok(cur.date()):
                    skips += 1
                    nxt = D.datetime(cur.year, cur.month, cur.day) + D.timedelta(days=1) if o < MAXORD else None
                    if o >= MAXORD:
                        return
                k = 1
                if nxt is not None:
                    gap = int((nxt - cur).total_seconds())
                    k = max(1, -(-gap // (unit * s.interval)))
                try:
                    cur = cur + step * k
                except OverflowError:
                    return

    def period_candidates(self, per, apply_setpos=True):
        s = self
        o1, o2, h, mi, se = per
        if h is not None and s.byhour is not None and h not in s.byhour:
            return []
        if mi is not None and s.byminute is not None and mi not in s.byminute:
            return []
        if se is not None and s.bysecond is not None and se not in s.bysecond:
            return []
        days = [D.date.fromordinal(o) for o in range(o1, o2 + 1)]
        okdays = [d for d in days if s.day_ok(d)]
        if not okdays:
            return []
        hours = [h] if h is not None else list(s.byhour)
        mins = [mi] if mi is not None else list(s.byminute)
        secs = [se] if se is not None else list(s.bysecond)
        times = sorted(set((a, b, c) for a in hours for b in mins for c in secs))
        cands = [D.datetime(d.year, d.month, d.day, a, b, c) for d in okdays for (a, b, c) in times]
        if apply_setpos and s.bysetpos is not None:
            sel = set()
            for p in s.bysetpos:
                idx = p - 1 if p > 0 else p
                if -len(cands) <= idx < len(cands):
                    sel.add(cands[idx])
            cands = sorted(sel)
        return cands

    def generate(self, max_periods, max_items=None, apply_count=True, apply_setpos=True):
        """-> (items, horizon_ordinal): occurrences (naive datetimes) found in the first `max_periods` periods and the
        first ordinal of the first period NOT examined (None when the periods ran out at MAXYEAR).  Candidate
        evaluation stops early once COUNT / UNTIL / max_items is reached, but the horizon is always that of
        `max_periods` periods, so the implementation can be stopped at the same place."""
        s = self
        total = 0
        out = []
        n = 0
        done = False
        until = s.until
        if until is not None and until.tzinfo is not None:
            # compare in the start's zone (both aware): convert until to a naive wall time of the start's zone
            if s.tz is not None:
                until = until.astimezone(s.tz).replace(tzinfo=None)
            else:
                until = until.replace(tzinfo=None)
        for per in s.periods():
            n += 1
            if n > max_periods:
                return out, per[0]
            if done:
                continue
            for c in s.period_candidates(per, apply_setpos):
                if until is not None and c > until:
                    done = True
                    break
                if c < s.dtstart:
                    continue
                if apply_count and s.count is not None and total >= s.count:
                    done = True
                    break
                total += 1
                out.append(c)
                if max_items is not None and len(out) >= max_items:
                    done = True
                    break
            if apply_count and s.count is not None and total >= s.count:
                done = True
        return out, None


def selftest():
    # week numbering vs isocalendar for wkst = Monday
    d = D.date(1, 1, 8)
    while d.year < 9999:
        wy, wn, nw = week_info(d, 0)
        ic = d.isocalendar()
        assert (wy, wn) == (ic[0], ic[1]), (d, wy, wn, ic)
        d += D.timedelta(days=1) if (d.month in (1, 12) and (d.day < 10 or d.day > 20)) else D.timedelta(days=17)
    # brute-force definition for the other week starts
    from collections import Counter

    def brute(d, wkst):
        s = d.toordinal() - ((d.weekday() - wkst) % 7)
        days = [D.date.fromordinal(o) for o in range(s, s + 7)]
        c = Counter(x.year for x in days)
        wy = [y for y, n in c.items() if n >= 4][0]
        n, o = 0, s
        while True:
            dd = [D.date.fromordinal(x) for x in range(o, o + 7)]
            if sum(1 for x in dd if x.year == wy) >= 4:
                n += 1
                o -= 7
            else:
                break
        return wy, n
    for y in list(range(1995, 2012)) + [1900, 2100, 2400, 2399]:
        for wk in range(7):
            for d in [D.date(y, 1, i) for i in range(1, 9)] + [D.date(y, 12, i) for i in range(22, 32)] + [D.date(y, 6, 15)]:
                assert week_info(d, wk)[:2] == brute(d, wk), (d, wk)
    # the Gregorian calendar repeats (weekdays included) every 400 years: the ends of the representable range must
    # number their weeks (week-year offset, week number, weeks in the week-year) like the same days 8000 / 2000 years away
    for wk in range(7):
        for day in range(20, 32):
            a1, a2 = week_info(D.date(9999, 12, day), wk), week_info(D.date(1999, 12, day), wk)
            assert (a1[0] - 8000, a1[1], a1[2]) == a2, (day, wk, a1, a2)
        for day in range(1, 12):
            a1, a2 = week_info(D.date(1, 1, day), wk), week_info(D.date(2001, 1, day), wk)
            assert (a1[0] + 2000, a1[1], a1[2]) == a2, (day, wk, a1, a2)
    # Easter vs the 22 Mar .. 25 Apr Sunday window
    for y in range(1583, 4100, 7):
        e = easter_western(y)
        assert e.weekday() == 6 and D.date(y, 3, 22) <= e <= D.date(y, 4, 25)
    # RFC 5545 examples
    st = D.datetime(1997, 9, 2, 9)
    g = Spec(DAILY, st, count=10).generate(100)[0]
    assert Spec(DAILY, st, count=10).generate(100)[1] == (st + D.timedelta(days=100)).toordinal()
    assert g[0] == st and g[-1] == D.datetime(1997, 9, 11, 9) and len(g) == 10
    g = Spec(MONTHLY, D.datetime(1997, 9, 5, 9), count=10, byweekday=[(4, 1)]).generate(100)[0]
    assert g[:3] == [D.datetime(1997, 9, 5, 9), D.datetime(1997, 10, 3, 9), D.datetime(1997, 11, 7, 9)]
    g = Spec(MONTHLY, st, count=3, byweekday=[1, 2, 3], bysetpos=3).generate(100)[0]
    assert g == [D.datetime(1997, 9, 4, 9), D.datetime(1997, 10, 7, 9), D.datetime(1997, 11, 6, 9)]
    g = Spec(YEARLY, D.datetime(1997, 5, 12, 9), count=3, byweekno=20, byweekday=[0]).generate(100)[0]
    assert g == [D.datetime(1997, 5, 12, 9), D.datetime(1998, 5, 11, 9), D.datetime(1999, 5, 17, 9)]
    g = Spec(YEARLY, D.datetime(1996, 11, 5, 9), interval=4, bymonth=11, byweekday=[1], bymonthday=[2, 3, 4, 5, 6, 7, 8], count=3).generate(100)[0]
    assert g == [D.datetime(1996, 11, 5, 9), D.datetime(2000, 11, 7, 9), D.datetime(2004, 11, 2, 9)]
    g = Spec(MONTHLY, D.datetime(1997, 9, 28, 9), bymonthday=-3, count=3).generate(100)[0]
    assert g == [D.datetime(1997, 9, 28, 9), D.datetime(1997, 10, 29, 9), D.datetime(1997, 11, 28, 9)]
    g = Spec(WEEKLY, D.datetime(1997, 8, 5, 9), interval=2, count=4, byweekday=[1, 6], wkst=0).generate(100)[0]
    assert g == [D.datetime(1997, 8, 5, 9), D.datetime(1997, 8, 10, 9), D.datetime(1997, 8, 19, 9), D.datetime(1997, 8, 24, 9)]
    g = Spec(WEEKLY, D.datetime(1997, 8, 5, 9), interval=2, count=4, byweekday=[1, 6], wkst=6).generate(100)[0]
    assert g == [D.datetime(1997, 8, 5, 9), D.datetime(1997, 8, 17, 9), D.datetime(1997, 8, 19, 9), D.datetime(1997, 8, 31, 9)]
    g = Spec(MINUTELY, st, interval=90, count=4).generate(1000)[0]
    assert g == [st, D.datetime(1997, 9, 2, 10, 30), D.datetime(1997, 9, 2, 12), D.datetime(1997, 9, 2, 13, 30)]
    g = Spec(YEARLY, D.datetime(1997, 1, 1, 9), interval=3, count=10, byyearday=[1, 100, 200]).generate(100)[0]
    assert g[:4] == [D.datetime(1997, 1, 1, 9), D.datetime(1997, 4, 10, 9), D.datetime(1997, 7, 19, 9), D.datetime(2000, 1, 1, 9)]
    return True


if __name__ == '__main__':
    print(selftest())
