"""Independent Easter computations (no dateutil import).

western(y)          Meeus/Jones/Butcher anonymous Gregorian algorithm -> (month, day) Gregorian
western_knuth(y)    Knuth's epact formulation (TAOCP vol.1) -> (month, day) Gregorian
julian(y)           Meeus' Julian-calendar algorithm -> (month, day) in the JULIAN calendar
julian_tabular(y)   golden number / paschal full moon table walk -> (month, day) JULIAN calendar
jdn_from_julian / gregorian_from_jdn  calendar conversion through the Julian Day Number
"""


def western(y):
    a = y % 19
    b, c = divmod(y, 100)
    d, e = divmod(b, 4)
    f = (b + 8) // 25
    g = (b - f + 1) // 3
    h = (19 * a + b - d - g + 15) % 30
    i, k = divmod(c, 4)
    l = (32 + 2 * e + 2 * i - h - k) % 7
    m = (a + 11 * h + 22 * l) // 451
    month, day = divmod(h + l - 7 * m + 114, 31)
    return month, day + 1


def western_knuth(y):
    g = y % 19 + 1
    c = y // 100 + 1
    x = 3 * c // 4 - 12
    z = (8 * c + 5) // 25 - 5
    d = 5 * y // 4 - x - 10
    e = (11 * g + 20 + z - x) % 30
    if (e == 25 and g > 11) or e == 24:
        e += 1
    n = 44 - e
    if n < 21:
        n += 30
    n = n + 7 - ((d + n) % 7)
    if n > 31:
        return 4, n - 31
    return 3, n


def julian(y):
    a = y % 4
    b = y % 7
    c = y % 19
    d = (19 * c + 15) % 30
    e = (2 * a + 4 * b - d + 34) % 7
    month, day = divmod(d + e + 114, 31)
    return month, day + 1


def jdn_from_julian(y, m, d):
    a = (14 - m) // 12
    yy = y + 4800 - a
    mm = m + 12 * a - 3
    return d + (153 * mm + 2) // 5 + 365 * yy + yy // 4 - 32083


def jdn_from_gregorian(y, m, d):
    a = (14 - m) // 12
    yy = y + 4800 - a
    mm = m + 12 * a - 3
    return d + (153 * mm + 2) // 5 + 365 * yy + yy // 4 - yy // 100 + yy // 400 - 32045


def gregorian_from_jdn(j):
    a = j + 32044
    b = (4 * a + 3) // 146097
    c = a - 146097 * b // 4
    d = (4 * c + 3) // 1461
    e = c - 1461 * d // 4
    m = (5 * e + 2) // 153
    day = e - (153 * m + 2) // 5 + 1
    month = m + 3 - 12 * (m // 10)
    year = 100 * b + d - 4800 + m // 10
    return year, month, day


def weekday_from_jdn(j):
    """0 = Monday ... 6 = Sunday"""
    return j % 7


def julian_tabular(y):
    """By definition: the Sunday strictly after the Julian paschal full moon.

    The paschal full moon of golden number G falls (Julian calendar) on 21 March + ((19*(G-1) + 15) mod 30).
    """
    g = y % 19
    pfm_offset = (19 * g + 15) % 30          # days after 21 March (Julian)
    j = jdn_from_julian(y, 3, 21) + pfm_offset
    j += 1
    while weekday_from_jdn(j) != 6:
        j += 1
    # back to a Julian-calendar (month, day)
    base = jdn_from_julian(y, 3, 1)
    off = j - base                            # days after 1 March
    if off < 31:
        return 3, off + 1
    if off < 61:
        return 4, off - 31 + 1
    return 5, off - 61 + 1


def orthodox_gregorian(y):
    m, d = julian(y)
    return gregorian_from_jdn(jdn_from_julian(y, m, d))


def selftest():
    import datetime
    # JDN conversions against the standard library (proleptic Gregorian)
    for o in range(1, 3652059, 997):
        dt = datetime.date.fromordinal(o)
        j = jdn_from_gregorian(dt.year, dt.month, dt.day)
        assert gregorian_from_jdn(j) == (dt.year, dt.month, dt.day)
        assert weekday_from_jdn(j) == dt.weekday(), (dt, j)
    # 4 October 1582 Julian was followed by 15 October 1582 Gregorian
    assert jdn_from_julian(1582, 10, 5) == jdn_from_gregorian(1582, 10, 15)
    for y in range(1583, 4100):
        assert western(y) == western_knuth(y), y
    for y in range(326, 10000):
        assert julian(y) == julian_tabular(y), y
    return True


if __name__ == '__main__':
    print(selftest())
