"""Independent ISO-8601 recogniser for exactly the forms named by properties C07 / C20 (no dateutil import).

`denote_datetime(s, sep)`  -> set of (naive datetime, offset-seconds-or-None) the text may denote
`denote_date(s)`           -> set of dates
`denote_time(s)`           -> set of (time, offset-or-None)
`denote_offset(s)`         -> set of offset seconds

Strict on what the property names: every numeric field is made of exactly the required number of ASCII
digits, '-' and ':' are used consistently inside the date and inside the time, fields are within calendar /
clock / offset range (week 53 only in years that have one), nothing is left over, an hour precedes any
offset, and only a complete date (calendar, week-with-day, ordinal) may be followed by a time, as the
documentation states and the implementation does.  Deliberately liberal where documentation and implementation disagree or are silent (such inputs are
don't-cares for soundness): basic date with extended time and vice versa; ANY single character - even a digit - as separator when none is configured;
lower-case 'z'; '-00:00'.  The result is a *set*: when several readings exist any of them is acceptable.
"""
import datetime as D
import re

_D = '[0-9]'
DATE_FORMS = [
    ('Y', re.compile(r'(%s{4})' % _D)),
    ('Y-M', re.compile(r'(%s{4})-(%s{2})' % (_D, _D))),
    ('Y-M-D', re.compile(r'(%s{4})-(%s{2})-(%s{2})' % (_D, _D, _D))),
    ('YMD', re.compile(r'(%s{4})(%s{2})(%s{2})' % (_D, _D, _D))),
    ('Y-Ww', re.compile(r'(%s{4})-W(%s{2})' % (_D, _D))),
    ('YWw', re.compile(r'(%s{4})W(%s{2})' % (_D, _D))),
    ('Y-Ww-D', re.compile(r'(%s{4})-W(%s{2})-(%s)' % (_D, _D, _D))),
    ('YWwD', re.compile(r'(%s{4})W(%s{2})(%s)' % (_D, _D, _D))),
    ('Y-DDD', re.compile(r'(%s{4})-(%s{3})' % (_D, _D))),
    ('YDDD', re.compile(r'(%s{4})(%s{3})' % (_D, _D))),
]
COMPLETE = ('Y-M-D', 'YMD', 'Y-Ww-D', 'YWwD', 'Y-DDD', 'YDDD')
TIME_RE = re.compile(
    r'(?P<h>%(d)s{2})'
    r'(?:'
    r'(?::(?P<m1>%(d)s{2})(?::(?P<s1>%(d)s{2})(?:[.,](?P<f1>%(d)s+))?)?)'      # extended
    r'|(?:(?P<m2>%(d)s{2})(?:(?P<s2>%(d)s{2})(?:[.,](?P<f2>%(d)s+))?)?)'        # basic
    r')?'
    r'(?P<tz>[Zz]|[+-]%(d)s{2}(?::?%(d)s{2})?)?\Z' % {'d': _D})
TZ_RE = re.compile(r'(?:[Zz]|(?P<sign>[+-])(?P<h>%(d)s{2})(?::?(?P<m>%(d)s{2}))?)\Z' % {'d': _D})


def _text(s):
    """-> str of ASCII chars or None"""
    if isinstance(s, bytes):
        try:
            return s.decode('ascii')
        except UnicodeDecodeError:
            return None
    if isinstance(s, str):
        return s if all(ord(c) < 128 for c in s) else None
    return None


def weeks_in_year(y):
    jan1 = D.date(y, 1, 1).weekday()      # 0 = Monday
    leap = (y % 4 == 0 and y % 100 != 0) or y % 400 == 0
    return 53 if (jan1 == 3 or (leap and jan1 == 2)) else 52


def week_date(y, w, d):
    """ISO week date -> date or None (by definition: week 1 is the week containing 4 January)."""
    if not (1 <= y <= 9999 and 1 <= d <= 7 and 1 <= w <= weeks_in_year(y)):
        return None
    jan4 = D.date(y, 1, 4)
    start = jan4.toordinal() - jan4.weekday()
    o = start + (w - 1) * 7 + (d - 1)
    if not 1 <= o <= D.date.max.toordinal():
        return None
    return D.date.fromordinal(o)


def _date_from(form, g):
    y = int(g[0])
    try:
        if form == 'Y':
            return D.date(y, 1, 1)
        if form == 'Y-M':
            return D.date(y, int(g[1]), 1)
        if form in ('Y-M-D', 'YMD'):
            return D.date(y, int(g[1]), int(g[2]))
        if form in ('Y-Ww', 'YWw'):
            return week_date(y, int(g[1]), 1)
        if form in ('Y-Ww-D', 'YWwD'):
            return week_date(y, int(g[1]), int(g[2]))
        if form in ('Y-DDD', 'YDDD'):
            n = int(g[1])
            if y < 1 or n < 1:
                return None
            d = D.date(y, 1, 1) + D.timedelta(days=n - 1)
            return d if d.year == y else None
    except (ValueError, OverflowError):
        return None
    return None


def date_prefixes(t):
    """yield (form, date, end position) for every date form matching a prefix of t"""
    for form, rx in DATE_FORMS:
        m = rx.match(t)
        if m:
            d = _date_from(form, m.groups())
            if d is not None:
                yield form, d, m.end()


def denote_offset(s):
    t = _text(s)
    out = set()
    if t is None:
        return out
    m = TZ_RE.match(t)
    if not m:
        return out
    if m.group('sign') is None:
        out.add(0)
        return out
    h, mi = int(m.group('h')), int(m.group('m') or 0)
    if h > 23 or mi > 59:
        return out
    out.add((1 if m.group('sign') == '+' else -1) * (h * 3600 + mi * 60))
    return out


def _time_parts(t):
    """-> list of (hour, minute, second, microsecond, offset|None, is24) readings of a full time(+offset) text"""
    m = TIME_RE.match(t)
    if not m:
        return []
    h = int(m.group('h'))
    mi = m.group('m1') if m.group('m1') is not None else m.group('m2')
    se = m.group('s1') if m.group('s1') is not None else m.group('s2')
    fr = m.group('f1') if m.group('f1') is not None else m.group('f2')
    mi = int(mi) if mi is not None else 0
    se = int(se) if se is not None else 0
    us = int((fr + '000000')[:6]) if fr is not None else 0
    off = None
    if m.group('tz'):
        offs = denote_offset(m.group('tz'))
        if not offs:
            return []
        off = next(iter(offs))
    if h == 24:
        if mi or se or us:
            return []
        return [(0, 0, 0, 0, off, True)]
    if h > 23 or mi > 59 or se > 59:
        return []
    return [(h, mi, se, us, off, False)]


def denote_time(s):
    t = _text(s)
    out = set()
    if t is None:
        return out
    for h, mi, se, us, off, is24 in _time_parts(t):
        out.add((D.time(h, mi, se, us), off))
    return out


def denote_date(s):
    t = _text(s)
    out = set()
    if t is None:
        return out
    for form, d, end in date_prefixes(t):
        if end == len(t):
            out.add(d)
    return out


def denote_datetime(s, sep=None):
    t = _text(s)
    out = set()
    if t is None:
        return out
    for form, d, end in date_prefixes(t):
        if end == len(t):
            out.add((D.datetime(d.year, d.month, d.day), None))
            continue
        if sep is not None and t[end] != sep:
            continue
        if form not in COMPLETE:
            continue     # "Incomplete date formats (such as YYYY-MM) may not be combined with a time portion"
        for h, mi, se, us, off, is24 in _time_parts(t[end + 1:]):
            try:
                dt = D.datetime(d.year, d.month, d.day, h, mi, se, us)
                if is24:
                    dt = dt + D.timedelta(days=1)
            except (ValueError, OverflowError):
                continue           # well-formed but unrepresentable (9999-12-31T24:00): a don't-care, no denotation
            out.add((dt, off))
    return out


def unrepresentable(s, sep=None):
    """True when the text is well-formed but its value lies outside datetime's range (don't-care inputs)."""
    t = _text(s)
    if t is None:
        return False
    # an ISO week date of year 9999 whose day lies beyond 9999-12-31 (9999-W52-6, 9999-W52-7)
    for form, rx in DATE_FORMS:
        m = rx.match(t)
        if m and form in ('Y-Ww-D', 'YWwD') and int(m.group(1)) == 9999:
            y, w, d = 9999, int(m.group(2)), int(m.group(3))
            if 1 <= d <= 7 and 1 <= w <= weeks_in_year(y) and week_date(y, w, d) is None:
                # the date itself cannot be represented; whatever follows, overflow while computing it is acceptable
                return True
    for form, d, end in date_prefixes(t):
        if end < len(t) and (sep is None or t[end] == sep) and form in COMPLETE:
            for h, mi, se, us, off, is24 in _time_parts(t[end + 1:]):
                if is24 and d == D.date.max:
                    return True
    return False


def selftest():
    import itertools
    # week dates against date.fromisocalendar / isocalendar
    for y in itertools.chain(range(1, 40), range(1890, 2110), range(9960, 10000)):
        assert weeks_in_year(y) == (53 if _has53(y) else 52), y
        for w in (1, 2, 26, 51, 52, 53):
            for d in (1, 4, 7):
                exp = None
                try:
                    exp = D.date.fromisocalendar(y, w, d)
                except ValueError:
                    pass
                assert week_date(y, w, d) == exp, (y, w, d, week_date(y, w, d), exp)
    # common subset against datetime.fromisoformat
    for s in ['2014-02-04', '20140204', '2014-02-04T10', '2014-02-04T10:30', '2014-02-04T10:30:59',
              '2014-02-04T10:30:59.123456', '2014-02-04 10:30:59,5', '20140204T103059', '2014-02-04T10:30+05:30',
              '2014-02-04T10:30:00-0330', '2014-02-04T10:30:00Z', '2014-W06-2', '2014W062',
              '2014-02-04T10:30:59.1234567']:
        got = denote_datetime(s)
        exp = D.datetime.fromisoformat(s)
        off = None if exp.tzinfo is None else int(exp.utcoffset().total_seconds())
        assert (exp.replace(tzinfo=None), off) in got, (s, got, exp)
    assert denote_datetime('2014-035') == denote_datetime('2014035') == {(D.datetime(2014, 2, 4), None)}
    assert denote_datetime('2014-02-04T24:00') == {(D.datetime(2014, 2, 5), None)}
    assert denote_datetime('2016-366T10') == {(D.datetime(2016, 12, 31, 10), None)}
    for bad in ['2014-2-04', '2014-02-4', '2_14', '+204-034', '2014- 7', '2014-02-04T1 ', '2014-02-04T10:30+01-0',
                '2014-02-04T10:3', '2014-02-04T10:30:', '2014-13-01', '2014-02-30', '2014-W54', '2014-W00', '2014-W01-8',
                '2014-W53-1', '2014-366', '2014-000', '2014-02-04T25', '2014-02-04T10:60', '2014-02-04T24:01',
                '2014-02-04T10:30+24:00', '2014-02-04T10:30+01:60', '2014-02-04T+01:00', '2014-02-04TZ',
                '2014-02-04T10:30Z ', ' 2014-02-04', '2014-02-04T10:30.5', '2014-02-04T1030:15', '2014-02-04T10:3015',
                '2014-0204', '201402-04', '201402', '2014-02-04T10:30:15.', '2014-02-04T10:30:15.5.5', u'2014-02-04T10:30٠',
                '2014-02-04T10:30ZZ', '2014-W06-', '2014-W6-2', '0000-01-01', '2014-02-04T10:30+1', '2014-02-04T10:30+010']:
        assert not denote_datetime(bad), (bad, denote_datetime(bad))
    assert denote_datetime('2014-02-04T10:30', sep=' ') == set()
    assert denote_datetime('2014-02-04 10:30', sep=' ')
    assert denote_offset('+05:30') == {19800} and denote_offset('-0000') == {0} and denote_offset('Z') == {0}
    assert not denote_offset('+5') and not denote_offset('05:30') and not denote_offset('+05:3')
    assert denote_time('24:00') == {(D.time(0, 0), None)} and not denote_time('24:00:01')
    return True


def _has53(y):
    try:
        D.date.fromisocalendar(y, 53, 1)
        return True
    except ValueError:
        return False


if __name__ == '__main__':
    print(selftest())
