"""Independent TZif reader / writer and exact interval oracle (never imports dateutil).

RefZone(data)        parses the version-1 block (the block dateutil reads; the 64-bit block of v2+ files is parsed
                     too and exposed as .v2 for cross-checks)
  .trans/.idx/.types transition instants (UTC seconds), type index per transition, types = (utoff, isdst, abbr)
  .before            the type in force before the first transition: the first standard type, else type 0
  .type_at(ts)       type in force at UTC second ts
  .preimages(wall)   all UTC seconds u with u + utoff(u) == wall (interval arithmetic, any number of results)
write_tzif(...)      builds a version-1 TZif byte string from transitions and types (synthetic zones)
"""
import bisect
import struct


class RefZone(object):
    def __init__(self, data):
        if data[:4] != b'TZif':
            raise ValueError('not TZif')
        self.version = data[4:5]
        p, blk = self._block(data, 20, 4)
        self.trans, self.idx, self.types, self.isstd, self.isut, self.leaps = blk
        self.v2 = None
        if self.version not in (b'\x00', b''):
            if data[p:p + 4] == b'TZif':
                try:
                    p2, blk2 = self._block(data, p + 20, 8)
                    self.v2 = blk2
                    self.footer = data[p2:].strip(b'\n').decode('ascii', 'replace')
                except (struct.error, ValueError, IndexError):
                    self.v2 = None
        self.before = next((t for t in self.types if not t[1]), self.types[0])
        self._ivs = None

    @staticmethod
    def _block(data, p, tsize):
        isutcnt, isstdcnt, leapcnt, timecnt, typecnt, charcnt = struct.unpack('>6l', data[p:p + 24])
        p += 24
        fmt = '>%d%s' % (timecnt, 'l' if tsize == 4 else 'q')
        trans = list(struct.unpack(fmt, data[p:p + tsize * timecnt]))
        p += tsize * timecnt
        idx = list(struct.unpack('>%dB' % timecnt, data[p:p + timecnt]))
        p += timecnt
        raw = []
        for _ in range(typecnt):
            raw.append(struct.unpack('>lBB', data[p:p + 6]))
            p += 6
        abbr = data[p:p + charcnt]
        p += charcnt
        leaps = []
        for _ in range(leapcnt):
            leaps.append(struct.unpack('>%sl' % ('l' if tsize == 4 else 'q'), data[p:p + tsize + 4]))
            p += tsize + 4
        isstd = list(struct.unpack('>%dB' % isstdcnt, data[p:p + isstdcnt]))
        p += isstdcnt
        isut = list(struct.unpack('>%dB' % isutcnt, data[p:p + isutcnt]))
        p += isutcnt
        types = []
        for off, isdst, ai in raw:
            end = abbr.index(b'\0', ai)
            types.append((off, bool(isdst), abbr[ai:end].decode('ascii')))
        return p, (trans, idx, types, isstd, isut, leaps)

    def type_at(self, ts):
        i = bisect.bisect_right(self.trans, ts) - 1
        if i < 0:
            return self.before
        return self.types[self.idx[i]]

    def index_at(self, ts):
        return bisect.bisect_right(self.trans, ts) - 1

    def intervals(self):
        """[(start_ts or None, end_ts or None, type)]"""
        if self._ivs is None:
            out = []
            if not self.trans:
                out = [(None, None, self.before)]
            else:
                out.append((None, self.trans[0], self.before))
                for i, t in enumerate(self.trans):
                    out.append((t, self.trans[i + 1] if i + 1 < len(self.trans) else None, self.types[self.idx[i]]))
            self._ivs = out
        return self._ivs

    def preimages(self, wall_ts, last_defined_only=True):
        """UTC seconds u (within the recorded range when last_defined_only) whose local reading is wall_ts"""
        ivs = self.intervals()
        lo = bisect.bisect_left(self.trans, wall_ts - 200000)
        hi = bisect.bisect_right(self.trans, wall_ts + 200000) + 1
        res = set()
        for (s, e, t) in ivs[max(0, lo - 1):hi + 2]:
            u = wall_ts - t[0]
            if (s is None or s <= u) and (e is None or u < e):
                res.add(u)
        return sorted(res)


def write_tzif(trans, idx, types, isstd=None, isut=None, leaps=()):
    """Version-1 TZif bytes.  types: list of (utoff, isdst, abbr)."""
    abbrs = b''
    aidx = {}
    raw = []
    for off, isdst, ab in types:
        b = ab.encode('ascii') + b'\0'
        if b not in aidx:
            # share suffixes like zic does when possible
            pos = abbrs.find(b)
            if pos < 0:
                pos = len(abbrs)
                abbrs += b
            aidx[b] = pos
        raw.append((off, 1 if isdst else 0, aidx[b]))
    isstd = list(isstd) if isstd is not None else []
    isut = list(isut) if isut is not None else []
    out = b'TZif' + b'\0' + b'\0' * 15
    out += struct.pack('>6l', len(isut), len(isstd), len(leaps), len(trans), len(types), len(abbrs))
    out += struct.pack('>%dl' % len(trans), *trans)
    out += struct.pack('>%dB' % len(idx), *idx)
    for r in raw:
        out += struct.pack('>lBB', *r)
    out += abbrs
    for t, c in leaps:
        out += struct.pack('>ll', t, c)
    out += struct.pack('>%dB' % len(isstd), *isstd)
    out += struct.pack('>%dB' % len(isut), *isut)
    return out


def selftest(paths):
    """round trip of the writer and agreement of the v1 block with stdlib zoneinfo on real files"""
    import datetime as D
    import zoneinfo
    z = RefZone(write_tzif([0, 3600, 7200], [1, 0, 1], [(0, False, 'STD'), (3600, True, 'DST')], [1, 0], [0, 1]))
    assert z.trans == [0, 3600, 7200] and z.idx == [1, 0, 1] and z.types == [(0, False, 'STD'), (3600, True, 'DST')]
    assert z.type_at(-1) == (0, False, 'STD') and z.type_at(0) == (3600, True, 'DST') and z.type_at(3600)[0] == 0
    assert z.preimages(3600 + 1800) == [1800, 5400] and z.preimages(7200 + 1800) == []
    n = 0
    epoch = D.datetime(1970, 1, 1, tzinfo=D.timezone.utc)
    for path in paths:
        with open(path, 'rb') as f:
            data = f.read()
        rz = RefZone(data)
        with open(path, 'rb') as f:
            zi = zoneinfo.ZoneInfo.from_file(f)
        for i, t in enumerate(rz.trans):
            if not (-2 ** 31 < t < 2 ** 31 - 1) or i == 0:
                continue
            for ts in (t, t - 1, t + 1800):
                if ts >= (rz.trans[i + 1] if i + 1 < len(rz.trans) else 2 ** 40):
                    continue
                dt = (epoch + D.timedelta(seconds=ts)).astimezone(zi)
                exp = rz.type_at(ts)
                assert int(dt.utcoffset().total_seconds()) == exp[0] and dt.tzname() == exp[2], (path, ts, exp, dt)
                n += 1
    return n
