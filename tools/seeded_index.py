#!/usr/bin/env python3
"""Writes seeded/INDEX.md: one row per seeded change (summary from its meta.json, verdict and violation kind from
seeded/RESULTS.json as last produced by tools/run_seeded.py)."""
import json
import os
import re

HERE = os.path.dirname(os.path.dirname(os.path.abspath(__file__)))


def main():
    res = json.load(open(os.path.join(HERE, 'seeded', 'RESULTS.json')))
    rows = []
    tags = sorted((d for d in os.listdir(os.path.join(HERE, 'seeded')) if re.match(r'C\d\d-m\d+$', d)),
                  key=lambda t: (t.split('-')[0], int(t.split('-m')[1])))
    caught = 0
    for t in tags:
        try:
            meta = json.load(open(os.path.join(HERE, 'seeded', t, 'meta.json')))
        except (IOError, ValueError):
            meta = {}
        summ = ' '.join(str(meta.get('summary', '')).split())
        if len(summ) > 260:
            summ = summ[:257] + '...'
        r = res.get(t, {})
        by, kind = '-', ''
        for c, v in sorted(r.items(), key=lambda kv: kv[0] != t.split('-')[0]):
            if isinstance(v, dict) and v.get('rc') == 1:
                by = c
                m = re.search(r'kind=(\S+)', v.get('first', ''))
                kind = m.group(1) if m else ''
                break
        if by == '-' and meta.get('out_of_scope'):
            by, kind = 'n/a', 'outside the quantifiers'
        if by not in ('-', 'n/a'):
            caught += 1
        rows.append('| %s | %s | %s | %s |' % (t, summ.replace('|', '\\|'), by, kind))
    with open(os.path.join(HERE, 'seeded', 'INDEX.md'), 'w') as f:
        f.write('# Seeded property-breaking changes\n\n%d changes, %d caught by the quick tier (see tools/run_seeded.py).\n\n'
                '| change | what it does | caught by | violation kind |\n|---|---|---|---|\n' % (len(rows), caught))
        f.write('\n'.join(rows) + '\n')
    print('%d changes, %d caught' % (len(rows), caught))


if __name__ == '__main__':
    main()
