#!/usr/bin/env python3
"""Systematic first-order mutation scan: how many small source changes that the repository's own suite does not
notice are noticed by the property checks?

usage: tools/mutscan.py [--n 200] [--seed 0] [--jobs 4] [--files f1,f2] [--out seeded/mutscan/RESULTS.json]

For a seeded sample of mutation sites in src/dateutil (comparison operators, +/- and other arithmetic, small integer
constants +-1, and/or, dropped `not`, True/False), each mutant is built in a scratch copy under /tmp (never in /repo),
must compile, and is first given to the repository suite; only mutants the suite does NOT notice (same pass/fail
set as tools/baseline_suite.txt and tests/test_isoparser.py 567 passed) go on to the quick tier of the checks
that cover the mutated file.  Result per mutant: suite-killed / caught (which check, which kind) / survived /
inconclusive.  Survivors are printed with their one-line diff for manual triage (equivalent mutant or gap).
The scratch copy is removed after each mutant.
"""
import argparse
import ast
import concurrent.futures as cf
import json
import os
import random
import shutil
import subprocess
import sys

HERE = os.path.dirname(os.path.dirname(os.path.abspath(__file__)))
PY = '/venv/bin/python'
FILES = {
    'src/dateutil/relativedelta.py': ['C03', 'C09', 'C16', 'C08'],
    'src/dateutil/rrule.py': ['C01', 'C12', 'C10', 'C13', 'C11', 'C17'],
    'src/dateutil/easter.py': ['C19', 'C01'],
    'src/dateutil/parser/_parser.py': ['C02', 'C15', 'C14', 'C08', 'C13'],
    'src/dateutil/parser/isoparser.py': ['C07', 'C20'],
    'src/dateutil/tz/tz.py': ['C04', 'C05', 'C06', 'C08', 'C17', 'C18', 'C15'],
    'src/dateutil/tz/_common.py': ['C04', 'C05', 'C08', 'C17', 'C06'],
    'src/dateutil/tz/_factories.py': ['C18', 'C14'],
    'src/dateutil/_common.py': ['C16', 'C03', 'C01', 'C18'],
    'src/dateutil/utils.py': ['C15'],
}
CMP = {ast.Lt: '<', ast.LtE: '<=', ast.Gt: '>', ast.GtE: '>=', ast.Eq: '==', ast.NotEq: '!='}
CMP_SWAP = {'<': ['<=', '>='], '<=': ['<', '=='], '>': ['>=', '<='], '>=': ['>', '=='], '==': ['!='], '!=': ['==']}
BIN = {ast.Add: '+', ast.Sub: '-', ast.Mult: '*', ast.FloorDiv: '//', ast.Mod: '%'}
BIN_SWAP = {'+': ['-'], '-': ['+'], '*': ['//'], '//': ['*'], '%': ['//']}


def offsets(src):
    out, n = [0], 0
    for line in src.splitlines(keepends=True):
        n += len(line.encode('utf-8'))
        out.append(n)
    return out


def sites(path):
    """-> list of (start_byte, end_byte, replacement, description)"""
    src = open(path, 'rb').read()
    text = src.decode('utf-8')
    tree = ast.parse(text)
    lo = offsets(text)

    def pos(line, col):
        return lo[line - 1] + col
    out = []
    docstrings = set()
    for node in ast.walk(tree):
        if isinstance(node, (ast.FunctionDef, ast.ClassDef, ast.Module)) and node.body and isinstance(node.body[0], ast.Expr) \
                and isinstance(getattr(node.body[0], 'value', None), ast.Constant):
            docstrings.add(id(node.body[0].value))
    for node in ast.walk(tree):
        if isinstance(node, ast.Compare) and len(node.ops) == 1 and type(node.ops[0]) in CMP:
            a, b = pos(node.left.end_lineno, node.left.end_col_offset), pos(node.comparators[0].lineno, node.comparators[0].col_offset)
            seg = src[a:b].decode()
            op = CMP[type(node.ops[0])]
            if seg.strip() == op:
                for r in CMP_SWAP[op]:
                    out.append((a, b, seg.replace(op, r), 'line %d: %s -> %s' % (node.lineno, op, r)))
        elif isinstance(node, ast.BinOp) and type(node.op) in BIN:
            a, b = pos(node.left.end_lineno, node.left.end_col_offset), pos(node.right.lineno, node.right.col_offset)
            seg = src[a:b].decode()
            op = BIN[type(node.op)]
            if seg.strip() == op and not (isinstance(node.left, ast.Constant) and isinstance(node.left.value, str)):
                for r in BIN_SWAP[op]:
                    out.append((a, b, seg.replace(op, r), 'line %d: %s -> %s' % (node.lineno, op, r)))
        elif isinstance(node, ast.BoolOp):
            for x, y in zip(node.values, node.values[1:]):
                a, b = pos(x.end_lineno, x.end_col_offset), pos(y.lineno, y.col_offset)
                seg = src[a:b].decode()
                op = 'and' if isinstance(node.op, ast.And) else 'or'
                if seg.strip() == op:
                    out.append((a, b, seg.replace(op, 'or' if op == 'and' else 'and'), 'line %d: %s -> %s' % (node.lineno, op, 'or' if op == 'and' else 'and')))
        elif isinstance(node, ast.UnaryOp) and isinstance(node.op, ast.Not):
            a, b = pos(node.lineno, node.col_offset), pos(node.operand.lineno, node.operand.col_offset)
            if src[a:b].decode().strip() == 'not':
                out.append((a, b, '', 'line %d: dropped not' % node.lineno))
        elif isinstance(node, ast.Constant) and id(node) not in docstrings:
            a, b = pos(node.lineno, node.col_offset), pos(node.end_lineno, node.end_col_offset)
            if isinstance(node.value, bool):
                out.append((a, b, repr(not node.value), 'line %d: %r -> %r' % (node.lineno, node.value, not node.value)))
            elif isinstance(node.value, int) and abs(node.value) <= 100000 and src[a:b].decode().isdigit():
                for r in (node.value + 1, node.value - 1):
                    if r >= 0:
                        out.append((a, b, str(r), 'line %d: %d -> %d' % (node.lineno, node.value, r)))
    return src, out


def sh(cmd, cwd=None, env=None, timeout=1200):
    try:
        p = subprocess.run(cmd, shell=True, cwd=cwd, env=env, stdout=subprocess.PIPE, stderr=subprocess.STDOUT, timeout=timeout, text=True)
        return p.returncode, p.stdout
    except subprocess.TimeoutExpired:
        return 124, 'timeout'


def evaluate(job):
    k, rel, a, b, repl, desc, checks, seed = job
    root = '/tmp/vfscan/%d' % k
    shutil.rmtree(root, ignore_errors=True)
    os.makedirs(root)
    res = {'k': k, 'file': rel, 'site': desc}
    try:
        sh('(cd /repo && git archive HEAD) | tar -x -C %s && (cd /repo && git diff HEAD) | (cd %s && git apply --allow-empty 2>/dev/null || true)' % (root, root))
        path = os.path.join(root, rel)
        src = open(path, 'rb').read()
        new = src[:a] + repl.encode() + src[b:]
        open(path, 'wb').write(new)
        line_no = src[:a].count(b'\n')
        res['old_line'] = src.splitlines()[line_no].decode().strip()
        res['new_line'] = new.splitlines()[line_no].decode().strip()
        try:
            compile(new, path, 'exec')
        except SyntaxError:
            res['verdict'] = 'does-not-compile'
            return res
        env = dict(os.environ, PYTHONPATH=root + '/src', PYTHONDONTWRITEBYTECODE='1')
        env.pop('DATEUTIL_VERIF', None)
        rc, out = sh('%s -m pytest -q -p no:cacheprovider --timeout=300 --continue-on-collection-errors -rf 2>&1 | '
                     'grep -E "^(FAILED|ERROR)|passed" | sed -e "s/ - .*//" -e "s/ in [0-9.]*s.*$//" | sort' % PY, cwd=root, env=env, timeout=900)
        if out != open(os.path.join(HERE, 'tools', 'baseline_suite.txt')).read():
            res['verdict'] = 'suite-killed'
            return res
        rc, out = sh('%s -m pytest -q -p no:cacheprovider -W "ignore::pytest.PytestRemovedIn10Warning" tests/test_isoparser.py 2>&1 | tail -1' % PY,
                     cwd=root, env=env, timeout=600)
        if '567 passed, 1 xfailed' not in out:
            res['verdict'] = 'suite-killed'
            return res
        res['verdict'] = 'survived'
        res['checks'] = {}
        for c in checks:
            rc, out = sh('./check %s --tier quick' % c, cwd=HERE, env=dict(os.environ, VERIF_REPO=root, VERIF_SEED=str(seed)), timeout=1500)
            kinds = [l.strip() for l in out.splitlines() if 'kind=' in l][:1]
            res['checks'][c] = {'rc': rc, 'first': (kinds[0][:200] if kinds else '')}
            if rc == 1:
                res['verdict'] = 'caught'
                res['by'] = c
                break
            if rc not in (0, 1):
                res['verdict'] = 'inconclusive'
                res['by'] = c
                res['checks'][c]['first'] = ' '.join(l for l in out.splitlines() if 'INCONCLUSIVE' in l)[:300]
                # an inconclusive verdict (crashed shard, unmet floor) is a visible alarm too, but keep looking for a violation
        return res
    finally:
        shutil.rmtree(root, ignore_errors=True)


def main():
    ap = argparse.ArgumentParser()
    ap.add_argument('--n', type=int, default=200)
    ap.add_argument('--seed', type=int, default=0)
    ap.add_argument('--jobs', type=int, default=4)
    ap.add_argument('--files', default='')
    ap.add_argument('--out', default=os.path.join(HERE, 'seeded', 'mutscan', 'RESULTS.json'))
    a = ap.parse_args()
    files = [f for f in FILES if not a.files or any(x in f for x in a.files.split(','))]
    allsites = []
    for rel in files:
        src, ss = sites(os.path.join('/repo', rel))
        for s in ss:
            allsites.append((rel,) + s)
    rng = random.Random(a.seed)
    rng.shuffle(allsites)
    chosen = allsites[:a.n]
    print('mutation sites: %d in %d files; sampling %d (seed %d)' % (len(allsites), len(files), len(chosen), a.seed), flush=True)
    jobs = [(k, rel, s, e, repl, desc, FILES[rel], a.seed) for k, (rel, s, e, repl, desc) in enumerate(chosen)]
    results = []
    os.makedirs(os.path.dirname(a.out), exist_ok=True)
    with cf.ThreadPoolExecutor(max_workers=a.jobs) as ex:
        for r in ex.map(evaluate, jobs):
            results.append(r)
            extra = r.get('by', '')
            if r['verdict'] in ('survived', 'inconclusive'):
                extra += '   %s  =>  %s' % (r.get('old_line'), r.get('new_line'))
            print('%4d %-16s %-34s %-22s %s' % (r['k'], r['verdict'], r['file'].replace('src/dateutil/', ''), r['site'], extra), flush=True)
            summ = {}
            for x in results:
                summ[x['verdict']] = summ.get(x['verdict'], 0) + 1
            json.dump({'seed': a.seed, 'repo_head': subprocess.check_output(['git', '-C', '/repo', 'rev-parse', '--short', 'HEAD'], text=True).strip(),
                       'sites_total': len(allsites), 'sampled': len(chosen), 'summary': summ, 'results': results}, open(a.out, 'w'), indent=1)
    print('SUMMARY', summ)


if __name__ == '__main__':
    main()
