#!/bin/sh
# Runs the repository's pinned baseline (guard off) and prints the pass/fail counts.
# Usage: tools/baseline.sh [repo-dir]
REPO="${1:-/repo}"
cd "$REPO" || exit 2
unset DATEUTIL_VERIF
exec /venv/bin/python -m pytest -ra -q -p no:cacheprovider --timeout=900 --continue-on-collection-errors 2>&1 | tail -n 3
