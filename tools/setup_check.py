"""setup_cmd: nothing to build (standard library only); verify the interpreter, the repository import path
and the oracles' self-tests so that a broken restore is reported here and not as a property verdict."""
import os
import sys
HERE = os.path.dirname(os.path.dirname(os.path.abspath(__file__)))
sys.path.insert(0, HERE)
repo = os.environ.get('VERIF_REPO', '/repo')
sys.path.insert(0, os.path.join(repo, 'src'))
assert sys.version_info >= (3, 12), sys.version
import dateutil  # noqa: E402
assert os.path.realpath(dateutil.__file__).startswith(os.path.realpath(repo)), dateutil.__file__
import six  # noqa: F401,E402
assert hasattr(sys, 'monitoring')
from vf.oracles import easter_ref  # noqa: E402
assert easter_ref.selftest()
os.makedirs(os.path.join(HERE, 'evidence'), exist_ok=True)
os.makedirs(os.path.join(HERE, 'out'), exist_ok=True)
print('setup ok: python %s, dateutil from %s' % (sys.version.split()[0], dateutil.__file__))
