#!/usr/bin/env python3
"""Runs every seeded property-breaking change (seeded/<id>-m<k>/patch.diff) against the check of its property
(on a scratch copy of /repo, never on /repo itself) and prints / records which are caught.

usage: tools/run_seeded.py [--tier quick] [--also C04,C05] [ids...]     -> seeded/RESULTS.json, exit 0 iff all caught
"""
import concurrent.futures as cf
import json
import os
import re
import subprocess
import sys

HERE = os.path.dirname(os.path.dirname(os.path.abspath(__file__)))


def one(tag, checks, tier):
    patch = os.path.join(HERE, 'seeded', tag, 'patch.diff')
    env = dict(os.environ, TIER=tier)
    p = subprocess.run([os.path.join(HERE, 'tools', 'mutant.sh'), patch] + checks, stdout=subprocess.PIPE, stderr=subprocess.STDOUT,
                       text=True, env=env, timeout=3600)
    res = {}
    for line in p.stdout.splitlines():
        m = re.match(r'MUTANT \S+ check=(\S+) rc=(\d+): ?(.*)', line)
        if m:
            res[m.group(1)] = {'rc': int(m.group(2)), 'first': m.group(3)[:200]}
        elif 'patch does not apply' in line:
            res['_error'] = 'patch does not apply'
    return tag, res


def main():
    args = sys.argv[1:]
    tier = 'quick'
    also = []
    if '--tier' in args:
        i = args.index('--tier')
        tier = args[i + 1]
        del args[i:i + 2]
    if '--also' in args:
        i = args.index('--also')
        also = args[i + 1].split(',')
        del args[i:i + 2]
    tags = sorted(d for d in os.listdir(os.path.join(HERE, 'seeded')) if os.path.isdir(os.path.join(HERE, 'seeded', d)) and re.match(r'C\d\d-m\d+$', d))
    if args:
        tags = [t for t in tags if any(t.startswith(a) for a in args)]
    def checks_for(t):
        # seeded/<tag>/meta.json may name further checks ("decided_by") when the change breaks a neighbouring property's
        # clause (e.g. a stale-iterator change filed under C11 that is a C10 history)
        own = t.split('-')[0]
        extra = []
        try:
            extra = json.load(open(os.path.join(HERE, 'seeded', t, 'meta.json'))).get('decided_by', [])
        except (IOError, ValueError):
            pass
        return [own] + [c for c in list(extra) + also if c != own]
    jobs = [(t, checks_for(t)) for t in tags]
    results = {}
    ok = True
    with cf.ThreadPoolExecutor(max_workers=3) as ex:
        for tag, res in ex.map(lambda j: one(j[0], j[1], tier), jobs):
            results[tag] = res
            own = res.get(tag.split('-')[0], {})
            caught = own.get('rc') == 1
            if not caught:
                for c, r in res.items():
                    if isinstance(r, dict) and r.get('rc') == 1:
                        caught, own = True, dict(r, first='[by %s] %s' % (c, r.get('first', '')))
                        break
            try:
                oos = json.load(open(os.path.join(HERE, 'seeded', tag, 'meta.json'))).get('out_of_scope')
            except (IOError, ValueError):
                oos = None
            if oos and not caught:
                results[tag]['_out_of_scope'] = True
                print('%-10s %-7s %s' % (tag, 'N/A', 'outside the properties\' quantifiers (see meta.json)'), flush=True)
                continue
            ok = ok and caught
            print('%-10s %-7s %s' % (tag, 'CAUGHT' if caught else ('ERROR ' + res.get('_error', '') if '_error' in res else 'MISSED rc=%s' % own.get('rc')),
                                     own.get('first', '')[:150]), flush=True)
    path = os.environ.get('SEEDED_RESULTS') or os.path.join(HERE, 'seeded', 'RESULTS.json')
    old = {}
    if os.path.exists(path):
        old = json.load(open(path))
    old.update(results)
    json.dump(old, open(path, 'w'), indent=1, sort_keys=True)
    return 0 if ok else 1


if __name__ == '__main__':
    sys.exit(main())
