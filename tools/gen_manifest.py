#!/usr/bin/env python3
"""Regenerates /verif/MANIFEST.json from vf/checks/*.py (each module carries MANIFEST = {...})."""
import importlib
import json
import os
import sys

HERE = os.path.dirname(os.path.dirname(os.path.abspath(__file__)))
sys.path.insert(0, HERE)

props = [json.loads(l) for l in open(os.path.join(HERE, 'properties.jsonl'))]
checks, na = [], []
for p in props:
    pid = p['id']
    path = os.path.join(HERE, 'vf', 'checks', pid.lower() + '.py')
    if not os.path.exists(path):
        na.append({'property_id': pid,
                   'reason': 'check not registered yet: the monitor for this property is designed '
                             '(DESIGN.md section 4) but not built/validated at this commit'})
        continue
    mod = importlib.import_module('vf.checks.' + pid.lower())
    m = mod.MANIFEST
    checks.append({
        'property_id': pid,
        'quick_cmd': './check %s --tier quick' % pid,
        'thorough_cmd': './check %s --tier thorough' % pid,
        'evidence_file': '/verif/evidence/%s.json' % pid,
        'replay_cmd_template': './check %s --replay {path}' % pid,
        'engine': 'vf',
        'level_claimed': {'category': getattr(mod, 'LEVEL', 'exploration'), 'text': m['level_text'],
                          'design_ref': m.get('design_ref', 'DESIGN.md section 4, ' + pid)},
        'level_note': m['level_note'],
        'technique': m['technique'],
    })

manifest = {
    'version': 1,
    'setup_cmd': '/venv/bin/python -B tools/setup_check.py',
    'hooks': {
        'guard': 'DATEUTIL_VERIF',
        'enable': 'no source hooks are needed: checks import /repo/src directly (PYTHONPATH) and attach their '
                  'monitors from outside (wrapped callables, proxy locks, sys.monitoring line events); the '
                  'variable is set by the checks but nothing in /repo reads it',
        'baseline_off_cmd': 'cd /repo && /venv/bin/python -m pytest -ra -q -p no:cacheprovider --timeout=900 '
                            '--continue-on-collection-errors',
        'source_commits': [],
        'add_only': True,
    },
    'engines': [{'name': 'vf', 'path': '/verif/vf',
                 'serves_properties': [c['property_id'] for c in checks],
                 'kind_free_text': 'runtime monitoring: seeded hostile workloads against the real code, '
                                   'API-boundary monitors with independent executable oracles, history '
                                   'checkers, sys.monitoring step budgets and a baton scheduler with proxy '
                                   'locks for the concurrency properties'}],
    'checks': checks,
    'notes': 'Single entry point ./check <id> --tier quick|thorough; exit 0 held, 1 violated, 2 inconclusive. '
             'Known findings: /verif/known_findings.json. See DESIGN.md.',
    'not_applicable': na,
}
with open(os.path.join(HERE, 'MANIFEST.json'), 'w') as f:
    json.dump(manifest, f, indent=1)
    f.write('\n')
print('checks:', [c['property_id'] for c in checks])
print('not_applicable:', [n['property_id'] for n in na])
