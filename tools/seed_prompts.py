#!/usr/bin/env python3
"""Prepares a round of seeded-change requests for fresh sub-agents.

usage: tools/seed_prompts.py <round-dir> [ids...]        e.g. tools/seed_prompts.py /tmp/mut3 C02 C03

For each property: a detached scratch worktree of /repo HEAD at <round-dir>/<id> and a prompt file
<round-dir>/prompts/<id>.md that contains ONLY the property's text (title, statement, quantifier), the
baseline of the repository suite, the output format, and one-paragraph summaries of the changes earlier agents
already submitted for that property (so that a new round explores other mechanisms).  Nothing about /verif's
checks, oracles or monitors goes into a prompt.  The sub-agent works only inside its worktree and writes to
<round-dir>/out/<id>/; tools/confirm_seeded.py then re-confirms every change before it is filed under seeded/.
"""
import glob
import json
import os
import subprocess
import sys

HERE = os.path.dirname(os.path.dirname(os.path.abspath(__file__)))

TEMPLATE = '''# Task: seed realistic property-breaking changes into python-dateutil

You are working in a scratch git worktree of the python-dateutil library at **{wt}** (a detached
checkout of the current HEAD).  Work only inside {wt} and write results only under {out}.
Do NOT read, list or touch anything under /verif or /repo, and do not read other directories
under {root}.  There is no network.

Python interpreter: `/venv/bin/python` (3.12).  Always run code against the worktree:
`cd {wt} && PYTHONPATH={wt}/src /venv/bin/python ...` and check once that
`dateutil.__file__` starts with `{wt}/src`.

Existing test suite (must keep passing exactly as at baseline):

    cd {wt} && PYTHONPATH={wt}/src /venv/bin/python -m pytest -q -p no:cacheprovider --timeout=900 --continue-on-collection-errors -rf
      -> baseline: "41 failed, 1424 passed, 47 skipped, 16 xfailed, 1 error"   (the 41 failures and the
         collection error are pre-existing: a missing zoneinfo tarball and a pytest deprecation)
    cd {wt} && PYTHONPATH={wt}/src /venv/bin/python -m pytest -q -p no:cacheprovider -W "ignore::pytest.PytestRemovedIn10Warning" tests/test_isoparser.py
      -> baseline: "567 passed, 1 xfailed"

"Passing" means: the same set of FAILED/ERROR test ids and the same pass counts as the baseline.

## The property

**{title}**

{statement}

Quantified over: {quant}

## Already submitted by somebody else (do NOT repeat these mechanisms or trivial variations of them)

{avoid}

Find changes that break the property through a *different* mechanism, a different function, or a different part of the statement.  Prefer subtle ones: a boundary only reached by unusual but legal inputs, state carried across calls, two sites that must agree, behaviour that only differs for one frequency / zone shape / option combination, an interaction between two features.

## What to produce

Produce **3 different changes** to the library source (files under `src/dateutil/`), each of
which makes the library violate the property above while it still imports and the existing test
suite still passes exactly as at baseline.  Requirements for every change:

* It must look like a realistic programming mistake or plausible refactoring slip (off-by-one,
  wrong comparison operator, wrong carry, dropped or narrowed lock, missed cache invalidation,
  sign error, swapped arguments, lost normalisation, wrong default, a boundary case handled in one
  place but not in a cooperating one ...).  No sabotage keyed on magic values, no random behaviour,
  no environment checks, no changes to tests.
* It must need something *specific* to manifest: an unusual input class, a particular multi-step
  sequence of operations, a particular thread interleaving, a boundary value, or two cooperating
  sites that each look fine alone.  Do not submit changes that ordinary everyday use would expose
  at once.  The 3 changes should differ in mechanism and in the part of the property they break.
* Small (a few lines), touching only `src/dateutil/`.

For each change k = 1..3 write, under `{out}/`:

* `m<k>.diff` - the change in `git diff` format, made with `git -C {wt} diff > ...`; it must apply
  with `git apply` to a clean checkout.
* `demo_m<k>.py` - a small stand-alone program (standard library + dateutil only) that exits 0
  and prints "OK" on the unmodified tree and exits 1 with a short message describing what is
  wrong when the change is applied.  It is run as
  `PYTHONPATH=<tree>/src /venv/bin/python demo_m<k>.py`, must finish within 60 s, must not depend
  on the current date, on timing luck (if it needs threads, make the interleaving deterministic,
  e.g. by wrapping/monkeypatching in the demo only) or on anything outside the tree.
* `meta_m<k>.json` - {{"property": "{pid}", "summary": "...what the change does...",
  "needs_to_manifest": "...the specific input / sequence / interleaving...",
  "files": ["src/dateutil/..."], "suite_result": "...the summary lines you observed with the change applied..."}}

Verify each change yourself, in this order: apply it; run both test commands above and compare
with the baseline; run the demo (must fail); revert with `git -C {wt} checkout -- .`; run the demo
again (must print OK).  Discard a change that fails any of these steps and find another one.
Leave the worktree clean (`git -C {wt} status --short` prints nothing) when you finish.

Finish with a short report: for each change, one line of summary and the verification results.
'''


def main():
    root = sys.argv[1]
    props = {}
    for l in open(os.path.join(HERE, 'properties.jsonl')):
        d = json.loads(l)
        props[d['id']] = d
    ids = sys.argv[2:] or sorted(props)
    os.makedirs(os.path.join(root, 'prompts'), exist_ok=True)
    os.makedirs(os.path.join(root, 'out'), exist_ok=True)
    for pid in ids:
        p = props[pid]
        wt = os.path.join(root, pid)
        out = os.path.join(root, 'out', pid)
        os.makedirs(out, exist_ok=True)
        if not os.path.exists(wt):
            subprocess.check_call(['git', '-C', '/repo', 'worktree', 'add', '-q', '--detach', wt, 'HEAD'])
        avoid = []
        for m in sorted(glob.glob(os.path.join(HERE, 'seeded', pid + '-m*', 'meta.json'))):
            try:
                s = json.load(open(m)).get('summary', '')
            except ValueError:
                s = ''
            if s:
                avoid.append('- ' + ' '.join(s.split())[:420])
        text = TEMPLATE.format(wt=wt, out=out, root=root, pid=pid, title=p['title'], statement=p['statement'],
                               quant=p['quantifier']['text'], avoid='\n'.join(avoid) or '(none yet)')
        open(os.path.join(root, 'prompts', pid + '.md'), 'w').write(text)
        print(pid, wt, len(avoid), 'earlier changes listed')


if __name__ == '__main__':
    main()
