#!/usr/bin/env python3
"""Confirms sub-agent-produced property-breaking changes and files them under /verif/seeded/.

usage: tools/confirm_seeded.py <out-root> [ids...]      (out-root/<Cnn>/m<k>.diff, demo_m<k>.py, meta_m<k>.json)

For each change, in a scratch git worktree of /repo HEAD (removed afterwards): the patch applies; the repository's
suite gives exactly the baseline pass/fail set (and tests/test_isoparser.py its 567 passed); the demonstration
exits non-zero with the change and 0 without it.  Only then it is copied to /verif/seeded/<Cnn>-m<k>/.
"""
import concurrent.futures as cf
import json
import os
import shutil
import subprocess
import sys

HERE = os.path.dirname(os.path.dirname(os.path.abspath(__file__)))
PY = '/venv/bin/python'


def sh(cmd, cwd=None, env=None, timeout=900):
    p = subprocess.run(cmd, shell=True, cwd=cwd, env=env, stdout=subprocess.PIPE, stderr=subprocess.STDOUT,
                       timeout=timeout, text=True)
    return p.returncode, p.stdout


OFFSET = 0


def confirm(root, pid, k):
    tag = '%s-m%s' % (pid, int(k) + OFFSET)
    src = os.path.join(root, pid)
    patch = os.path.join(src, 'm%s.diff' % k)
    demo = os.path.join(src, 'demo_m%s.py' % k)
    meta = os.path.join(src, 'meta_m%s.json' % k)
    if not (os.path.exists(patch) and os.path.exists(demo)):
        return tag, False, 'missing files'
    wt = '/tmp/vfconfirm/%s' % tag
    shutil.rmtree(wt, ignore_errors=True)
    os.makedirs('/tmp/vfconfirm', exist_ok=True)
    rc, out = sh('git -C /repo worktree add -q --detach %s HEAD' % wt)
    if rc:
        return tag, False, 'worktree: ' + out
    env = dict(os.environ, PYTHONPATH=wt + '/src', PYTHONDONTWRITEBYTECODE='1')
    env.pop('DATEUTIL_VERIF', None)
    try:
        rc, out = sh('%s %s' % (PY, demo), cwd=wt, env=env, timeout=120)
        if rc != 0:
            return tag, False, 'demo fails on the unmodified tree: ' + out[-300:]
        rc, out = sh('git apply %s' % patch, cwd=wt)
        if rc:
            return tag, False, 'patch does not apply: ' + out[-300:]
        rc, out = sh('%s %s' % (PY, demo), cwd=wt, env=env, timeout=120)
        demo_msg = out.strip()[-400:]
        if rc == 0:
            return tag, False, 'demo passes with the change applied'
        rc, out = sh('%s -m pytest -q -p no:cacheprovider --timeout=900 --continue-on-collection-errors -rf 2>&1 | '
                     'grep -E "^(FAILED|ERROR)|passed" | sed -e "s/ - .*//" -e "s/ in [0-9.]*s.*$//" | sort' % PY,
                     cwd=wt, env=env)
        base = open(os.path.join(HERE, 'tools', 'baseline_suite.txt')).read()
        if out != base:
            return tag, False, 'suite differs from baseline: ' + '\n'.join(
                l for l in out.splitlines() if l not in base.splitlines())[:400]
        rc, out = sh('%s -m pytest -q -p no:cacheprovider -W "ignore::pytest.PytestRemovedIn10Warning" '
                     'tests/test_isoparser.py 2>&1 | tail -1' % PY, cwd=wt, env=env)
        if '567 passed, 1 xfailed' not in out:
            return tag, False, 'isoparser tests: ' + out.strip()
        dst = os.path.join(HERE, 'seeded', tag)
        os.makedirs(dst, exist_ok=True)
        shutil.copy(patch, os.path.join(dst, 'patch.diff'))
        shutil.copy(demo, os.path.join(dst, 'demo.py'))
        m = {}
        if os.path.exists(meta):
            try:
                m = json.load(open(meta))
            except ValueError:
                m = {'raw': open(meta).read()}
        m['property'] = pid
        m['confirmed'] = {
            'ran': ['git worktree of /repo HEAD %s' % subprocess.check_output(['git', '-C', '/repo', 'rev-parse', '--short', 'HEAD'], text=True).strip(),
                    'demo on clean tree: exit 0', 'git apply patch.diff', 'demo with change: exit non-zero',
                    'pytest suite == tools/baseline_suite.txt (1424 passed, 41 failed, 1 error)',
                    'tests/test_isoparser.py: 567 passed, 1 xfailed'],
            'demo_output_with_change': demo_msg}
        json.dump(m, open(os.path.join(dst, 'meta.json'), 'w'), indent=1)
        return tag, True, demo_msg[:150]
    finally:
        sh('git -C /repo worktree remove --force %s' % wt)
        shutil.rmtree(wt, ignore_errors=True)


def main():
    global OFFSET
    if '--offset' in sys.argv:
        i = sys.argv.index('--offset')
        OFFSET = int(sys.argv[i + 1])
        del sys.argv[i:i + 2]
    root = sys.argv[1]
    ids = sys.argv[2:] or sorted(d for d in os.listdir(root) if os.path.isdir(os.path.join(root, d)))
    jobs = []
    for pid in ids:
        for fn in sorted(os.listdir(os.path.join(root, pid))):
            if fn.startswith('m') and fn.endswith('.diff'):
                jobs.append((pid, fn[1:-5]))
    with cf.ThreadPoolExecutor(max_workers=6) as ex:
        for tag, ok, msg in ex.map(lambda j: confirm(root, *j), jobs):
            print('%-10s %s %s' % (tag, 'CONFIRMED' if ok else 'REJECTED ', msg.replace('\n', ' ')[:200]), flush=True)


if __name__ == '__main__':
    main()
