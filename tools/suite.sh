#!/bin/sh
# tools/suite.sh [repo-dir]: run the repo's suite with hooks off; print summary and the FAILED/ERROR ids.
REPO="${1:-/repo}"
cd "$REPO" || exit 2
unset DATEUTIL_VERIF
/venv/bin/python -m pytest -q -p no:cacheprovider --timeout=900 --continue-on-collection-errors -rf 2>&1 | grep -E "^(FAILED|ERROR)|passed" | sed -e "s/ - .*//" -e "s/ in [0-9.]*s.*$//" | sort
