#!/bin/sh
# tools/mutant.sh <patch.diff> <check-id> [<check-id>...]   (env TIER=quick|thorough, VERIF_SEED)
# Applies the patch to a scratch copy of /repo (never to /repo itself), runs the named checks against the
# copy (VERIF_REPO), prints each verdict, removes the copy.  Exit 0 iff at least one check reported a violation.
set -u
PATCH="$1"; shift
TIER="${TIER:-quick}"
D=$(mktemp -d /tmp/vfmut.XXXXXX)
trap 'rm -rf "$D"' EXIT
mkdir -p "$D/repo"
(cd /repo && git archive HEAD) | tar -x -C "$D/repo"
# carry uncommitted working-tree state of /repo too (checks must follow the working tree)
(cd /repo && git diff HEAD) | (cd "$D/repo" && git apply --allow-empty 2>/dev/null || true)
if ! (cd "$D/repo" && git apply "$PATCH" 2>/dev/null || patch -p1 -s < "$PATCH"); then
  echo "MUTANT $PATCH: patch does not apply"; exit 3
fi
caught=1
for id in "$@"; do
  out=$(cd /verif && VERIF_REPO="$D/repo" ./check "$id" --tier "$TIER" 2>&1)
  rc=$?
  echo "MUTANT $(basename $(dirname $PATCH))/$(basename $PATCH) check=$id rc=$rc: $(echo "$out" | grep -E 'kind=|INCONCLUSIVE' | head -2 | tr '\n' ' ')"
  [ $rc -eq 1 ] && caught=0
done
exit $caught
